module buf.build/go/protovalidate

go 1.24.7

require (
	buf.build/gen/go/bufbuild/protovalidate/protocolbuffers/go v1.36.11-20260209202127-80ab13bee0bf.1
	google.golang.org/protobuf v1.36.11
)
