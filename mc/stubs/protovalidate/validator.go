// Package protovalidate is a stand-in for buf.build/go/protovalidate (whose module is not available
// offline). It exposes exactly the API surface sebuf's generated code uses and evaluates the
// *standard* (non-CEL) buf.validate field rules by protoreflect interpretation. It is also the
// executable reference semantics of those rules for the checks (M-rules).
package protovalidate

import (
	"fmt"
	"math"
	"net"
	"net/mail"
	"net/url"
	"regexp"
	"sort"
	"strings"
	"unicode/utf8"

	"buf.build/gen/go/bufbuild/protovalidate/protocolbuffers/go/buf/validate"
	"google.golang.org/protobuf/proto"
	"google.golang.org/protobuf/reflect/protoreflect"
	"google.golang.org/protobuf/types/descriptorpb"
)

type Validator interface {
	Validate(msg proto.Message, options ...ValidationOption) error
}

type ValidatorOption interface{ isValidatorOption() }
type ValidationOption interface{ isValidationOption() }

type Violation struct {
	Proto           *validate.Violation
	FieldValue      protoreflect.Value
	FieldDescriptor protoreflect.FieldDescriptor
	RuleValue       protoreflect.Value
	RuleDescriptor  protoreflect.FieldDescriptor
}

type ValidationError struct {
	Violations []*Violation
}

func (e *ValidationError) Error() string {
	var b strings.Builder
	b.WriteString("validation error:")
	for _, v := range e.Violations {
		b.WriteString("\n - ")
		if p := FieldPathString(v.Proto.GetField()); p != "" {
			b.WriteString(p + ": ")
		}
		b.WriteString(v.Proto.GetMessage())
	}
	return b.String()
}

// NewHook lets a harness make New fail or observe calls (used by the concurrency check).
var NewHook func() error

func New(options ...ValidatorOption) (Validator, error) {
	if NewHook != nil {
		if err := NewHook(); err != nil {
			return nil, err
		}
	}
	return &validator{}, nil
}

type validator struct{}

func (v *validator) Validate(msg proto.Message, options ...ValidationOption) error {
	if msg == nil {
		return nil
	}
	viols := Check(msg)
	if len(viols) == 0 {
		return nil
	}
	return &ValidationError{Violations: viols}
}

// FieldPathString renders a field path like protovalidate does: a.b[1].c["k"].
func FieldPathString(p *validate.FieldPath) string {
	var b strings.Builder
	for i, e := range p.GetElements() {
		if i > 0 {
			b.WriteByte('.')
		}
		b.WriteString(e.GetFieldName())
		switch s := e.GetSubscript().(type) {
		case *validate.FieldPathElement_Index:
			fmt.Fprintf(&b, "[%d]", s.Index)
		case *validate.FieldPathElement_BoolKey:
			fmt.Fprintf(&b, "[%v]", s.BoolKey)
		case *validate.FieldPathElement_IntKey:
			fmt.Fprintf(&b, "[%d]", s.IntKey)
		case *validate.FieldPathElement_UintKey:
			fmt.Fprintf(&b, "[%d]", s.UintKey)
		case *validate.FieldPathElement_StringKey:
			fmt.Fprintf(&b, "[%q]", s.StringKey)
		}
	}
	return b.String()
}

// Check evaluates all standard rules of msg (recursively) and returns the violations.
func Check(msg proto.Message) []*Violation {
	c := &checker{}
	c.message(msg.ProtoReflect(), nil, 0)
	return c.out
}

type checker struct {
	out []*Violation
}

func (c *checker) add(path []*validate.FieldPathElement, ruleID, message string, fd protoreflect.FieldDescriptor, val protoreflect.Value) {
	els := make([]*validate.FieldPathElement, len(path))
	for i, e := range path {
		els[i] = proto.Clone(e).(*validate.FieldPathElement)
	}
	c.out = append(c.out, &Violation{
		Proto: &validate.Violation{Field: &validate.FieldPath{Elements: els}, RuleId: proto.String(ruleID), Message: proto.String(message)},
		FieldValue: val, FieldDescriptor: fd,
	})
}

func elem(fd protoreflect.FieldDescriptor) *validate.FieldPathElement {
	t := descriptorpb.FieldDescriptorProto_Type(fd.Kind())
	e := &validate.FieldPathElement{FieldNumber: proto.Int32(int32(fd.Number())), FieldName: proto.String(string(fd.Name())), FieldType: &t}
	if fd.IsMap() {
		kt := descriptorpb.FieldDescriptorProto_Type(fd.MapKey().Kind())
		vt := descriptorpb.FieldDescriptorProto_Type(fd.MapValue().Kind())
		e.KeyType, e.ValueType = &kt, &vt
	}
	return e
}

func fieldRules(fd protoreflect.FieldDescriptor) *validate.FieldRules {
	opts, ok := fd.Options().(*descriptorpb.FieldOptions)
	if !ok || opts == nil {
		return nil
	}
	if !proto.HasExtension(opts, validate.E_Field) {
		return nil
	}
	r, _ := proto.GetExtension(opts, validate.E_Field).(*validate.FieldRules)
	return r
}

func (c *checker) message(m protoreflect.Message, path []*validate.FieldPathElement, depth int) {
	if depth > 64 {
		return
	}
	fds := m.Descriptor().Fields()
	for i := 0; i < fds.Len(); i++ {
		fd := fds.Get(i)
		fr := fieldRules(fd)
		p := append(append([]*validate.FieldPathElement(nil), path...), elem(fd))
		val := m.Get(fd)
		set := m.Has(fd)
		if fr != nil {
			if fr.GetIgnore() == validate.Ignore_IGNORE_ALWAYS {
				continue
			}
			if fr.GetRequired() && !set {
				c.add(p, "required", "value is required", fd, val)
				continue
			}
			skip := false
			if !set && (fd.HasPresence() || fr.GetIgnore() == validate.Ignore_IGNORE_IF_ZERO_VALUE) {
				skip = true
			}
			if !skip {
				c.field(fd, fr, val, p, depth)
			}
		}
		// recurse into message values
		switch {
		case fd.IsMap():
			if fd.MapValue().Kind() == protoreflect.MessageKind {
				type kv struct {
					k protoreflect.MapKey
					v protoreflect.Value
				}
				var kvs []kv
				val.Map().Range(func(k protoreflect.MapKey, v protoreflect.Value) bool { kvs = append(kvs, kv{k, v}); return true })
				sort.Slice(kvs, func(i, j int) bool { return kvs[i].k.String() < kvs[j].k.String() })
				for _, e := range kvs {
					pe := elem(fd)
					setKey(pe, fd.MapKey(), e.k)
					c.message(e.v.Message(), append(append([]*validate.FieldPathElement(nil), path...), pe), depth+1)
				}
			}
		case fd.IsList():
			if fd.Kind() == protoreflect.MessageKind {
				l := val.List()
				for j := 0; j < l.Len(); j++ {
					pe := elem(fd)
					pe.Subscript = &validate.FieldPathElement_Index{Index: uint64(j)}
					c.message(l.Get(j).Message(), append(append([]*validate.FieldPathElement(nil), path...), pe), depth+1)
				}
			}
		case fd.Kind() == protoreflect.MessageKind:
			if set {
				c.message(val.Message(), p, depth+1)
			}
		}
	}
}

func setKey(pe *validate.FieldPathElement, kd protoreflect.FieldDescriptor, k protoreflect.MapKey) {
	switch kd.Kind() {
	case protoreflect.StringKind:
		pe.Subscript = &validate.FieldPathElement_StringKey{StringKey: k.String()}
	case protoreflect.BoolKind:
		pe.Subscript = &validate.FieldPathElement_BoolKey{BoolKey: k.Bool()}
	case protoreflect.Uint32Kind, protoreflect.Uint64Kind, protoreflect.Fixed32Kind, protoreflect.Fixed64Kind:
		pe.Subscript = &validate.FieldPathElement_UintKey{UintKey: k.Uint()}
	default:
		pe.Subscript = &validate.FieldPathElement_IntKey{IntKey: k.Int()}
	}
}

// field applies fr to a (possibly repeated / map) field value.
func (c *checker) field(fd protoreflect.FieldDescriptor, fr *validate.FieldRules, val protoreflect.Value, p []*validate.FieldPathElement, depth int) {
	switch {
	case fd.IsMap():
		mr := fr.GetMap()
		if mr == nil {
			return
		}
		n := uint64(val.Map().Len())
		if mr.MinPairs != nil && n < mr.GetMinPairs() {
			c.add(p, "map.min_pairs", fmt.Sprintf("map must be at least %d entries", mr.GetMinPairs()), fd, val)
		}
		if mr.MaxPairs != nil && n > mr.GetMaxPairs() {
			c.add(p, "map.max_pairs", fmt.Sprintf("map must be at most %d entries", mr.GetMaxPairs()), fd, val)
		}
		if mr.GetKeys() != nil || mr.GetValues() != nil {
			var keys []protoreflect.MapKey
			val.Map().Range(func(k protoreflect.MapKey, _ protoreflect.Value) bool { keys = append(keys, k); return true })
			sort.Slice(keys, func(i, j int) bool { return keys[i].String() < keys[j].String() })
			for _, k := range keys {
				pe := proto.Clone(p[len(p)-1]).(*validate.FieldPathElement)
				setKey(pe, fd.MapKey(), k)
				pp := append(append([]*validate.FieldPathElement(nil), p[:len(p)-1]...), pe)
				if mr.GetKeys() != nil {
					for _, m := range Scalar(fd.MapKey(), mr.GetKeys(), k.Value()) {
						c.add(pp, m.ID, m.Msg, fd, k.Value())
					}
				}
				if mr.GetValues() != nil {
					for _, m := range Scalar(fd.MapValue(), mr.GetValues(), val.Map().Get(k)) {
						c.add(pp, m.ID, m.Msg, fd, val.Map().Get(k))
					}
				}
			}
		}
	case fd.IsList():
		rr := fr.GetRepeated()
		if rr == nil {
			return
		}
		l := val.List()
		n := uint64(l.Len())
		if rr.MinItems != nil && n < rr.GetMinItems() {
			c.add(p, "repeated.min_items", fmt.Sprintf("value must contain at least %d item(s)", rr.GetMinItems()), fd, val)
		}
		if rr.MaxItems != nil && n > rr.GetMaxItems() {
			c.add(p, "repeated.max_items", fmt.Sprintf("value must contain no more than %d item(s)", rr.GetMaxItems()), fd, val)
		}
		if rr.GetUnique() {
			seen := map[string]bool{}
			for j := 0; j < l.Len(); j++ {
				k := valueKey(fd, l.Get(j))
				if seen[k] {
					c.add(p, "repeated.unique", "repeated value must contain unique items", fd, val)
					break
				}
				seen[k] = true
			}
		}
		if rr.GetItems() != nil {
			for j := 0; j < l.Len(); j++ {
				pe := proto.Clone(p[len(p)-1]).(*validate.FieldPathElement)
				pe.Subscript = &validate.FieldPathElement_Index{Index: uint64(j)}
				pp := append(append([]*validate.FieldPathElement(nil), p[:len(p)-1]...), pe)
				for _, m := range Scalar(fd, rr.GetItems(), l.Get(j)) {
					c.add(pp, m.ID, m.Msg, fd, l.Get(j))
				}
			}
		}
	default:
		for _, m := range Scalar(fd, fr, val) {
			c.add(p, m.ID, m.Msg, fd, val)
		}
	}
}

func valueKey(fd protoreflect.FieldDescriptor, v protoreflect.Value) string {
	switch fd.Kind() {
	case protoreflect.BytesKind:
		return string(v.Bytes())
	case protoreflect.MessageKind:
		b, _ := proto.MarshalOptions{Deterministic: true}.Marshal(v.Message().Interface())
		return string(b)
	case protoreflect.FloatKind, protoreflect.DoubleKind:
		f := v.Float()
		if f == 0 {
			f = 0
		}
		return fmt.Sprint(f)
	}
	return v.String()
}

// Msg is one rule failure.
type Msg struct{ ID, Msg string }

// Scalar evaluates the scalar (per-element) rules of fr on v of field kind fd.Kind().
func Scalar(fd protoreflect.FieldDescriptor, fr *validate.FieldRules, v protoreflect.Value) []Msg {
	var out []Msg
	bad := func(id, format string, a ...any) { out = append(out, Msg{id, fmt.Sprintf(format, a...)}) }
	switch fd.Kind() {
	case protoreflect.StringKind:
		if r := fr.GetString(); r != nil {
			stringRules(r, v.String(), bad)
		}
	case protoreflect.BytesKind:
		if r := fr.GetBytes(); r != nil {
			b := v.Bytes()
			if r.Const != nil && string(b) != string(r.GetConst()) {
				bad("bytes.const", "value must be %x", r.GetConst())
			}
			if r.Len != nil && uint64(len(b)) != r.GetLen() {
				bad("bytes.len", "value length must be %d bytes", r.GetLen())
			}
			if r.MinLen != nil && uint64(len(b)) < r.GetMinLen() {
				bad("bytes.min_len", "value length must be at least %d bytes", r.GetMinLen())
			}
			if r.MaxLen != nil && uint64(len(b)) > r.GetMaxLen() {
				bad("bytes.max_len", "value must be at most %d bytes", r.GetMaxLen())
			}
		}
	case protoreflect.BoolKind:
		if r := fr.GetBool(); r != nil && r.Const != nil && v.Bool() != r.GetConst() {
			bad("bool.const", "value must equal %v", r.GetConst())
		}
	case protoreflect.EnumKind:
		if r := fr.GetEnum(); r != nil {
			n := int32(v.Enum())
			if r.Const != nil && n != r.GetConst() {
				bad("enum.const", "value must equal %d", r.GetConst())
			}
			if r.GetDefinedOnly() && fd.Enum().Values().ByNumber(v.Enum()) == nil {
				bad("enum.defined_only", "value must be one of the defined enum values")
			}
			if len(r.GetIn()) > 0 && !containsI32(r.GetIn(), n) {
				bad("enum.in", "value must be in list %v", r.GetIn())
			}
			if containsI32(r.GetNotIn(), n) {
				bad("enum.not_in", "value must not be in list %v", r.GetNotIn())
			}
		}
	case protoreflect.MessageKind, protoreflect.GroupKind:
	default:
		numericRules(fd.Kind(), fr, v, bad)
	}
	return out
}

func containsI32(l []int32, n int32) bool {
	for _, x := range l {
		if x == n {
			return true
		}
	}
	return false
}

var typeRuleField = map[protoreflect.Kind]protoreflect.Name{
	protoreflect.FloatKind: "float", protoreflect.DoubleKind: "double", protoreflect.Int32Kind: "int32", protoreflect.Int64Kind: "int64",
	protoreflect.Uint32Kind: "uint32", protoreflect.Uint64Kind: "uint64", protoreflect.Sint32Kind: "sint32", protoreflect.Sint64Kind: "sint64",
	protoreflect.Fixed32Kind: "fixed32", protoreflect.Fixed64Kind: "fixed64", protoreflect.Sfixed32Kind: "sfixed32", protoreflect.Sfixed64Kind: "sfixed64",
}

// cmp compares two protoreflect scalar values of the same numeric kind.
func cmp(k protoreflect.Kind, a, b protoreflect.Value) (int, bool) {
	switch k {
	case protoreflect.FloatKind, protoreflect.DoubleKind:
		x, y := a.Float(), b.Float()
		if math.IsNaN(x) || math.IsNaN(y) {
			return 0, false
		}
		switch {
		case x < y:
			return -1, true
		case x > y:
			return 1, true
		}
		return 0, true
	case protoreflect.Uint32Kind, protoreflect.Uint64Kind, protoreflect.Fixed32Kind, protoreflect.Fixed64Kind:
		x, y := a.Uint(), b.Uint()
		switch {
		case x < y:
			return -1, true
		case x > y:
			return 1, true
		}
		return 0, true
	default:
		x, y := a.Int(), b.Int()
		switch {
		case x < y:
			return -1, true
		case x > y:
			return 1, true
		}
		return 0, true
	}
}

func numericRules(k protoreflect.Kind, fr *validate.FieldRules, v protoreflect.Value, bad func(string, string, ...any)) {
	name, ok := typeRuleField[k]
	if !ok {
		return
	}
	frm := fr.ProtoReflect()
	tfd := frm.Descriptor().Fields().ByName(name)
	if tfd == nil || !frm.Has(tfd) {
		return
	}
	rm := frm.Get(tfd).Message()
	rf := rm.Descriptor().Fields()
	get := func(n protoreflect.Name) (protoreflect.Value, bool) {
		f := rf.ByName(n)
		if f == nil || !rm.Has(f) {
			return protoreflect.Value{}, false
		}
		return rm.Get(f), true
	}
	id := func(s string) string { return string(name) + "." + s }
	if c, ok := get("const"); ok {
		if r, okc := cmp(k, v, c); !okc || r != 0 {
			bad(id("const"), "value must equal %v", c)
		}
	}
	lt, hasLt := get("lt")
	lte, hasLte := get("lte")
	gt, hasGt := get("gt")
	gte, hasGte := get("gte")
	isNaN := (k == protoreflect.FloatKind || k == protoreflect.DoubleKind) && math.IsNaN(v.Float())
	var upper, lower protoreflect.Value
	upIncl, loIncl := false, false
	hasUp, hasLo := hasLt || hasLte, hasGt || hasGte
	if hasLt {
		upper = lt
	} else if hasLte {
		upper, upIncl = lte, true
	}
	if hasGt {
		lower = gt
	} else if hasGte {
		lower, loIncl = gte, true
	}
	below := func() bool { // v satisfies the upper bound
		r, _ := cmp(k, v, upper)
		return r < 0 || (upIncl && r == 0)
	}
	above := func() bool {
		r, _ := cmp(k, v, lower)
		return r > 0 || (loIncl && r == 0)
	}
	switch {
	case isNaN && (hasUp || hasLo):
		bad(id("range"), "value must be in range (NaN)")
	case hasUp && hasLo:
		r, _ := cmp(k, upper, lower)
		if r >= 0 {
			// normal range lower..upper
			if !(below() && above()) {
				bad(id("range"), "value must be within %v and %v", lower, upper)
			}
		} else {
			// exclusive range: outside
			if !(below() || above()) {
				bad(id("range_exclusive"), "value must be outside %v and %v", upper, lower)
			}
		}
	case hasUp:
		if !below() {
			if upIncl {
				bad(id("lte"), "value must be less than or equal to %v", upper)
			} else {
				bad(id("lt"), "value must be less than %v", upper)
			}
		}
	case hasLo:
		if !above() {
			if loIncl {
				bad(id("gte"), "value must be greater than or equal to %v", lower)
			} else {
				bad(id("gt"), "value must be greater than %v", lower)
			}
		}
	}
	if in, ok := get("in"); ok && in.List().Len() > 0 {
		hit := false
		for i := 0; i < in.List().Len(); i++ {
			if r, okc := cmp(k, v, in.List().Get(i)); okc && r == 0 {
				hit = true
			}
		}
		if !hit {
			bad(id("in"), "value must be in list")
		}
	}
	if nin, ok := get("not_in"); ok {
		for i := 0; i < nin.List().Len(); i++ {
			if r, okc := cmp(k, v, nin.List().Get(i)); okc && r == 0 {
				bad(id("not_in"), "value must not be in list")
			}
		}
	}
	if fin, ok := get("finite"); ok && fin.Bool() {
		if math.IsNaN(v.Float()) || math.IsInf(v.Float(), 0) {
			bad(id("finite"), "value must be finite")
		}
	}
}

var uuidRe = regexp.MustCompile(`^[0-9a-fA-F]{8}-[0-9a-fA-F]{4}-[0-9a-fA-F]{4}-[0-9a-fA-F]{4}-[0-9a-fA-F]{12}$`)
var hostRe = regexp.MustCompile(`^([a-zA-Z0-9]([a-zA-Z0-9-]{0,61}[a-zA-Z0-9])?)(\.([a-zA-Z0-9]([a-zA-Z0-9-]{0,61}[a-zA-Z0-9])?))*\.?$`)

func stringRules(r *validate.StringRules, s string, bad func(string, string, ...any)) {
	n := uint64(utf8.RuneCountInString(s))
	if r.Const != nil && s != r.GetConst() {
		bad("string.const", "value must equal `%s`", r.GetConst())
	}
	if r.Len != nil && n != r.GetLen() {
		bad("string.len", "value length must be %d characters", r.GetLen())
	}
	if r.MinLen != nil && n < r.GetMinLen() {
		bad("string.min_len", "value length must be at least %d characters", r.GetMinLen())
	}
	if r.MaxLen != nil && n > r.GetMaxLen() {
		bad("string.max_len", "value length must be at most %d characters", r.GetMaxLen())
	}
	if r.LenBytes != nil && uint64(len(s)) != r.GetLenBytes() {
		bad("string.len_bytes", "value length must be %d bytes", r.GetLenBytes())
	}
	if r.MinBytes != nil && uint64(len(s)) < r.GetMinBytes() {
		bad("string.min_bytes", "value length must be at least %d bytes", r.GetMinBytes())
	}
	if r.MaxBytes != nil && uint64(len(s)) > r.GetMaxBytes() {
		bad("string.max_bytes", "value length must be at most %d bytes", r.GetMaxBytes())
	}
	if r.Pattern != nil {
		re, err := regexp.Compile(r.GetPattern())
		if err != nil || !re.MatchString(s) {
			bad("string.pattern", "value does not match regex pattern `%s`", r.GetPattern())
		}
	}
	if r.Prefix != nil && !strings.HasPrefix(s, r.GetPrefix()) {
		bad("string.prefix", "value does not have prefix `%s`", r.GetPrefix())
	}
	if r.Suffix != nil && !strings.HasSuffix(s, r.GetSuffix()) {
		bad("string.suffix", "value does not have suffix `%s`", r.GetSuffix())
	}
	if r.Contains != nil && !strings.Contains(s, r.GetContains()) {
		bad("string.contains", "value does not contain substring `%s`", r.GetContains())
	}
	if r.NotContains != nil && strings.Contains(s, r.GetNotContains()) {
		bad("string.not_contains", "value contains substring `%s`", r.GetNotContains())
	}
	if len(r.GetIn()) > 0 {
		hit := false
		for _, x := range r.GetIn() {
			if x == s {
				hit = true
			}
		}
		if !hit {
			bad("string.in", "value must be in list %v", r.GetIn())
		}
	}
	for _, x := range r.GetNotIn() {
		if x == s {
			bad("string.not_in", "value must not be in list %v", r.GetNotIn())
		}
	}
	switch {
	case r.GetEmail():
		if a, err := mail.ParseAddress(s); err != nil || a.Address != s {
			bad("string.email", "value must be a valid email address")
		}
	case r.GetUuid():
		if !uuidRe.MatchString(s) {
			bad("string.uuid", "value must be a valid UUID")
		}
	case r.GetHostname():
		if len(s) > 253 || !hostRe.MatchString(s) {
			bad("string.hostname", "value must be a valid hostname")
		}
	case r.GetIp():
		if net.ParseIP(s) == nil {
			bad("string.ip", "value must be a valid IP address")
		}
	case r.GetIpv4():
		if ip := net.ParseIP(s); ip == nil || ip.To4() == nil || strings.Contains(s, ":") {
			bad("string.ipv4", "value must be a valid IPv4 address")
		}
	case r.GetIpv6():
		if ip := net.ParseIP(s); ip == nil || !strings.Contains(s, ":") {
			bad("string.ipv6", "value must be a valid IPv6 address")
		}
	case r.GetUri():
		if u, err := url.Parse(s); err != nil || !u.IsAbs() {
			bad("string.uri", "value must be a valid URI")
		}
	case r.GetUriRef():
		if _, err := url.Parse(s); err != nil {
			bad("string.uri_ref", "value must be a valid URI Reference")
		}
	}
}
