// Node side of the TypeScript bridge (node >= 22, type stripping).
// usage: node bridge.mjs <tsRoot> <in.jsonl> <out.jsonl>
// ops: routes | client_record | client_finish | server_handle | ts_ts | helpers
import { readFileSync, writeFileSync, existsSync } from 'node:fs';
import { join } from 'node:path';
import { pathToFileURL } from 'node:url';

const [tsRoot, inFile, outFile] = process.argv.slice(2);
const out = [];
const emit = (o) => out.push(JSON.stringify(o));
const mods = new Map();
async function load(rel) {
  if (!mods.has(rel)) {
    const p = join(tsRoot, rel);
    if (!existsSync(p)) { mods.set(rel, { error: 'missing ' + rel }); }
    else {
      try { mods.set(rel, { mod: await import(pathToFileURL(p).href) }); }
      catch (e) { mods.set(rel, { error: String(e && e.message || e) }); }
    }
  }
  return mods.get(rel);
}
const lowerFirst = (s) => s.charAt(0).toLowerCase() + s.slice(1);
function findMethod(obj, rpc) {
  const norm = (s) => s.toLowerCase().replaceAll('_', '');
  const want = norm(rpc);
  let p = obj;
  while (p && p !== Object.prototype) {
    for (const k of Object.getOwnPropertyNames(p)) if (norm(k) === want && typeof obj[k] === 'function') return k;
    p = Object.getPrototypeOf(p);
  }
  for (const k of Object.keys(obj)) if (norm(k) === want && typeof obj[k] === 'function') return k;
  return null;
}
function errInfo(e) {
  const o = { name: e && e.name, message: String(e && e.message || e) };
  if (e && typeof e === 'object') {
    if ('statusCode' in e) o.statusCode = e.statusCode;
    if ('body' in e) o.body = e.body;
    if ('violations' in e) o.violations = e.violations;
  }
  return o;
}
function hdrObj(h) {
  const o = {};
  if (!h) return o;
  if (typeof h.forEach === 'function' && !(h instanceof Array) && !(Object.getPrototypeOf(h) === Object.prototype)) { h.forEach((v, k) => { o[k] = v; }); return o; }
  for (const [k, v] of Object.entries(h)) o[k] = v;
  return o;
}
// match a concrete path against a template with {vars}
function matchTemplate(tmpl, path) {
  const ts = tmpl.split('/'), ps = path.split('/');
  if (ts.length !== ps.length) return false;
  let lits = 0;
  for (let i = 0; i < ts.length; i++) {
    if (ts[i].startsWith('{') && ts[i].endsWith('}')) { if (ps[i] === '') return false; }
    else if (ts[i] !== ps[i]) return false; else lits++;
  }
  return lits + 1;
}
function route(routes, method, url) {
  const u = new URL(url, 'http://verif.test');
  let best = null, bestScore = 0;
  for (const r of routes) {
    if (r.method !== method) continue;
    const s = matchTemplate(r.path, u.pathname);
    if (s && s > bestScore) { best = r; bestScore = s; }
  }
  return best;
}
async function makeRoutes(serverRel, svc, handlerImpl, options) {
  const m = await load(serverRel);
  if (m.error) return { error: m.error };
  const fn = m.mod['create' + svc + 'Routes'];
  if (typeof fn !== 'function') return { error: 'no create' + svc + 'Routes export' };
  // handler proxy: any method name
  const handler = new Proxy({}, { get: (_, name) => (ctx, req) => handlerImpl(String(name), ctx, req) });
  try { return { routes: fn(handler, options) }; } catch (e) { return { error: String(e && e.message || e) }; }
}

const lines = readFileSync(inFile, 'utf8').split('\n').filter((l) => l.trim());
for (const line of lines) {
  const c = JSON.parse(line);
  const base = { id: c.id, op: c.op };
  try {
    if (c.op === 'routes') {
      const r = await makeRoutes(c.server, c.svc, async () => ({}));
      emit(r.error ? { ...base, error: r.error } : { ...base, routes: r.routes.map((x) => ({ method: x.method, path: x.path })) });
    } else if (c.op === 'helpers') {
      // which header does each typed option of the client set?
      const m = await load(c.client);
      if (m.error) { emit({ ...base, error: m.error }); continue; }
      const Cls = m.mod[c.svc + 'Client'];
      const res = [];
      for (const h of c.helpers) {
        for (const level of ['client', 'call']) {
          let rec = null;
          const fetchFn = async (url, init) => { rec = { headers: hdrObj(init && init.headers) }; return new Response('{}', { status: 200, headers: { 'Content-Type': 'application/json' } }); };
          const marker = 'hv-' + h + '-' + level;
          try {
            const cl = new Cls('http://verif.test', level === 'client' ? { fetch: fetchFn, [h]: marker } : { fetch: fetchFn });
            const mn = findMethod(cl, c.rpc);
            await cl[mn](c.reqObj, level === 'call' ? { [h]: marker } : undefined);
            const under = Object.entries(rec ? rec.headers : {}).filter(([k, v]) => v === marker).map(([k]) => k);
            res.push({ helper: h, level, under });
          } catch (e) { res.push({ helper: h, level, error: String(e && e.message || e) }); }
        }
      }
      // precedence and isolation of the generic header options: client default x per-call value, then a plain call
      const prec = [];
      for (const name of (c.names || [])) {
        for (const mode of ['default_only', 'call_only', 'both', 'both_then_plain', 'both_default_in_lower_case']) {
          let rec = null;
          const fetchFn = async (url, init) => { rec = { headers: hdrObj(init && init.headers) }; return new Response('{}', { status: 200, headers: { 'Content-Type': 'application/json' } }); };
          try {
            // (header names are case-insensitive: a default given in another letter case is the same header)
            const cl = new Cls('http://verif.test', mode === 'call_only' ? { fetch: fetchFn } : { fetch: fetchFn, defaultHeaders: { [mode === 'both_default_in_lower_case' ? name.toLowerCase() : name]: 'dv' } });
            const mn = findMethod(cl, c.rpc);
            await cl[mn](structuredClone(c.reqObj), mode === 'default_only' ? undefined : { headers: { [name]: 'cv' } });
            if (mode === 'both_then_plain') await cl[mn](structuredClone(c.reqObj), undefined);
            // what the wire would carry: the Fetch API merges same-named members case-insensitively
            const wire = new Headers(); for (const [k, v] of Object.entries(rec ? rec.headers : {})) wire.append(k, v);
            const got = wire.get(name);
            prec.push({ header: name, mode, got: got == null ? [] : [got], want: (mode === 'default_only' || mode === 'both_then_plain') ? 'dv' : 'cv' });
          } catch (e) { prec.push({ header: name, mode, error: String(e && e.message || e) }); }
        }
      }
      // the same precedence when the two levels use DIFFERENT option kinds: a typed option (which writes the declared spelling of
      // its header) at one level and the generic header map at the other, and typed options at both levels
      for (const h of c.helpers) {
        const known = res.find((r) => r.helper === h && r.level === 'client' && r.under && r.under.length === 1);
        if (!known) continue;
        const name = known.under[0];
        for (const mode of ['typed_default_only', 'map_default+typed_call', 'typed_default+map_call', 'typed_default+typed_call', 'typed_default+map_call_then_plain', 'typed_default+typed_call_then_plain', 'map_default+typed_call_then_plain']) {
          let rec = null;
          const fetchFn = async (url, init) => { rec = { headers: hdrObj(init && init.headers) }; return new Response('{}', { status: 200, headers: { 'Content-Type': 'application/json' } }); };
          try {
            const copts = mode.startsWith('map_default') ? { fetch: fetchFn, defaultHeaders: { [name]: 'dv' } } : { fetch: fetchFn, [h]: 'dv' };
            const kopts = mode === 'typed_default_only' ? undefined : (mode.includes('typed_call') ? { [h]: 'cv' } : { headers: { [name]: 'cv' } });
            const cl = new Cls('http://verif.test', copts);
            const mn = findMethod(cl, c.rpc);
            await cl[mn](structuredClone(c.reqObj), kopts);
            if (mode.endsWith('_then_plain')) await cl[mn](structuredClone(c.reqObj), undefined);
            const wire = new Headers(); for (const [k, v] of Object.entries(rec ? rec.headers : {})) wire.append(k, v);
            const got = wire.get(name);
            prec.push({ header: name, mode, got: got == null ? [] : [got], want: (mode === 'typed_default_only' || mode.endsWith('_then_plain')) ? 'dv' : 'cv' });
          } catch (e) { prec.push({ header: name, mode, error: String(e && e.message || e) }); }
        }
      }
      emit({ ...base, helpers: res, precedence: prec });
    } else if (c.op === 'client_record' || c.op === 'client_finish') {
      const m = await load(c.client);
      if (m.error) { emit({ ...base, error: m.error, stage: 'load' }); continue; }
      const Cls = m.mod[c.svc + 'Client'];
      if (typeof Cls !== 'function') { emit({ ...base, error: 'no ' + c.svc + 'Client export', stage: 'load' }); continue; }
      let rec = null;
      const fetchFn = async (url, init) => {
        rec = { method: (init && init.method) || 'GET', url: String(url), headers: hdrObj(init && init.headers), body: init && init.body != null ? String(init.body) : null };
        if (c.op === 'client_finish') {
          const hs = new Headers();
          for (const [k, v] of Object.entries(c.resp.headers || {})) hs.set(k, v);
          const st = c.resp.status;
          const body = (st === 204 || st === 304) ? null : Buffer.from(c.resp.bodyB64 || '', 'base64');
          return new Response(body, { status: st, headers: hs });
        }
        return new Response('{}', { status: 200, headers: { 'Content-Type': 'application/json' } });
      };
      const cl = new Cls('http://verif.test', { fetch: fetchFn, defaultHeaders: c.defaultHeaders || {} });
      const mn = findMethod(cl, c.rpc);
      if (!mn) { emit({ ...base, error: 'client has no method for ' + c.rpc, stage: 'load' }); continue; }
      try {
        const result = await cl[mn](structuredClone(c.reqObj), c.callHeaders ? { headers: c.callHeaders } : undefined);
        // the same call through a client whose base URL carries a path prefix (a gateway mount): the prefix stays in front
        let prefixedURL = null;
        if (c.op === 'client_record') {
          try {
            const cl2 = new Cls('http://verif.test/gw/api/', { fetch: async (url) => { prefixedURL = String(url); return new Response('{}', { status: 200, headers: { 'Content-Type': 'application/json' } }); }, defaultHeaders: c.defaultHeaders || {} });
            await cl2[mn](structuredClone(c.reqObj), c.callHeaders ? { headers: c.callHeaders } : undefined);
          } catch (e) { prefixedURL = 'threw: ' + String(e && e.message || e); }
        }
        emit({ ...base, request: rec, prefixedURL, result: result === undefined ? null : result });
      } catch (e) {
        emit({ ...base, request: rec, thrown: errInfo(e) });
      }
    } else if (c.op === 'server_handle') {
      let input = null, handled = null, ctxInfo = null;
      const r = await makeRoutes(c.server, c.svc, async (name, ctx, req) => {
        handled = name; input = req; ctxInfo = { pathParams: ctx && ctx.pathParams, headers: ctx && ctx.headers };
        if (c.handlerThrowsValidation) { const sm = await load(c.server); throw new sm.mod.ValidationError(structuredClone(c.handlerThrowsValidation)); }
        if (c.handlerThrows) { const e = new Error(c.handlerThrows); throw e; }
        return structuredClone(c.respObj);
      }, c.onError ? { onError: (err, req) => new Response(JSON.stringify({ hooked: String(err && err.message || err) }), { status: c.onError.status, headers: c.onError.headers || {} }) } : undefined);
      if (r.error) { emit({ ...base, error: r.error, stage: 'load' }); continue; }
      const rt = route(r.routes, c.req.method, c.req.url);
      if (!rt) { emit({ ...base, status: 404, noRoute: true, routes: r.routes.map((x) => x.method + ' ' + x.path) }); continue; }
      const init = { method: c.req.method, headers: c.req.headers || {} };
      if (c.req.bodyB64 != null && c.req.method !== 'GET' && c.req.method !== 'HEAD') init.body = Buffer.from(c.req.bodyB64, 'base64');
      let resp;
      try { resp = await rt.handler(new Request(new URL(c.req.url, 'http://verif.test'), init)); }
      catch (e) { emit({ ...base, thrown: errInfo(e), route: rt.method + ' ' + rt.path }); continue; }
      const buf = Buffer.from(await resp.arrayBuffer());
      emit({ ...base, status: resp.status, headers: hdrObj(resp.headers), bodyB64: buf.toString('base64'), handled, input: input === undefined ? null : input, ctx: ctxInfo, route: rt.method + ' ' + rt.path });
    } else if (c.op === 'ts_ts') {
      const m = await load(c.client);
      if (m.error) { emit({ ...base, error: m.error, stage: 'load' }); continue; }
      let input = null, handled = null;
      const r = await makeRoutes(c.server, c.svc, async (name, ctx, req) => { handled = name; input = req; return structuredClone(c.respObj); });
      if (r.error) { emit({ ...base, error: r.error, stage: 'load' }); continue; }
      let noRoute = null;
      const fetchFn = async (url, init) => {
        const rt = route(r.routes, (init && init.method) || 'GET', String(url));
        if (!rt) { noRoute = ((init && init.method) || 'GET') + ' ' + url; return new Response('not found', { status: 404 }); }
        return rt.handler(new Request(String(url), init));
      };
      const Cls = m.mod[c.svc + 'Client'];
      const cl = new Cls('http://verif.test', { fetch: fetchFn, defaultHeaders: c.defaultHeaders || {} });
      const mn = findMethod(cl, c.rpc);
      try {
        const result = await cl[mn](structuredClone(c.reqObj), c.callHeaders ? { headers: c.callHeaders } : undefined);
        emit({ ...base, result: result === undefined ? null : result, handled, input: input === undefined ? null : input, noRoute });
      } catch (e) { emit({ ...base, thrown: errInfo(e), handled, input, noRoute }); }
    } else {
      emit({ ...base, error: 'unknown op' });
    }
  } catch (e) {
    emit({ ...base, error: 'bridge: ' + String(e && e.stack || e) });
  }
}
writeFileSync(outFile, out.join('\n') + '\n');
