// usage: node load.mjs <root>  — imports every .ts module under root in isolation, prints one JSON line per module
import { readdirSync, statSync } from 'node:fs';
import { join } from 'node:path';
import { pathToFileURL } from 'node:url';
function walk(d, out) {
  for (const e of readdirSync(d).sort()) {
    const p = join(d, e);
    if (statSync(p).isDirectory()) walk(p, out); else if (p.endsWith('.ts')) out.push(p);
  }
  return out;
}
const root = process.argv[2];
for (const f of walk(root, [])) {
  try {
    const m = await import(pathToFileURL(f).href);
    console.log(JSON.stringify({ file: f.slice(root.length + 1), ok: true, exports: Object.keys(m).sort() }));
  } catch (e) {
    console.log(JSON.stringify({ file: f.slice(root.length + 1), ok: false, error: String(e && e.message || e).slice(0, 500), name: e && e.name }));
  }
}
