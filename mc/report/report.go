// Package report collects what a check run covered, matches violations against the committed
// known-findings file, writes replay files and the evidence file, and prints the verdict lines.
package report

import (
	"crypto/sha256"
	"encoding/hex"
	"encoding/json"
	"fmt"
	"os"
	"path/filepath"
	"regexp"
	"sort"
	"strings"
	"sync"
	"time"
)

func VerifDir() string {
	if d := os.Getenv("VERIF_DIR"); d != "" {
		return d
	}
	return "/verif"
}

// OutDir is where evidence and replay files go: /verif, unless VERIF_OUT names another directory (used when a
// seeded change is evaluated against a scratch tree, so that the committed evidence of /repo is not overwritten).
func OutDir() string {
	if d := os.Getenv("VERIF_OUT"); d != "" {
		return d
	}
	return VerifDir()
}

type Violation struct {
	Property string `json:"property"`
	Cell     string `json:"cell"`
	Symptom  string `json:"symptom"`
	Detail   string `json:"detail,omitempty"`
	Replay   any    `json:"replay,omitempty"`
	file     string
}

type Finding struct {
	ID            string              `json:"id"`
	Property      string              `json:"property"`
	Status        string              `json:"status"` // open | fixed
	Symptom       string              `json:"symptom"`
	Where         map[string][]string `json:"where"`
	Detail        string              `json:"detail,omitempty"` // optional pattern (glob or re:) the violation's detail must match
	CallSite      string              `json:"call_site,omitempty"`
	Explanation   string              `json:"explanation"`
	Commit        string              `json:"commit,omitempty"`
	Blocks        bool                `json:"blocks,omitempty"`
	CellsAtCommit int                 `json:"cells_at_commit,omitempty"`
}

type Run struct {
	mu       sync.Mutex
	Property string
	Tier     string
	Level    string
	Rule     string
	start    time.Time

	Evaluations int
	Programs    int
	States      int
	Transitions int
	Traces      int
	Exhaustive  bool
	CapNote     string

	cases       map[string]bool // distinct (cell|outcome) that are nontrivial
	outcomes    map[string]int
	Samples     []any
	Extra       map[string]any
	Assumptions []string
	Violations  []*Violation
	seenViol    map[string]bool
}

func New(property, tier string) *Run {
	return &Run{Property: property, Tier: tier, Level: "model_checking", start: time.Now(), Exhaustive: true,
		cases: map[string]bool{}, outcomes: map[string]int{}, Extra: map[string]any{}, seenViol: map[string]bool{}}
}

// Case records one evaluated case.
func (r *Run) Case(cell, outcome string, nontrivial bool) {
	r.mu.Lock()
	defer r.mu.Unlock()
	r.Evaluations++
	r.outcomes[outcome]++
	if nontrivial {
		r.cases[cell+"|"+outcome] = true
	}
}

// CaseN records n evaluated cases of one class.
func (r *Run) CaseN(cell, outcome string, nontrivial bool, n int) {
	r.mu.Lock()
	defer r.mu.Unlock()
	r.Evaluations += n
	r.outcomes[outcome] += n
	if nontrivial {
		r.cases[cell+"|"+outcome] = true
	}
}

func (r *Run) Sample(s any) {
	r.mu.Lock()
	defer r.mu.Unlock()
	if len(r.Samples) < 12 {
		r.Samples = append(r.Samples, s)
	}
}

// Violate records a violation (deduplicated per cell+symptom).
func (r *Run) Violate(cell, symptom, detail string, replay any) {
	r.mu.Lock()
	defer r.mu.Unlock()
	k := cell + "|" + symptom
	if r.seenViol[k] {
		return
	}
	r.seenViol[k] = true
	if len(detail) > 2000 {
		detail = detail[:2000] + "…"
	}
	r.Violations = append(r.Violations, &Violation{Property: r.Property, Cell: cell, Symptom: symptom, Detail: detail, Replay: replay})
}

// ParseCell splits "family/a=b,c=d#case" into features (family under "family", case under "case").
func ParseCell(cell string) map[string]string {
	m := map[string]string{}
	if i := strings.Index(cell, "#"); i >= 0 {
		m["case"] = cell[i+1:]
		cell = cell[:i]
	}
	parts := strings.SplitN(cell, "/", 2)
	m["family"] = parts[0]
	if len(parts) == 2 {
		for _, kv := range strings.Split(parts[1], ",") {
			if j := strings.Index(kv, "="); j >= 0 {
				m[kv[:j]] = kv[j+1:]
			} else if kv != "" {
				m[kv] = "true"
			}
		}
	}
	return m
}

func globMatch(pat, s string) bool {
	if pat == s {
		return true
	}
	if strings.HasPrefix(pat, "re:") {
		re, err := regexp.Compile(pat[3:])
		return err == nil && re.MatchString(s)
	}
	if strings.HasSuffix(pat, "*") && strings.HasPrefix(s, strings.TrimSuffix(pat, "*")) {
		return true
	}
	if strings.HasPrefix(pat, "*") && strings.HasSuffix(s, strings.TrimPrefix(pat, "*")) {
		return true
	}
	return false
}

func (f *Finding) Matches(v *Violation) bool {
	if f.Property != v.Property || !globMatch(f.Symptom, v.Symptom) {
		return false
	}
	if f.Detail != "" && !globMatch(f.Detail, v.Detail) {
		return false
	}
	feats := ParseCell(v.Cell)
	for k, allowed := range f.Where {
		val, ok := feats[k]
		if !ok {
			val = ""
		}
		hit := false
		for _, a := range allowed {
			if globMatch(a, val) {
				hit = true
			}
		}
		if !hit {
			return false
		}
	}
	return true
}

// BlockedByKnown reports whether a unit cell that does not build is covered by an open C13 finding
// marked blocks:true (then runtime properties do not re-report it as unit_does_not_build).
func BlockedByKnown(cell string) bool {
	fs, err := LoadFindings()
	if err != nil {
		return false
	}
	for _, f := range fs {
		if (f.Property == "C13" || f.Property == "C12") && f.Status == "open" && f.Blocks {
			v := &Violation{Property: f.Property, Cell: cell, Symptom: f.Symptom}
			g := *f
			g.Symptom = v.Symptom
			g.Detail = ""
			if g.Matches(v) {
				return true
			}
		}
	}
	return false
}

func LoadFindings() ([]*Finding, error) {
	b, err := os.ReadFile(filepath.Join(VerifDir(), "known_findings.json"))
	if err != nil {
		if os.IsNotExist(err) {
			return nil, nil
		}
		return nil, err
	}
	var doc struct {
		Findings []*Finding `json:"findings"`
	}
	if err := json.Unmarshal(b, &doc); err != nil {
		return nil, fmt.Errorf("known_findings.json: %w", err)
	}
	return doc.Findings, nil
}

// Finish writes evidence + replays, prints verdict lines and returns the exit code.
func (r *Run) Finish() int {
	findings, err := LoadFindings()
	if err != nil {
		fmt.Fprintln(os.Stderr, "check error:", err)
		return 2
	}
	fired := map[string]int{}
	firedCells := map[string][]string{}
	var unknown []*Violation
	sort.Slice(r.Violations, func(i, j int) bool {
		if r.Violations[i].Cell != r.Violations[j].Cell {
			return r.Violations[i].Cell < r.Violations[j].Cell
		}
		return r.Violations[i].Symptom < r.Violations[j].Symptom
	})
	for _, v := range r.Violations {
		matched := false
		for _, f := range findings {
			if f.Status == "open" && f.Matches(v) {
				fired[f.ID]++
				if dump := os.Getenv("VERIF_DUMP_KNOWN"); dump != "" { // triage aid: every absorbed violation, one per line
					if fh, err := os.OpenFile(dump, os.O_APPEND|os.O_CREATE|os.O_WRONLY, 0o644); err == nil {
						fmt.Fprintf(fh, "%s\t%s\t%s\t%s\n", f.ID, v.Cell, v.Symptom, oneLine(v.Detail))
						fh.Close()
					}
				}
				if len(firedCells[f.ID]) < 5 {
					firedCells[f.ID] = append(firedCells[f.ID], v.Cell+" :: "+v.Symptom)
				}
				matched = true
				break
			}
		}
		if !matched {
			unknown = append(unknown, v)
		}
	}
	// replay files for unknown violations
	rdir := filepath.Join(OutDir(), "replays", r.Property)
	for _, v := range unknown {
		h := sha256.Sum256([]byte(v.Cell + "|" + v.Symptom))
		os.MkdirAll(rdir, 0o755)
		v.file = filepath.Join(rdir, hex.EncodeToString(h[:6])+".json")
		b, _ := json.MarshalIndent(v, "", " ")
		os.WriteFile(v.file, b, 0o644)
	}
	os.Remove(filepath.Join(rdir, "_all.json"))
	if len(unknown) > 0 {
		os.MkdirAll(rdir, 0o755)
		ab, _ := json.MarshalIndent(unknown, "", " ")
		os.WriteFile(filepath.Join(rdir, "_all.json"), ab, 0o644)
	}
	wall := time.Since(r.start).Seconds()
	cov := map[string]any{
		"evaluations":          r.Evaluations,
		"distinct_nontrivial":  len(r.cases),
		"rule":                 r.Rule,
		"samples":              r.Samples,
		"programs":             r.Programs,
		"exhaustive":           r.Exhaustive,
		"outcome_classes":      r.outcomes,
		"known_findings_fired": fired,
		"known_findings_cells": firedCells,
	}
	if r.States > 0 {
		cov["states"] = r.States
		cov["transitions"] = r.Transitions
		cov["traces_validated_against_impl"] = r.Traces
	}
	if r.CapNote != "" {
		cov["cap"] = r.CapNote
	}
	for k, v := range r.Extra {
		cov[k] = v
	}
	if len(r.Samples) == 0 {
		cov["samples"] = []any{"(no case executed)"}
	}
	var vsum []map[string]string
	for i, v := range unknown {
		if i >= 50 {
			break
		}
		vsum = append(vsum, map[string]string{"cell": v.Cell, "symptom": v.Symptom, "detail": v.Detail, "replay": v.file})
	}
	if len(vsum) > 0 {
		cov["violations_detail"] = vsum
	}
	ev := map[string]any{
		"property_id": r.Property, "tier": r.Tier, "seed": seed(), "level": r.Level,
		"coverage": cov, "assumptions": r.Assumptions, "wall_s": wall, "violations": len(unknown),
	}
	if ev["assumptions"] == nil || len(r.Assumptions) == 0 {
		ev["assumptions"] = []string{}
	}
	edir := filepath.Join(OutDir(), "evidence")
	os.MkdirAll(edir, 0o755)
	b, _ := json.MarshalIndent(ev, "", " ")
	if err := os.WriteFile(filepath.Join(edir, r.Property+".json"), append(b, '\n'), 0o644); err != nil {
		fmt.Fprintln(os.Stderr, "check error: cannot write evidence:", err)
		return 2
	}
	ids := make([]string, 0, len(fired))
	for id := range fired {
		ids = append(ids, id)
	}
	sort.Strings(ids)
	for _, id := range ids {
		for _, f := range findings {
			if f.ID == id {
				fmt.Printf("KNOWN-FINDING: property=%s %s: %s (cells matched: %d)\n", r.Property, f.ID, f.Explanation, fired[id])
				if f.CellsAtCommit > 0 && fired[id] > f.CellsAtCommit {
					fmt.Printf("WARNING: known finding %s matched %d cells, %d at commit time\n", f.ID, fired[id], f.CellsAtCommit)
				}
			}
		}
	}
	fmt.Printf("SUMMARY property=%s tier=%s evaluations=%d distinct_nontrivial=%d programs=%d exhaustive=%v violations=%d known=%d wall=%.1fs\n",
		r.Property, r.Tier, r.Evaluations, len(r.cases), r.Programs, r.Exhaustive, len(unknown), len(r.Violations)-len(unknown), wall)
	if len(unknown) > 0 {
		for i, v := range unknown {
			if i < 5 {
				fmt.Printf("  violation cell=%s symptom=%s detail=%s\n", v.Cell, v.Symptom, oneLine(v.Detail))
			}
		}
		for i, v := range unknown {
			if i < 10 {
				fmt.Printf("VIOLATION property=%s replay=%s\n", r.Property, v.file)
			}
		}
		return 1
	}
	return 0
}

func oneLine(s string) string {
	s = strings.ReplaceAll(s, "\n", " ⏎ ")
	if len(s) > 200 {
		s = s[:200] + "…"
	}
	return s
}

func seed() int {
	var n int
	fmt.Sscanf(os.Getenv("VERIF_SEED"), "%d", &n)
	return n
}
