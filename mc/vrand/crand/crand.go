// Package crand replaces crypto/rand inside the executed copy of emitted mock servers with fixed bytes.
package crand

func Read(b []byte) (int, error) {
	for i := range b {
		b[i] = byte(0x10 + i)
	}
	return len(b), nil
}
