// Package vrand replaces math/rand inside the executed copy of emitted mock servers: every Intn is a
// choice point owned by the explorer, which enumerates all alternatives instead of sampling.
package vrand

import "sync"

var (
	mu     sync.Mutex
	script []int // choices to replay
	pos    int
	trace  []int // arity observed at each choice point
)

// Begin starts an execution that replays the given choices (missing ones default to 0).
func Begin(choices []int) {
	mu.Lock()
	script, pos, trace = choices, 0, nil
	mu.Unlock()
}

// Trace returns the arity of every choice point met since Begin.
func Trace() []int {
	mu.Lock()
	defer mu.Unlock()
	return append([]int(nil), trace...)
}

func Intn(n int) int {
	mu.Lock()
	defer mu.Unlock()
	c := 0
	if pos < len(script) {
		c = script[pos]
	}
	pos++
	trace = append(trace, n)
	if n <= 0 {
		panic("vrand.Intn: n <= 0")
	}
	if c >= n {
		c = n - 1
	}
	return c
}

func Seed(int64)       {}
func Int() int         { return Intn(1 << 30) }
func Int63() int64     { return int64(Intn(1 << 30)) }
func Float64() float64 { return float64(Intn(2)) / 2 }
func Perm(n int) []int {
	p := make([]int, n)
	for i := range p {
		p[i] = i
	}
	return p
}
func Int31n(n int32) int32        { return int32(Intn(int(n))) }
func Int63n(n int64) int64        { return int64(Intn(int(n))) }
func Shuffle(int, func(int, int)) {}
