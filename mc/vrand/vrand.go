// Package vrand replaces math/rand inside the executed copy of emitted mock servers: every Intn is a
// choice point owned by the explorer, which enumerates all alternatives instead of sampling.
package vrand

import (
	"sync"

	"verif/mc/explore/vsched"
)

var (
	mu     sync.Mutex
	script []int // choices to replay
	pos    int
	trace  []int // arity observed at each choice point
)

// Begin starts an execution that replays the given choices (missing ones default to 0).
func Begin(choices []int) {
	mu.Lock()
	script, pos, trace = choices, 0, nil
	mu.Unlock()
}

// Trace returns the arity of every choice point met since Begin.
func Trace() []int {
	mu.Lock()
	defer mu.Unlock()
	return append([]int(nil), trace...)
}

func Intn(n int) int {
	mu.Lock()
	defer mu.Unlock()
	c := 0
	if pos < len(script) {
		c = script[pos]
	}
	pos++
	trace = append(trace, n)
	if n <= 0 {
		panic("vrand.Intn: n <= 0")
	}
	if c >= n {
		c = n - 1
	}
	return c
}

func Seed(int64)       {}
func Int() int         { return Intn(1 << 30) }
func Int63() int64     { return int64(Intn(1 << 30)) }
func Float64() float64 { return float64(Intn(2)) / 2 }
func Perm(n int) []int {
	p := make([]int, n)
	for i := range p {
		p[i] = i
	}
	return p
}
func Int31n(n int32) int32        { return int32(Intn(int(n))) }
func Int63n(n int64) int64        { return int64(Intn(int(n))) }
func Shuffle(int, func(int, int)) {}

// ---- generator objects ----------------------------------------------------------------------------------------------
// rand.New(rand.NewSource(..)) gives a generator that, unlike the package-level functions, is NOT safe for concurrent use.
// The shim keeps that contract visible to the controlled scheduler: every method of a *Rand is a WRITE access to the
// generator object, so two threads that reach the same generator without synchronisation are reported as a data race.
// The values still come from the explorer's script.

type Source interface{ Int63() int64 }

type scriptedSource struct{}

func (scriptedSource) Int63() int64 { return Int63() }

func NewSource(int64) Source { return scriptedSource{} }

type Rand struct{ _ int }

func New(Source) *Rand { return &Rand{} }

func (r *Rand) touch() { vsched.AccessAt("lib.math/rand.Rand", r, true) }

func (r *Rand) Intn(n int) int       { r.touch(); return Intn(n) }
func (r *Rand) Int() int             { r.touch(); return Int() }
func (r *Rand) Int63() int64         { r.touch(); return Int63() }
func (r *Rand) Float64() float64     { r.touch(); return Float64() }
func (r *Rand) Perm(n int) []int     { r.touch(); return Perm(n) }
func (r *Rand) Int31n(n int32) int32 { r.touch(); return Int31n(n) }
func (r *Rand) Int63n(n int64) int64 { r.touch(); return Int63n(n) }
func (r *Rand) Seed(int64)           { r.touch() }
func (r *Rand) Shuffle(n int, swap func(int, int)) {
	r.touch()
}
