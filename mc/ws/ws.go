// Package ws builds scratch Go workspaces out of plugin output: protoc-gen-go output, the output of the
// requested sebuf plugins, and a glue file per unit that adapts the generated API to package rt.
package ws

import (
	"bytes"
	"crypto/sha256"
	"encoding/hex"
	"encoding/json"
	"fmt"
	"go/ast"
	"go/parser"
	"go/token"
	"io/fs"
	"os"
	"os/exec"
	"path/filepath"
	"regexp"
	"sort"
	"strings"
	"sync"

	"google.golang.org/protobuf/proto"

	"verif/mc/plug"
	"verif/mc/report"
	"verif/mc/spec"
)

// Variant selects which sebuf Go plugins write into the unit package.
type Variant string

const (
	H  Variant = "H"  // go-http only
	C  Variant = "C"  // go-client only
	HC Variant = "HC" // go-http then go-client
	CH Variant = "CH" // go-client then go-http
)

type Diag struct {
	File string `json:"file"`
	Line int    `json:"line"`
	Msg  string `json:"msg"`
	Decl string `json:"decl"`
	Tool string `json:"tool"` // compile | vet
}

type Unit struct {
	Spec     *spec.Spec    `json:"-"`
	Low      *spec.Lowered `json:"-"`
	Variant  Variant
	Name     string // package dir name under u/
	Mock     bool
	GenErr   map[string]string // plugin -> error text (plugin refused or failed)
	GenFiles map[string]string // relative path -> content, sebuf output only
	TSFiles  map[string]string
	OASFiles map[string]string
	Diags    []Diag
	Glue     bool
	Locs     []string // instrumented shared locations (Options.Instrument)
}

// Healthy: generated without plugin errors and compiled + vetted cleanly.
func (u *Unit) Healthy() bool { return len(u.GenErr) == 0 && len(u.Diags) == 0 }

type Options struct {
	Variant Variant
	Mock    bool
	TS      bool
	OAS     bool
	OASJSON bool
	NoBuild bool
	Harness bool // link the harness binary out of the healthy units
	// MockShim redirects math/rand and crypto/rand in the emitted *_http_mock.pb.go to verif/mc/vrand so that
	// the explorer owns the mock's random choices (the unmodified file is what C13/C20 compile).
	MockShim bool
	// Instrument rewrites the emitted files for the controlled scheduler (C17).
	Instrument bool
	// Race links the harness with the Go race detector (supplementary free-running pass of C17).
	Race bool
	Tag     string
}

type Workspace struct {
	Dir     string
	Units   []*Unit
	Harness string
	Bins    *plug.Bins
}

func (w *Workspace) Unit(name string) *Unit {
	for _, u := range w.Units {
		if u.Name == name {
			return u
		}
	}
	return nil
}

func mcDir() string { return filepath.Join(report.VerifDir(), "mc") }

var mcHashOnce sync.Once
var mcHashVal string

func mcHash() string {
	mcHashOnce.Do(func() {
		h := sha256.New()
		var files []string
		for _, d := range []string{"rt", "model", "ws", "stubs", "explore", "vrand"} {
			filepath.WalkDir(filepath.Join(mcDir(), d), func(p string, e fs.DirEntry, err error) error {
				if err == nil && !e.IsDir() && (strings.HasSuffix(p, ".go") || strings.HasSuffix(p, ".mod")) {
					files = append(files, p)
				}
				return nil
			})
		}
		sort.Strings(files)
		for _, f := range files {
			b, _ := os.ReadFile(f)
			h.Write([]byte(f))
			h.Write(b)
		}
		mcHashVal = hex.EncodeToString(h.Sum(nil))[:12]
	})
	return mcHashVal
}

// Build generates, compiles and (optionally) links. It is cached by (tree hash, specs, options, mc sources).
func Build(bins *plug.Bins, specs []*spec.Spec, o Options) (*Workspace, error) {
	sj, _ := json.Marshal(specs)
	oj, _ := json.Marshal(o)
	h := sha256.Sum256(append(append(sj, oj...), []byte(mcHash())...))
	key := hex.EncodeToString(h[:8])
	dir := filepath.Join(plug.Home(), "cache", bins.TreeHash, "ws-"+o.Tag+"-"+key)
	unlock, err := plug.Lock(dir + ".lock")
	if err != nil {
		return nil, err
	}
	defer unlock()
	w := &Workspace{Dir: dir, Bins: bins}
	meta := filepath.Join(dir, "units.json")
	if b, err := os.ReadFile(meta); err == nil {
		var saved []*Unit
		if json.Unmarshal(b, &saved) == nil && len(saved) == len(specs) {
			for i, u := range saved {
				u.Spec = specs[i]
				l, err := spec.Lower(specs[i])
				if err != nil {
					return nil, err
				}
				u.Low = l
			}
			w.Units = saved
			if o.Harness {
				w.Harness = filepath.Join(dir, "harness")
			}
			return w, nil
		}
	}
	os.RemoveAll(dir)
	if err := os.MkdirAll(filepath.Join(dir, "mod"), 0o755); err != nil {
		return nil, err
	}
	gengo, err := plug.GenGo(mcDir())
	if err != nil {
		return nil, err
	}
	names := map[string]bool{}
	for _, s := range specs {
		l, err := spec.Lower(s)
		if err != nil {
			return nil, fmt.Errorf("harness error: %w", err)
		}
		n := strings.ReplaceAll(s.Name, "-", "_")
		if names[n] {
			return nil, fmt.Errorf("harness error: duplicate unit name %s", n)
		}
		names[n] = true
		w.Units = append(w.Units, &Unit{Spec: s, Low: l, Variant: o.Variant, Name: n, Mock: o.Mock,
			GenErr: map[string]string{}, GenFiles: map[string]string{}, TSFiles: map[string]string{}, OASFiles: map[string]string{}})
	}
	var genErrMu sync.Mutex
	var firstErr error
	par(len(w.Units), func(i int) {
		if err := w.generate(w.Units[i], gengo, o); err != nil {
			genErrMu.Lock()
			if firstErr == nil {
				firstErr = err
			}
			genErrMu.Unlock()
		}
	})
	if firstErr != nil {
		return nil, firstErr
	}
	if err := w.writeMod(); err != nil {
		return nil, err
	}
	if !o.NoBuild {
		if err := w.compile(); err != nil {
			return nil, err
		}
		if o.Harness {
			if err := w.link(o.Race); err != nil {
				return nil, err
			}
		}
	}
	b, _ := json.Marshal(w.Units)
	if err := os.WriteFile(meta, b, 0o644); err != nil {
		return nil, err
	}
	return w, nil
}

func par(n int, fn func(i int)) {
	var wg sync.WaitGroup
	sem := make(chan struct{}, 16)
	for i := 0; i < n; i++ {
		wg.Add(1)
		sem <- struct{}{}
		go func(i int) {
			defer wg.Done()
			defer func() { <-sem }()
			fn(i)
		}(i)
	}
	wg.Wait()
}

func (w *Workspace) modDir() string { return filepath.Join(w.Dir, "mod") }

func (w *Workspace) writeOut(files map[string]string) error {
	for name, content := range files {
		rel := strings.TrimPrefix(name, "verifws/")
		p := filepath.Join(w.modDir(), rel)
		if err := os.MkdirAll(filepath.Dir(p), 0o755); err != nil {
			return err
		}
		if err := os.WriteFile(p, []byte(content), 0o644); err != nil {
			return err
		}
	}
	return nil
}

// runSebuf runs one sebuf plugin over the unit: once, or once per proto package (spec.PerPackage), merging the files.
// It returns the files, or the first failure text.
func (w *Workspace) runSebuf(u *Unit, p, param string) (map[string]string, string) {
	files := map[string]string{}
	for _, gen := range u.Low.Spec.Invocations() {
		r := plug.Run(w.Bins.Path(p), u.Low.Request(param, gen))
		if !r.Answered() {
			return nil, "plugin did not answer: " + r.Symptom() + " " + short(r.Stderr, 300)
		}
		if r.Err() != "" {
			return nil, r.Err()
		}
		for n, c := range r.Files() {
			files[n] = c
		}
	}
	return files, ""
}

func (w *Workspace) generate(u *Unit, gengo string, o Options) error {
	req := u.Low.Request("", nil)
	res := plug.RunRaw(gengo, mustMarshal(req))
	if !res.Answered() || res.Err() != "" {
		return fmt.Errorf("harness error: protoc-gen-go failed on %s: %s %s", u.Name, res.Err(), res.Stderr)
	}
	if err := w.writeOut(res.Files()); err != nil {
		return err
	}
	var order []string
	switch o.Variant {
	case H:
		order = []string{"protoc-gen-go-http"}
	case C:
		order = []string{"protoc-gen-go-client"}
	case HC:
		order = []string{"protoc-gen-go-http", "protoc-gen-go-client"}
	case CH:
		order = []string{"protoc-gen-go-client", "protoc-gen-go-http"}
	}
	for _, p := range order {
		param := ""
		if p == "protoc-gen-go-http" && o.Mock {
			param = "generate_mock=true"
		}
		files, ferr := w.runSebuf(u, p, param)
		if ferr != "" {
			u.GenErr[p] = ferr
			continue
		}
		if o.MockShim {
			for n, c := range files {
				if strings.HasSuffix(n, "_http_mock.pb.go") {
					c = strings.Replace(c, `"math/rand"`, `rand "verif/mc/vrand"`, 1)
					c = strings.Replace(c, `cryptorand "crypto/rand"`, `cryptorand "verif/mc/vrand/crand"`, 1)
					files[n] = c
				}
			}
		}
		for n, c := range files {
			u.GenFiles[strings.TrimPrefix(n, "verifws/")] = c
		}
		if err := w.writeOut(files); err != nil {
			return err
		}
	}
	if o.TS {
		for _, p := range []string{"protoc-gen-ts-client", "protoc-gen-ts-server"} {
			files, ferr := w.runSebuf(u, p, "")
			if ferr != "" {
				u.GenErr[p] = ferr
				continue
			}
			for n, c := range files {
				u.TSFiles[n] = c
				pth := filepath.Join(w.Dir, "ts", u.Name, n)
				os.MkdirAll(filepath.Dir(pth), 0o755)
				os.WriteFile(pth, []byte(c), 0o644)
			}
		}
	}
	if o.OAS {
		params := []string{""}
		if o.OASJSON {
			params = append(params, "format=json")
		}
		for _, param := range params {
			files, ferr := w.runSebuf(u, "protoc-gen-openapiv3", param)
			if ferr != "" {
				u.GenErr["protoc-gen-openapiv3"] = ferr
				continue
			}
			for n, c := range files {
				u.OASFiles[n] = c
				pth := filepath.Join(w.Dir, "oas", u.Name, n)
				os.MkdirAll(filepath.Dir(pth), 0o755)
				os.WriteFile(pth, []byte(c), 0o644)
			}
		}
	}
	if len(u.GenErr) == 0 && (o.Variant != "") {
		glue, err := Glue(u)
		if err != nil {
			return fmt.Errorf("harness error: glue for %s: %w", u.Name, err)
		}
		if err := w.writeOut(glue); err != nil {
			return err
		}
		u.Glue = len(glue) > 0
	}
	if o.Instrument && len(u.GenErr) == 0 {
		seen := map[string]bool{}
		for name := range u.GenFiles {
			d := filepath.Join(w.modDir(), filepath.Dir(name))
			if seen[d] {
				continue
			}
			seen[d] = true
			locs, err := Instrument(d)
			if err != nil {
				return fmt.Errorf("harness error: instrumenting %s: %w", u.Name, err)
			}
			u.Locs = append(u.Locs, locs...)
		}
	}
	return nil
}

func short(s string, n int) string {
	if len(s) > n {
		return s[:n] + "…"
	}
	return s
}

func (w *Workspace) writeMod() error {
	repo := plug.Repo()
	mod := fmt.Sprintf(`module verifws

go 1.24.7

require (
	buf.build/gen/go/bufbuild/protovalidate/protocolbuffers/go v1.36.11-20260209202127-80ab13bee0bf.1
	buf.build/go/protovalidate v0.0.0
	github.com/SebastienMelki/sebuf v0.0.0
	google.golang.org/protobuf v1.36.11
	verif/mc v0.0.0
)

replace github.com/SebastienMelki/sebuf => %s

replace buf.build/go/protovalidate => %s

replace verif/mc => %s
`, repo, filepath.Join(mcDir(), "stubs", "protovalidate"), mcDir())
	if err := os.WriteFile(filepath.Join(w.modDir(), "go.mod"), []byte(mod), 0o644); err != nil {
		return err
	}
	sum, err := os.ReadFile(filepath.Join(mcDir(), "go.sum"))
	if err != nil {
		return err
	}
	return os.WriteFile(filepath.Join(w.modDir(), "go.sum"), sum, 0o644)
}

var diagRe = regexp.MustCompile(`^(?:vet: )?(\.?/?[^\s:]+\.go):(\d+):(?:(\d+):)? (.*)$`)

// VetFlags is the analyzer subset that `go test` runs.
var VetFlags = []string{"-atomic", "-bool", "-buildtags", "-directive", "-errorsas", "-ifaceassert", "-nilfunc", "-printf", "-stringintconv", "-tests"}

func (w *Workspace) goCmd(args ...string) ([]byte, error) {
	cmd := exec.Command("go", args...)
	cmd.Dir = w.modDir()
	cmd.Env = append(os.Environ(), "GOFLAGS=-mod=mod", "GOPROXY=off", "GOTOOLCHAIN=local")
	return cmd.CombinedOutput()
}

func (w *Workspace) compile() error {
	var pkgs []string
	for _, u := range w.Units {
		if len(u.GenErr) == 0 {
			pkgs = append(pkgs, "./u/"+u.Name+"/...")
		}
	}
	if len(pkgs) == 0 {
		return nil
	}
	out, _ := w.goCmd(append([]string{"build", "-gcflags=-e"}, pkgs...)...)
	if err := w.attribute(out, "compile"); err != nil {
		return err
	}
	// vet only what compiles
	var vpkgs []string
	for _, u := range w.Units {
		if len(u.GenErr) == 0 && len(u.Diags) == 0 {
			vpkgs = append(vpkgs, "./u/"+u.Name+"/...")
		}
	}
	if len(vpkgs) > 0 {
		out, _ = w.goCmd(append(append([]string{"vet"}, VetFlags...), vpkgs...)...)
		if err := w.attribute(out, "vet"); err != nil {
			return err
		}
	}
	return nil
}

func (w *Workspace) attribute(out []byte, tool string) error {
	var last *Diag
	for _, raw := range strings.Split(string(out), "\n") {
		line := strings.TrimSpace(raw)
		if line == "" || strings.HasPrefix(line, "#") {
			continue
		}
		m := diagRe.FindStringSubmatch(line)
		if m == nil && strings.HasPrefix(raw, "\t") && last != nil {
			// the compiler continues a diagnostic on indented lines
			last.Msg += " " + line
			continue
		}
		if m == nil {
			if strings.Contains(line, "too many errors") {
				continue
			}
			return fmt.Errorf("harness error: unparsed %s output line: %q\nfull output:\n%s", tool, line, short(string(out), 3000))
		}
		file := strings.TrimPrefix(m[1], "./")
		parts := strings.Split(file, "/")
		if len(parts) < 3 || parts[0] != "u" {
			return fmt.Errorf("harness error: diagnostic outside units: %q", line)
		}
		u := w.Unit(parts[1])
		if u == nil {
			return fmt.Errorf("harness error: diagnostic for unknown unit: %q", line)
		}
		var ln int
		fmt.Sscanf(m[2], "%d", &ln)
		base := parts[len(parts)-1]
		if strings.HasPrefix(base, "zz_verif_") && !strings.HasPrefix(base, "zz_verif_mock") {
			// a compile error inside our own glue is usually a consequence of an emitted API problem,
			// keep it but mark it
			u.Diags = append(u.Diags, Diag{File: file, Line: ln, Msg: m[4], Decl: "glue", Tool: tool})
			last = &u.Diags[len(u.Diags)-1]
			continue
		}
		u.Diags = append(u.Diags, Diag{File: file, Line: ln, Msg: m[4], Decl: declAt(filepath.Join(w.modDir(), file), ln), Tool: tool})
		last = &u.Diags[len(u.Diags)-1]
	}
	return nil
}

// declAt names the top-level declaration enclosing the line.
func declAt(path string, line int) string {
	fset := token.NewFileSet()
	f, err := parser.ParseFile(fset, path, nil, parser.SkipObjectResolution)
	if f == nil {
		_ = err
		return "?"
	}
	for _, d := range f.Decls {
		s, e := fset.Position(d.Pos()).Line, fset.Position(d.End()).Line
		if line < s || line > e {
			continue
		}
		switch x := d.(type) {
		case *ast.FuncDecl:
			name := x.Name.Name
			if x.Recv != nil && len(x.Recv.List) > 0 {
				var b bytes.Buffer
				t := x.Recv.List[0].Type
				if st, ok := t.(*ast.StarExpr); ok {
					t = st.X
				}
				if id, ok := t.(*ast.Ident); ok {
					b.WriteString(id.Name)
				}
				return b.String() + "." + name
			}
			return name
		case *ast.GenDecl:
			for _, sp := range x.Specs {
				switch y := sp.(type) {
				case *ast.ValueSpec:
					if len(y.Names) > 0 {
						return "var " + y.Names[0].Name
					}
				case *ast.TypeSpec:
					return "type " + y.Name.Name
				case *ast.ImportSpec:
					return "import"
				}
			}
		}
	}
	return "?"
}

// link builds the harness binary importing every healthy unit that has glue.
func (w *Workspace) link(race bool) error {
	var b strings.Builder
	b.WriteString("package main\n\nimport (\n\t\"verif/mc/rt\"\n")
	for _, u := range w.Units {
		if u.Healthy() && u.Glue {
			for _, p := range gluePkgs(u) {
				fmt.Fprintf(&b, "\t_ %q\n", p)
			}
		}
	}
	b.WriteString(")\n\nfunc main() { rt.Main() }\n")
	dir := filepath.Join(w.modDir(), "cmd", "harness")
	os.MkdirAll(dir, 0o755)
	if err := os.WriteFile(filepath.Join(dir, "main.go"), []byte(b.String()), 0o644); err != nil {
		return err
	}
	w.Harness = filepath.Join(w.Dir, "harness")
	args := []string{"build"}
	if race {
		args = append(args, "-race")
	}
	out, err := w.goCmd(append(args, "-o", w.Harness, "./cmd/harness")...)
	if err != nil {
		return fmt.Errorf("harness error: linking harness: %v\n%s", err, short(string(out), 4000))
	}
	return nil
}

func gluePkgs(u *Unit) []string {
	seen := map[string]bool{}
	var out []string
	for _, f := range u.Spec.Files {
		if len(f.Services) == 0 {
			continue
		}
		gp := f.GoPackage
		if gp == "" {
			gp = spec.DefaultGoPkg(u.Spec)
		}
		if i := strings.Index(gp, ";"); i >= 0 {
			gp = gp[:i]
		}
		if !seen[gp] {
			seen[gp] = true
			out = append(out, gp)
		}
	}
	return out
}

func mustMarshal(m proto.Message) []byte {
	b, err := proto.Marshal(m)
	if err != nil {
		panic(err)
	}
	return b
}
