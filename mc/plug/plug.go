// Package plug builds the five sebuf plugins from the repository's current working tree and
// runs them fault-contained (subprocess, timeout, address-space limit).
package plug

import (
	"bytes"
	"crypto/sha256"
	"encoding/hex"
	"errors"
	"fmt"
	"io"
	"io/fs"
	"os"
	"os/exec"
	"path/filepath"
	"sort"
	"strings"
	"sync/atomic"
	"syscall"
	"time"

	"google.golang.org/protobuf/proto"
	"google.golang.org/protobuf/types/pluginpb"
)

var Plugins = []string{"protoc-gen-go-http", "protoc-gen-go-client", "protoc-gen-ts-client", "protoc-gen-ts-server", "protoc-gen-openapiv3"}

func Repo() string {
	if r := os.Getenv("VERIF_REPO"); r != "" {
		return r
	}
	return "/repo"
}

func Home() string {
	if r := os.Getenv("VERIF_HOME"); r != "" {
		return r
	}
	h, _ := os.UserHomeDir()
	return filepath.Join(h, ".cache", "verif")
}

// TreeHash hashes go.mod, go.sum and every non-test .go file under cmd/, internal/, http/ of the repo.
func TreeHash(repo string) (string, error) {
	var files []string
	for _, d := range []string{"cmd", "internal", "http"} {
		err := filepath.WalkDir(filepath.Join(repo, d), func(p string, e fs.DirEntry, err error) error {
			if err != nil {
				return err
			}
			if e.IsDir() {
				if e.Name() == "testdata" {
					return filepath.SkipDir
				}
				return nil
			}
			if strings.HasSuffix(p, ".go") && !strings.HasSuffix(p, "_test.go") {
				files = append(files, p)
			}
			return nil
		})
		if err != nil {
			return "", err
		}
	}
	files = append(files, filepath.Join(repo, "go.mod"), filepath.Join(repo, "go.sum"))
	sort.Strings(files)
	h := sha256.New()
	for _, f := range files {
		b, err := os.ReadFile(f)
		if err != nil {
			return "", err
		}
		rel, _ := filepath.Rel(repo, f)
		fmt.Fprintf(h, "%s\x00%d\x00", rel, len(b))
		h.Write(b)
	}
	return hex.EncodeToString(h.Sum(nil))[:16], nil
}

// Lock takes an exclusive advisory lock on path (created if needed).
func Lock(path string) (func(), error) {
	os.MkdirAll(filepath.Dir(path), 0o755)
	f, err := os.OpenFile(path, os.O_CREATE|os.O_RDWR, 0o644)
	if err != nil {
		return nil, err
	}
	if err := syscall.Flock(int(f.Fd()), syscall.LOCK_EX); err != nil {
		f.Close()
		return nil, err
	}
	return func() { syscall.Flock(int(f.Fd()), syscall.LOCK_UN); f.Close() }, nil
}

// Bins describes a built plugin set.
type Bins struct {
	Dir      string
	TreeHash string
}

func (b *Bins) Path(plugin string) string { return filepath.Join(b.Dir, plugin) }

// Build compiles the plugins from the repo's working tree (cached by tree hash) plus protoc-gen-go.
// variant selects an alternative build ("" or "maporder": with the overlay in overlayJSON).
func Build(variant string, extraArgs ...string) (*Bins, error) {
	repo := Repo()
	th, err := TreeHash(repo)
	if err != nil {
		return nil, err
	}
	dir := filepath.Join(Home(), "cache", th, "bin"+variant)
	unlock, err := Lock(filepath.Join(Home(), "cache", th+variant+".lock"))
	if err != nil {
		return nil, err
	}
	defer unlock()
	markInUse(th)
	if _, err := os.Stat(filepath.Join(dir, ".ok")); err == nil {
		return &Bins{Dir: dir, TreeHash: th}, nil
	}
	os.RemoveAll(dir)
	if err := os.MkdirAll(dir, 0o755); err != nil {
		return nil, err
	}
	args := append([]string{"build"}, extraArgs...)
	args = append(args, "-o", dir+"/", "./cmd/...")
	cmd := exec.Command("go", args...)
	cmd.Dir = repo
	out, err := cmd.CombinedOutput()
	if err != nil {
		return nil, fmt.Errorf("building plugins from %s failed: %v\n%s", repo, err, out)
	}
	os.WriteFile(filepath.Join(dir, ".ok"), []byte(time.Now().Format(time.RFC3339)), 0o644)
	pruneCache(th)
	return &Bins{Dir: dir, TreeHash: th}, nil
}

// GenGo builds protoc-gen-go (from the module cache) once.
func GenGo(mcDir string) (string, error) {
	dir := filepath.Join(Home(), "tools")
	bin := filepath.Join(dir, "protoc-gen-go")
	unlock, err := Lock(filepath.Join(Home(), "tools.lock"))
	if err != nil {
		return "", err
	}
	defer unlock()
	if _, err := os.Stat(bin); err == nil {
		return bin, nil
	}
	os.MkdirAll(dir, 0o755)
	cmd := exec.Command("go", "build", "-o", bin, "google.golang.org/protobuf/cmd/protoc-gen-go")
	cmd.Dir = mcDir
	if out, err := cmd.CombinedOutput(); err != nil {
		return "", fmt.Errorf("building protoc-gen-go: %v\n%s", err, out)
	}
	return bin, nil
}

// markInUse takes a shared lock on <treehash>.use for the life of the process: pruneCache leaves such trees alone.
func markInUse(th string) {
	f, err := os.OpenFile(filepath.Join(Home(), "cache", th+".use"), os.O_CREATE|os.O_RDWR, 0o644)
	if err != nil {
		return
	}
	if syscall.Flock(int(f.Fd()), syscall.LOCK_SH) != nil {
		f.Close()
		return
	}
	inUse = append(inUse, f) // keep the descriptor (and the lock) open
}

var inUse []*os.File

// treeInUse reports whether another process holds the use lock of the tree.
func treeInUse(th string) bool {
	f, err := os.OpenFile(filepath.Join(Home(), "cache", th+".use"), os.O_CREATE|os.O_RDWR, 0o644)
	if err != nil {
		return false
	}
	defer f.Close()
	if err := syscall.Flock(int(f.Fd()), syscall.LOCK_EX|syscall.LOCK_NB); err != nil {
		return true
	}
	syscall.Flock(int(f.Fd()), syscall.LOCK_UN)
	return false
}

// keep the two most recent tree hashes (and every tree a running check is using).
func pruneCache(keep string) {
	root := filepath.Join(Home(), "cache")
	ents, err := os.ReadDir(root)
	if err != nil {
		return
	}
	type de struct {
		name string
		t    time.Time
	}
	var ds []de
	for _, e := range ents {
		if !e.IsDir() || e.Name() == keep {
			continue
		}
		info, err := e.Info()
		if err != nil {
			continue
		}
		ds = append(ds, de{e.Name(), info.ModTime()})
	}
	sort.Slice(ds, func(i, j int) bool { return ds[i].t.After(ds[j].t) })
	for i, d := range ds {
		if i >= 1 && !treeInUse(d.name) {
			os.RemoveAll(filepath.Join(root, d.name))
			os.Remove(filepath.Join(root, d.name+".lock"))
			os.Remove(filepath.Join(root, d.name+".use"))
		}
	}
}

// Result of one plugin execution.
type Result struct {
	Plugin    string
	ExitCode  int
	Signal    string
	TimedOut  bool
	Stderr    string
	Wall      time.Duration
	Resp      *pluginpb.CodeGeneratorResponse
	Malformed bool // stdout did not parse as a CodeGeneratorResponse
	RawOut    []byte
}

// Err is the response's error string ("" if none).
func (r *Result) Err() string {
	if r.Resp == nil {
		return ""
	}
	return r.Resp.GetError()
}

// Files returns name->content.
func (r *Result) Files() map[string]string {
	m := map[string]string{}
	if r.Resp == nil {
		return m
	}
	for _, f := range r.Resp.File {
		m[f.GetName()] += f.GetContent()
	}
	return m
}

// Answered: the plugin terminated normally with a well-formed response (files or error).
func (r *Result) Answered() bool {
	return !r.TimedOut && r.Signal == "" && r.ExitCode == 0 && !r.Malformed && r.Resp != nil
}

// Symptom classifies a non-answer for C16.
func (r *Result) Symptom() string {
	switch {
	case r.TimedOut:
		return "timeout"
	case r.Signal != "":
		return "crash(" + r.Signal + ")"
	case strings.Contains(r.Stderr, "fatal error: out of memory") || strings.Contains(r.Stderr, "cannot allocate memory"):
		return "oom"
	case strings.Contains(r.Stderr, "panic:") || strings.Contains(r.Stderr, "goroutine "):
		return "panic_trace"
	case r.ExitCode != 0:
		return "nonzero_exit_without_response"
	case r.Malformed || r.Resp == nil:
		return "malformed_response"
	}
	return ""
}

var TimeoutSec = 60
var MemKB = 4 << 20

// Run executes one plugin on one request.
func Run(bin string, req *pluginpb.CodeGeneratorRequest, env ...string) *Result {
	in, err := proto.Marshal(req)
	if err != nil {
		panic(err)
	}
	return RunRaw(bin, in, env...)
}

// Fault holds the first harness-side failure to run a plugin at all (binary missing or not executable): such a run
// says nothing about the plugin, so the check must end as a check error, not with a verdict.
var Fault atomic.Value

func RunRaw(bin string, in []byte, env ...string) *Result {
	res := &Result{Plugin: filepath.Base(bin)}
	if _, err := os.Stat(bin); err != nil {
		Fault.CompareAndSwap(nil, "plugin binary missing: "+err.Error())
	}
	script := fmt.Sprintf("ulimit -v %d; exec timeout -s KILL %d %q", MemKB, TimeoutSec, bin)
	cmd := exec.Command("bash", "-c", script)
	cmd.Stdin = bytes.NewReader(in)
	var so, se bytes.Buffer
	cmd.Stdout = &so
	cmd.Stderr = &limitWriter{w: &se, n: 1 << 16}
	cmd.Env = append(os.Environ(), env...)
	t0 := time.Now()
	err := cmd.Run()
	res.Wall = time.Since(t0)
	res.Stderr = se.String()
	res.RawOut = so.Bytes()
	if err != nil {
		var ee *exec.ExitError
		if errors.As(err, &ee) {
			ws := ee.Sys().(syscall.WaitStatus)
			if ws.Signaled() {
				res.Signal = ws.Signal().String()
				if ws.Signal() == syscall.SIGKILL && res.Wall >= time.Duration(TimeoutSec)*time.Second-time.Second {
					res.TimedOut = true
				}
			} else {
				res.ExitCode = ws.ExitStatus()
				if (res.ExitCode == 126 || res.ExitCode == 127) && strings.Contains(res.Stderr, "failed to run command") {
					Fault.CompareAndSwap(nil, strings.TrimSpace(res.Stderr))
				}
				if res.ExitCode == 137 || res.ExitCode == 124 {
					res.TimedOut = res.Wall >= time.Duration(TimeoutSec)*time.Second-time.Second
					if !res.TimedOut {
						res.Signal = "killed"
					}
				}
			}
		} else {
			res.ExitCode = -1
			res.Stderr += "\nexec: " + err.Error()
		}
	}
	resp := &pluginpb.CodeGeneratorResponse{}
	if uerr := proto.Unmarshal(so.Bytes(), resp); uerr != nil {
		res.Malformed = true
	} else {
		res.Resp = resp
		if len(so.Bytes()) == 0 && (res.ExitCode != 0 || res.Signal != "" || res.TimedOut) {
			res.Resp = nil
		}
	}
	return res
}

type limitWriter struct {
	w io.Writer
	n int
}

func (l *limitWriter) Write(p []byte) (int, error) {
	if l.n > 0 {
		q := p
		if len(q) > l.n {
			q = q[:l.n]
		}
		l.w.Write(q)
		l.n -= len(q)
	}
	return len(p), nil
}
