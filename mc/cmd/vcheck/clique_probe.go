package main

import (
	"fmt"
	"os"
	"strconv"
	"time"

	"verif/mc/plug"
	"verif/mc/spec"
)

// cliqueProbe (dev aid): vcheck clique <n> runs go-http with generate_mock=true on a clique of n mutually referring messages.
func cliqueProbe(args []string) {
	n, _ := strconv.Atoi(args[0])
	var msgs []*spec.Message
	for i := 0; i < n; i++ {
		m := spec.M(fmt.Sprintf("M%d", i), spec.F("label", "string"))
		for j := 0; j < n; j++ {
			if j != i {
				m.Fields = append(m.Fields, spec.Msg(fmt.Sprintf("to_m%d", j), fmt.Sprintf("M%d", j)))
			}
		}
		msgs = append(msgs, m)
	}
	s := spec.One("clique", &spec.File{Messages: msgs, Services: []*spec.Service{spec.SvcNoBase("S", spec.RPCDefault("Do", "M0", "M0"))}})
	l, err := spec.Lower(s)
	if err != nil {
		fmt.Println(err)
		os.Exit(2)
	}
	b, err := plug.Build("")
	if err != nil {
		fmt.Println(err)
		os.Exit(2)
	}
	plug.TimeoutSec = 120
	t0 := time.Now()
	res := plug.Run(b.Path("protoc-gen-go-http"), l.Request("generate_mock=true", nil))
	size := 0
	if res.Resp != nil {
		for _, f := range res.Resp.File {
			size += len(f.GetContent())
		}
	}
	fmt.Printf("n=%d wall=%v exit=%d signal=%q timedout=%v bytes=%d err=%s\n", n, time.Since(t0).Round(time.Millisecond), res.ExitCode, res.Signal, res.TimedOut, size, res.Err())
}
