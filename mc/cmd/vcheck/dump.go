package main

import (
	"fmt"
	"os"

	"verif/mc/plug"
	"verif/mc/spec"
	"verif/mc/univ"
)

// dump <unit> <plugin> [param]: prints the plugin's output files for one universe spec (debugging aid).
func dump(args []string) {
	var specs []*spec.Spec
	specs = append(specs, univ.CoreSpecs()...)
	specs = append(specs, univ.Extended(true)...)
	for _, mu := range univ.Misuses() {
		for _, pl := range univ.MisusePlacements {
			if ms := univ.MisuseSpec(mu, pl, false); ms != nil {
				specs = append(specs, ms)
			}
		}
	}
	bins, err := plug.Build("")
	if err != nil {
		panic(err)
	}
	for _, s := range specs {
		if s.Name != args[0] {
			continue
		}
		l, err := spec.Lower(s)
		if err != nil {
			panic(err)
		}
		param := ""
		if len(args) > 2 {
			param = args[2]
		}
		res := plug.Run(bins.Path("protoc-gen-"+args[1]), l.Request(param, nil))
		fmt.Fprintln(os.Stderr, "error:", res.Err(), res.Stderr)
		for n, c := range res.Files() {
			fmt.Printf("=== %s\n%s\n", n, c)
		}
	}
}
