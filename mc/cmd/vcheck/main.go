// vcheck runs one property check: vcheck check <ID> <quick|thorough>
package main

import (
	"fmt"
	"os"
	"verif/mc/plug"

	"verif/mc/checks"
	"verif/mc/report"
)

func main() {
	if len(os.Args) >= 2 && os.Args[1] == "setup" {
		if err := checks.Setup(); err != nil {
			fmt.Fprintln(os.Stderr, "setup error:", err)
			os.Exit(2)
		}
		return
	}
	if len(os.Args) >= 4 && os.Args[1] == "dump" {
		dump(os.Args[2:])
		return
	}
	if len(os.Args) < 4 || os.Args[1] != "check" {
		fmt.Fprintln(os.Stderr, "usage: vcheck check <ID> <quick|thorough>")
		os.Exit(2)
	}
	id, tier := os.Args[2], os.Args[3]
	fn, ok := checks.Registry[id]
	if !ok {
		fmt.Fprintln(os.Stderr, "unknown property", id)
		os.Exit(2)
	}
	ctx, err := checks.NewCtx(tier)
	if err != nil {
		fmt.Fprintln(os.Stderr, "check error:", err)
		os.Exit(2)
	}
	run := report.New(id, tier)
	if err := fn(ctx, run); err != nil {
		fmt.Fprintln(os.Stderr, "check error:", err)
		os.Exit(2)
	}
	if f := plug.Fault.Load(); f != nil {
		fmt.Fprintln(os.Stderr, "check error: a plugin could not be run at all:", f)
		os.Exit(2)
	}
	os.Exit(run.Finish())
}
