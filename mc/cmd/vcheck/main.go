// vcheck runs one property check: vcheck check <ID> <quick|thorough>
package main

import (
	"encoding/json"
	"fmt"
	"os"
	"verif/mc/plug"

	"verif/mc/checks"
	"verif/mc/report"
)

func main() {
	if len(os.Args) >= 2 && os.Args[1] == "setup" {
		if err := checks.Setup(); err != nil {
			fmt.Fprintln(os.Stderr, "setup error:", err)
			os.Exit(2)
		}
		return
	}
	if len(os.Args) >= 4 && os.Args[1] == "dump" {
		dump(os.Args[2:])
		return
	}
	if len(os.Args) >= 3 && os.Args[1] == "clique" {
		cliqueProbe(os.Args[2:])
		return
	}
	if len(os.Args) >= 3 && os.Args[1] == "replay" {
		os.Exit(replay(os.Args[2]))
	}
	if len(os.Args) < 4 || os.Args[1] != "check" {
		fmt.Fprintln(os.Stderr, "usage: vcheck check <ID> <quick|thorough>")
		os.Exit(2)
	}
	id, tier := os.Args[2], os.Args[3]
	fn, ok := checks.Registry[id]
	if !ok {
		fmt.Fprintln(os.Stderr, "unknown property", id)
		os.Exit(2)
	}
	ctx, err := checks.NewCtx(tier)
	if err != nil {
		fmt.Fprintln(os.Stderr, "check error:", err)
		os.Exit(2)
	}
	run := report.New(id, tier)
	ctx.Run = run
	if err := fn(ctx, run); err != nil {
		fmt.Fprintln(os.Stderr, "check error:", err)
		os.Exit(2)
	}
	if f := plug.Fault.Load(); f != nil {
		fmt.Fprintln(os.Stderr, "check error: a plugin could not be run at all:", f)
		os.Exit(2)
	}
	// a verdict is about one tree: if the sources changed while the check ran (artefacts of two trees may have been compared),
	// there is no verdict
	if th, err := plug.TreeHash(plug.Repo()); err != nil || (ctx.Bins != nil && th != ctx.Bins.TreeHash) {
		fmt.Fprintln(os.Stderr, "check error: the repository changed while the check was running; run it again")
		os.Exit(2)
	}
	os.Exit(run.Finish())
}

// replay re-executes the check a violation record came from on the current tree and reports whether the same
// violation (same cell, same symptom) occurs again: exit 1 with the VIOLATION line if it does, exit 0 if not.
// No evidence file is written.
func replay(path string) int {
	b, err := os.ReadFile(path)
	if err != nil {
		fmt.Fprintln(os.Stderr, "check error:", err)
		return 2
	}
	var v report.Violation
	if err := json.Unmarshal(b, &v); err != nil || v.Property == "" || v.Cell == "" {
		fmt.Fprintln(os.Stderr, "check error: not a violation record:", path)
		return 2
	}
	fn, ok := checks.Registry[v.Property]
	if !ok {
		fmt.Fprintln(os.Stderr, "unknown property", v.Property)
		return 2
	}
	tier := os.Getenv("VERIF_TIER")
	if tier == "" {
		tier = "quick"
	}
	for _, t := range []string{tier, "thorough"} {
		ctx, err := checks.NewCtx(t)
		if err != nil {
			fmt.Fprintln(os.Stderr, "check error:", err)
			return 2
		}
		run := report.New(v.Property, t)
		ctx.Run = run
		if err := fn(ctx, run); err != nil {
			fmt.Fprintln(os.Stderr, "check error:", err)
			return 2
		}
		if f := plug.Fault.Load(); f != nil {
			fmt.Fprintln(os.Stderr, "check error: a plugin could not be run at all:", f)
			return 2
		}
		for _, w := range run.Violations {
			if w.Cell == v.Cell && w.Symptom == v.Symptom {
				fmt.Printf("REPRODUCED tier=%s cell=%s symptom=%s detail=%s\n", t, w.Cell, w.Symptom, w.Detail)
				fmt.Printf("VIOLATION property=%s replay=%s\n", v.Property, path)
				return 1
			}
		}
		if t == "thorough" {
			break
		}
	}
	fmt.Printf("NOT-REPRODUCED property=%s cell=%s symptom=%s (the current tree does not show this violation)\n", v.Property, v.Cell, v.Symptom)
	return 0
}
