package checks

import (
	"bufio"
	"bytes"
	"encoding/json"
	"fmt"
	"os"
	"os/exec"
	"path/filepath"
	"strings"

	"verif/mc/report"
	"verif/mc/ws"
)

func node22() string {
	if n := os.Getenv("NODE22"); n != "" {
		return n
	}
	return "/root/.nvm/versions/node/v22.22.2/bin/node"
}

type tsLoad struct {
	File    string   `json:"file"`
	OK      bool     `json:"ok"`
	Error   string   `json:"error"`
	Name    string   `json:"name"`
	Exports []string `json:"exports"`
}

// loadTS imports every emitted TypeScript module of the workspace under node 22 (one isolated import each).
func loadTS(c *Ctx, w *ws.Workspace) (map[string][]tsLoad, error) {
	root := filepath.Join(w.Dir, "ts")
	if _, err := os.Stat(root); err != nil {
		return map[string][]tsLoad{}, nil
	}
	cmd := exec.Command(node22(), "--no-warnings", filepath.Join(c.McDir, "js", "load.mjs"), root)
	var stderr bytes.Buffer
	cmd.Stderr = &stderr
	out, err := cmd.Output()
	if err != nil {
		return nil, HarnessError("node loader failed: %v %s", err, short(stderr.String(), 500))
	}
	res := map[string][]tsLoad{}
	sc := bufio.NewScanner(bytes.NewReader(out))
	sc.Buffer(make([]byte, 1<<20), 1<<24)
	for sc.Scan() {
		var l tsLoad
		if err := json.Unmarshal(sc.Bytes(), &l); err != nil {
			return nil, HarnessError("node loader output: %v", err)
		}
		unit := strings.SplitN(l.File, "/", 2)[0]
		res[unit] = append(res[unit], l)
	}
	return res, nil
}

func c13TS(c *Ctx, r *report.Run, w *ws.Workspace) error {
	loads, err := loadTS(c, w)
	if err != nil {
		return err
	}
	n := 0
	for _, u := range w.Units {
		for _, l := range loads[u.Name] {
			n++
			kind := "ts-client"
			if strings.HasSuffix(l.File, "_server.ts") {
				kind = "ts-server"
			}
			cell := fmt.Sprintf("%s,variant=%s", u.Spec.Cell, kind)
			if l.OK {
				r.Case(cell, "loads", true)
				continue
			}
			r.Case(cell, "ts_load_failed", true)
			r.Violate(cell, "ts_load_failed", l.File+": "+l.Name+": "+l.Error, map[string]any{"spec": u.Spec, "file": l.File})
		}
	}
	r.Extra["ts_modules_loaded"] = n
	return nil
}
