package checks

import (
	"fmt"
	"strings"

	"verif/mc/model"
	"verif/mc/report"
	"verif/mc/rt"
	"verif/mc/spec"
	"verif/mc/univ"
	"verif/mc/ws"
)

func init() { Registry["C20"] = C20 }

// C20: the optional mock server builds and answers with contract-conformant examples.
func C20(c *Ctx, r *report.Run) error {
	r.Rule = "F-mock: one unit per response-field kind x cardinality (15 scalar kinds x {singular, optional, repeated, map}, enum, message singular/repeated/map, Timestamp, oneof, recursive) and per example shape (string/int64/bool/double parsable, unparsable, nested, quotes) plus the core service units, generated with generate_mock=true: (1) the unmodified output must compile and vet; (2) in a copy whose math/rand and crypto/rand imports are redirected to an explorer-owned source, every sequence of random choices is enumerated (odometer over the observed arities) and each mock answer to a rule-satisfying request must be error-free, serialisable by the generated server (200), valid against the operation's response schema (python jsonschema) and carry one of the declared examples in every field that declares parsable examples; distinct = (unit, rpc, outcome)"
	specs := univ.MockSpecs(c.Thorough)
	for _, s := range univ.CoreSpecs() {
		if s.Name == "core_rest" || s.Name == "core_query" || s.Name == "core_rules" || s.Name == "core_multi" || s.Name == "core_unwrap" || s.Name == "core_flatten" {
			specs = append(specs, s)
		}
	}
	r.Programs = len(specs)
	// (1) unmodified mock builds
	w0, err := ws.Build(c.Bins, specs, ws.Options{Variant: ws.H, Mock: true, Tag: "mock0"})
	if err != nil {
		return err
	}
	builds := map[string]bool{}
	for _, u := range w0.Units {
		cell := u.Spec.Cell
		if len(u.GenErr) > 0 {
			r.Violate(cell, "mock_not_generated", fmt.Sprint(u.GenErr), map[string]any{"spec": u.Spec})
			r.Case(cell, "mock_not_generated", true)
			continue
		}
		if len(u.Diags) == 0 {
			builds[u.Name] = true
			r.Case(cell, "mock_builds", true)
			continue
		}
		seen := map[string]bool{}
		for _, d := range u.Diags {
			where := "mock_file"
			if !strings.Contains(d.File, "_http_mock.pb.go") && d.Decl != "glue" {
				where = "other_file"
			}
			sym := "mock_does_not_build(" + where + ")"
			if seen[sym] {
				continue
			}
			seen[sym] = true
			r.Violate(cell, sym, fmt.Sprintf("%s:%d: %s", d.File, d.Line, d.Msg), map[string]any{"spec": u.Spec})
		}
		r.Case(cell, "mock_does_not_build", true)
	}
	// (2) behaviour of the units whose mock builds, with the RNG owned
	var healthy []*ws.Unit
	for _, u := range w0.Units {
		if builds[u.Name] {
			healthy = append(healthy, u)
		}
	}
	if len(healthy) == 0 {
		return nil
	}
	var runSpecs []*spec.Spec
	for _, u := range healthy {
		runSpecs = append(runSpecs, u.Spec)
	}
	w, err := ws.Build(c.Bins, runSpecs, ws.Options{Variant: ws.H, Mock: true, MockShim: true, Tag: "mock1", Harness: true, OAS: true, OASJSON: true})
	if err != nil {
		return err
	}
	var units []rt.JobUnit
	for _, u := range w.Units {
		if u.Healthy() && u.Glue {
			units = append(units, JobUnitFor(u))
		} else {
			r.Violate(u.Spec.Cell, "harness_shim_build_failed", fmt.Sprint(u.Diags), nil)
		}
	}
	if err := RunHarness(c, w, r, "c20", units, nil, specIndex(w)); err != nil {
		return err
	}
	insts, err := collectInstances(c, w, "c20", units)
	if err != nil {
		return err
	}
	py := NewPyBatch()
	type pend struct {
		id   int
		in   *rt.Inst
		cell string
	}
	var pending []pend
	for _, in := range insts {
		u := w.Unit(in.Unit)
		var doc any
		for n, content := range u.OASFiles {
			if n == in.Svc+".openapi.json" {
				doc, _ = model.LoadOAS(n, content)
			}
		}
		if doc == nil {
			continue
		}
		id := in.Unit + "|" + in.Svc
		py.Doc(id, doc)
		for _, op := range model.Operations(doc) {
			if op.OperationID != in.RPC {
				continue
			}
			if ptr, ok := op.Responses["200"]; ok {
				if v, err := model.Parse([]byte(in.Body)); err == nil {
					pending = append(pending, pend{py.Validate(id, ptr, nil, false, v), in, fmt.Sprintf("%s,rpc=%s.%s", in.Cell, in.Svc, in.RPC)})
				}
			}
		}
	}
	results, err := py.Run(c)
	if err != nil {
		return err
	}
	for _, p := range pending {
		if res := results[p.id]; !res.OK {
			r.Violate(p.cell+"#schema", "mock_response_invalid", res.Errors[0].String()+" | "+short(p.in.Body, 300), map[string]any{"inst": p.in})
			r.Case(p.cell, "mock_response_invalid", true)
		} else {
			r.Case(p.cell, "mock_response_schema_valid", true)
		}
	}
	r.States, r.Transitions, r.Traces = r.Evaluations, r.Evaluations, r.Evaluations
	r.Assumptions = []string{"the RNG shim changes only the two import lines of the executed copy; the unmodified file is what is compiled for the build verdict", "fields whose examples cannot be parsed to the field type are not judged"}
	return nil
}
