package checks

import (
	"fmt"
	"strings"

	"verif/mc/report"
	"verif/mc/spec"
	"verif/mc/univ"
	"verif/mc/ws"
)

func init() { Registry["C17"] = C17 }

// C17: a request's outcome does not depend on other requests, concurrent or earlier.
func C17(c *Ctx, r *report.Run) error {
	r.Rule = "the emitted server and client files of multi-service units are instrumented (package sync -> scheduler-aware shim; a scheduling point before every statement touching a package-level variable, a closure-captured variable or a receiver field); a controlled scheduler runs 2 and 3 concurrent calls (every unordered pair of the call alphabet incl. the same call twice, and triples; calls = valid / per-call header + protobuf content type / other value / rule-violating / missing header, on every route of every service, sharing one generated client per service and one mux; validator Once cold at the start of every execution) under every interleaving with at most p preemptions (p=2 quick, 3 thorough); per execution: no two co-enabled conflicting accesses (data race), no deadlock, no panic, and every call's observation (status, body, request seen by the handler, RPC identity, headers as received, client result) equals the observation of the same call issued alone; plus every call sequence up to depth 2 (3) on one shared instance vs isolated; distinct = (unit, scenario, outcome)"
	specs := []*spec.Spec{univ.CoreMulti(), univ.CoreRest(), univ.CoreQuery(), univ.CoreHdrOverride(), univ.CoreHeaders(), univ.XSharedMethodHeader(), univ.XServiceHeaderCounts(2, 3)}
	r.Programs = len(specs)
	w, err := ws.Build(c.Bins, specs, ws.Options{Variant: ws.HC, Tag: "c17", Harness: true, Instrument: true, Mock: true, MockShim: true})
	if err != nil {
		return err
	}
	units := blocked(r, w, "C17")
	locs := map[string][]string{}
	for _, u := range w.Units {
		locs[u.Name] = u.Locs
		if u.Healthy() && len(u.Locs) == 0 {
			return HarnessError("instrumenter found no shared location in %s", u.Name)
		}
	}
	r.Extra["instrumented_locations"] = locs
	if err := RunHarness(c, w, r, "c17", units, nil, specIndex(w)); err != nil {
		return err
	}
	// model-checking counters from the drivers' space records
	for _, s := range r.Samples {
		if m, ok := s.(map[string]any); ok {
			if d, ok := m["space"].(string); ok {
				var a, sc, ex, pts, mx, b, h int
				if _, err := fmt.Sscanf(d, "alphabet=%d scenarios=%d executions=%d points=%d max_points_per_execution=%d preemption_bound=%d histories=%d", &a, &sc, &ex, &pts, &mx, &b, &h); err == nil {
					r.States += pts
					r.Transitions += pts
					r.Traces += ex + h
				}
			}
		}
	}
	// supplementary: free-running -race build of the same bodies (sampling, reported separately)
	wr, err := ws.Build(c.Bins, specs, ws.Options{Variant: ws.HC, Tag: "c17race", Harness: true, Race: true, Mock: true})
	if err != nil {
		return err
	}
	var runits = blocked(r, wr, "C17")
	if err := RunHarness(c, wr, r, "c17free", runits, nil, specIndex(wr)); err != nil {
		if strings.Contains(err.Error(), "DATA RACE") {
			r.Violate("core/unit=multi_service,scenario=freerun_race_detector", "freerun_race_report", short(err.Error(), 1500), nil)
		} else {
			return err
		}
	}
	r.Extra["supplementary_freerun_race_pass"] = "same call bodies on real goroutines, go build -race, GOMAXPROCS 1/4/16 x repetitions (sampling; not the verdict)"
	if r.States == 0 {
		r.States, r.Transitions, r.Traces = r.Evaluations, r.Evaluations, r.Evaluations
	}
	r.Assumptions = []string{"interleavings are explored at statement granularity of the emitted files; accesses inside third-party libraries (net/http, protobuf) and memory-model effects below that granularity are not modelled",
		"the instrumented and the un-instrumented build are the same code apart from inserted vsched.Access calls and the sync import"}
	_ = strings.Join
	return nil
}
