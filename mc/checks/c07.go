package checks

import (
	"fmt"
	"sort"
	"strings"
	"verif/mc/univ"

	"verif/mc/model"
	"verif/mc/report"
	"verif/mc/rt"
	"verif/mc/spec"
	"verif/mc/ws"
)

func init() { Registry["C07"] = C07 }

func tsTypeFor(d model.TSDecls, full, pkg string) (*model.TSType, string) {
	rel := strings.TrimPrefix(full, pkg+".")
	for _, cand := range []string{rel, strings.ReplaceAll(rel, ".", "_"), strings.ReplaceAll(rel, ".", ""), rel[strings.LastIndex(rel, ".")+1:]} {
		if t, ok := d[cand]; ok {
			return t, cand
		}
	}
	return nil, ""
}

// C07: wire JSON and handler inputs inhabit the generated TypeScript types.
func C07(c *Ctx, r *report.Run) error {
	r.Rule = "for every RPC of the REST/query/path-kind/header/multi-service/codec units: (a) every 200 response body the generated Go server produces for the enumerated response values, (b) every enumerated request value in contract form, (c) every object the emitted TS server passed to its handler (Go client -> TS server and TS client -> TS server runs of C08) is checked for membership in the TypeScript type the emitted modules declare for that message (M-ts: parser for the emitted declaration subset; value in type with excess-property rejection, unions/intersections by disjunctive normal form); (d) ts-client and ts-server must declare identical types for every message; distinct = (unit, rpc, source, outcome)"
	var specs []*spec.Spec
	for _, s := range serviceSpecs(c) {
		if !hasTag(s, "ctx") && !hasTag(s, "rules") && !hasTag(s, "mock") && oneServiceFile(s) && !hasTag(s, "genonly") && !hasTag(s, "serveronly") {
			specs = append(specs, s)
		}
	}
	specs = append(specs, univ.PairSpecs(c.Thorough)...)
	r.Programs = len(specs)
	w, err := ws.Build(c.Bins, specs, ws.Options{Variant: ws.CH, Tag: "rtCH08", Harness: true, TS: true})
	if err != nil {
		return err
	}
	units := blocked(r, w, "C07")
	decls := map[string][2]model.TSDecls{}
	sigs := map[string]map[string]model.TSMethodSig{}  // unit -> "<Service>Client.<method>" -> declared signature
	hsigs := map[string]map[string]model.TSMethodSig{} // unit -> "<Service>Handler.<method>" -> declared handler signature
	for _, u := range w.Units {
		if !u.Healthy() {
			continue
		}
		var cd, sd model.TSDecls
		for n, src := range u.TSFiles {
			d, err := model.ParseTSDecls(src)
			if err != nil {
				r.Violate(u.Spec.Cell+",module="+n[strings.LastIndex(n, "_")+1:], "decl_unparseable", err.Error(), map[string]any{"spec": u.Spec, "file": n})
				continue
			}
			if strings.HasSuffix(n, "_client.ts") {
				cd = d
				sg, err := model.ParseTSMethodSigs(src)
				if err != nil {
					r.Violate(u.Spec.Cell+",module=client.ts", "decl_unparseable", err.Error(), map[string]any{"spec": u.Spec, "file": n})
				}
				sigs[u.Name] = sg
			} else if strings.HasSuffix(n, "_server.ts") {
				sd = d
				sg, err := model.ParseTSMethodSigs(src)
				if err != nil {
					r.Violate(u.Spec.Cell+",module=server.ts", "decl_unparseable", err.Error(), map[string]any{"spec": u.Spec, "file": n})
				}
				hsigs[u.Name] = sg
			}
		}
		decls[u.Name] = [2]model.TSDecls{cd, sd}
		if cd == nil || sd == nil {
			continue
		}
		// (d) same declarations for the same messages
		ju := JobUnitFor(u)
		for _, full := range ju.Messages {
			ct, cn := tsTypeFor(cd, full, ju.Package)
			st, _ := tsTypeFor(sd, full, ju.Package)
			cell := fmt.Sprintf("%s,msg=%s", u.Spec.Cell, strings.TrimPrefix(full, ju.Package+"."))
			switch {
			case ct == nil && st == nil:
				r.Case(cell, "not_declared_by_either", false)
			case ct == nil || st == nil:
				r.Violate(cell, "client_server_decl_differ", fmt.Sprintf("declared by ts-client: %v, by ts-server: %v", ct != nil, st != nil), map[string]any{"spec": u.Spec})
				r.Case(cell, "client_server_decl_differ", true)
			case ct.String() != st.String():
				r.Violate(cell, "client_server_decl_differ", fmt.Sprintf("%s: client %s | server %s", cn, short(ct.String(), 300), short(st.String(), 300)), map[string]any{"spec": u.Spec})
				r.Case(cell, "client_server_decl_differ", true)
			default:
				r.Case(cell, "same_declaration", true)
			}
		}
	}
	outType := map[string]string{} // unit|svc|rpc -> out full name
	inType := map[string]string{}
	pkgOf := map[string]string{}
	for _, ju := range units {
		pkgOf[ju.Name] = ju.Package
		for _, s := range ju.Services {
			for _, m := range s.Methods {
				outType[ju.Name+"|"+s.Name+"|"+m.Name] = m.Out
				inType[ju.Name+"|"+s.Name+"|"+m.Name] = m.In
			}
		}
	}
	// sigOf: the signature the TS client declares for an RPC (method names are matched like the bridge does: case and underscores ignored)
	sigIn := func(table map[string]map[string]model.TSMethodSig, suffix, unit, svc, rpc string) *model.TSMethodSig {
		norm := func(x string) string { return strings.ToLower(strings.ReplaceAll(x, "_", "")) }
		for k, sg := range table[unit] {
			if i := strings.Index(k, "."); i > 0 && k[:i] == svc+suffix && norm(k[i+1:]) == norm(rpc) {
				sg := sg
				return &sg
			}
		}
		return nil
	}
	sigOf := func(unit, svc, rpc string) *model.TSMethodSig { return sigIn(sigs, "Client", unit, svc, rpc) }
	handlerSigOf := func(unit, svc, rpc string) *model.TSMethodSig { return sigIn(hsigs, "Handler", unit, svc, rpc) }
	sigFound := 0
	var declared *model.TSType // when set, the next judge call uses this type (the RPC's declared result) instead of the message's declaration
	var documented any         // when set, the documented form (M-json) of the value the next judge call looks at: a required member that is absent from the value but present there has been LOST, not omitted as a zero value
	judge := func(unit, cellBase, class, source string, d model.TSDecls, full string, value any, raw string) {
		cell := fmt.Sprintf("%s,src=%s", cellBase, source)
		if d == nil {
			return
		}
		t, name := tsTypeFor(d, full, pkgOf[unit])
		if declared != nil {
			t, name = declared, declared.String()
			declared = nil
		}
		if t == nil {
			r.Violate(cell+"#"+class, "type_not_declared", "no TypeScript declaration for "+full, nil)
			r.Case(cell, "type_not_declared", true)
			return
		}
		ps := d.Check(value, t, "")
		doc := documented
		documented = nil
		if doc != nil {
			for i := range ps {
				if ps[i].Kind == "missing" {
					if _, found := model.Ptr(doc, ps[i].Path); found {
						ps[i].Kind = "lost"
					}
				}
			}
		}
		if len(ps) == 0 {
			r.Case(cell, "inhabits_type", true)
			return
		}
		kinds := map[string][]string{}
		for _, p := range ps {
			kinds[p.Kind] = append(kinds[p.Kind], p.Path+" "+p.Msg)
		}
		for _, k := range []string{"type", "excess", "missing", "lost"} {
			if len(kinds[k]) == 0 {
				continue
			}
			sym := map[string]string{"type": "not_in_type", "excess": "excess_property", "missing": "required_member_absent", "lost": "documented_member_absent"}[k]
			sort.Strings(kinds[k])
			r.Violate(cell+"#"+class, sym, fmt.Sprintf("%s is not a value of %s: %s | value %s", source, name, strings.Join(kinds[k][:min(3, len(kinds[k]))], "; "), short(raw, 300)), nil)
			r.Case(cell, sym, true)
		}
	}
	// (a) Go server responses
	insts, err := collectInstances(c, w, "c06", units)
	if err != nil {
		return err
	}
	for _, in := range insts {
		if in.Kind != "response_200" || in.Class == "nonfinite" {
			continue
		}
		v, perr := model.Parse([]byte(in.Body))
		if perr != nil {
			continue
		}
		key := in.Unit + "|" + in.Svc + "|" + in.RPC
		cls := in.Class
		if i := strings.Index(cls, ":"); i >= 0 && !strings.HasPrefix(cls, "resp:") {
			continue // request enumerations all return the same response: judge response enumerations only
		}
		// the property speaks of "the TypeScript type the TS client declares as that RPC's result": Promise<T> of the method
		if sg := sigOf(in.Unit, in.Svc, in.RPC); sg != nil {
			declared = sg.Out
			sigFound++
		} else if decls[in.Unit][0] != nil {
			r.Violate(fmt.Sprintf("%s,rpc=%s.%s,src=ts_client_module", in.Cell, in.Svc, in.RPC), "method_not_declared", "the TS client module declares no method for this RPC", nil)
		}
		if in.Want != "" {
			documented, _ = model.Parse([]byte(in.Want))
		}
		judge(in.Unit, fmt.Sprintf("%s,rpc=%s.%s", in.Cell, in.Svc, in.RPC), cls, "go_server_response", decls[in.Unit][0], outType[key], v, in.Body)
	}
	// (b) contract-form requests and (c) TS handler inputs
	d, err := c08Pipeline(c, w, units, false)
	if err != nil {
		return err
	}
	for _, id := range d.order {
		tc := d.cases[id]
		key := tc.Unit + "|" + tc.Svc + "|" + tc.RPC
		cellBase := fmt.Sprintf("%s,rpc=%s.%s", tc.Cell, tc.Svc, tc.RPC)
		if strings.HasPrefix(tc.Class, "req:") {
			if v, err := model.Parse(tc.ReqObj); err == nil {
				// "the declared request interface": the type of the client method's req parameter
				if sg := sigOf(tc.Unit, tc.Svc, tc.RPC); sg != nil {
					declared = sg.In
				}
				judge(tc.Unit, cellBase, tc.Class, "contract_request", decls[tc.Unit][0], inType[key], v, string(tc.ReqObj))
			}
			if h := d.tsHandled[id]; h != nil && h["input"] != nil && str(h, "handled") != "" {
				if sg := handlerSigOf(tc.Unit, tc.Svc, tc.RPC); sg != nil {
					declared = sg.In
				}
				judge(tc.Unit, cellBase, tc.Class, "ts_handler_input(go_client)", decls[tc.Unit][1], inType[key], toTree(h["input"]), str(h, "input"))
			}
			if h := d.tsts[id]; h != nil && h["input"] != nil && str(h, "handled") != "" {
				if sg := handlerSigOf(tc.Unit, tc.Svc, tc.RPC); sg != nil {
					declared = sg.In
				}
				judge(tc.Unit, cellBase, tc.Class, "ts_handler_input(ts_client)", decls[tc.Unit][1], inType[key], toTree(h["input"]), str(h, "input"))
			}
		}
	}
	r.Sample(map[string]any{"declarations_parsed_units": len(decls), "responses_judged_against_declared_method_result": sigFound, "go_server_instances": len(insts), "ts_cases": len(d.order)})
	r.States, r.Transitions, r.Traces = r.Evaluations, r.Evaluations, r.Evaluations
	r.Assumptions = []string{"no TypeScript type checker exists in the sandbox: typing is decided by M-ts, a parser and membership relation for the declaration subset the generators emit (interfaces, aliases, string-literal unions, object literal types, intersections, arrays, Record, optional members, null unions, unknown)"}
	_ = rt.Inst{}
	return nil
}
