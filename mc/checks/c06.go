package checks

import (
	"buf.build/go/protovalidate"
	"bufio"
	"bytes"
	"encoding/json"
	"fmt"
	"net/url"
	"os"
	"os/exec"
	"path/filepath"
	"strconv"
	"strings"
	"sync"
	"verif/mc/univ"

	"google.golang.org/protobuf/reflect/protoreflect"
	"google.golang.org/protobuf/types/dynamicpb"

	"verif/mc/model"
	"verif/mc/report"
	"verif/mc/rt"
	"verif/mc/spec"
	"verif/mc/ws"
)

func init() { Registry["C06"] = C06 }

// collectInstances runs a harness driver that emits "inst" records.
func collectInstances(c *Ctx, w *ws.Workspace, driver string, units []rt.JobUnit) ([]*rt.Inst, error) {
	shards := c.Workers
	if shards > len(units) {
		shards = len(units)
	}
	if shards == 0 {
		return nil, nil
	}
	groups := make([][]rt.JobUnit, shards)
	for i, u := range units {
		groups[i%shards] = append(groups[i%shards], u)
	}
	work, err := os.MkdirTemp(w.Dir, "run-")
	if err != nil {
		return nil, err
	}
	defer os.RemoveAll(work)
	var mu sync.Mutex
	var out []*rt.Inst
	var firstErr error
	var wg sync.WaitGroup
	for i, g := range groups {
		wg.Add(1)
		go func(i int, g []rt.JobUnit) {
			defer wg.Done()
			jb, _ := json.Marshal(rt.Job{Thorough: c.Thorough, Mode: driver, Units: g})
			jp := filepath.Join(work, fmt.Sprintf("job%d.json", i))
			os.WriteFile(jp, jb, 0o644)
			cmd := exec.Command(w.Harness, driver, jp)
			var stderr bytes.Buffer
			cmd.Stderr = &stderr
			ob, err := cmd.Output()
			mu.Lock()
			defer mu.Unlock()
			if err != nil {
				if firstErr == nil {
					firstErr = HarnessError("harness %s: %v %s", driver, err, short(stderr.String(), 2000))
				}
				return
			}
			sc := bufio.NewScanner(bytes.NewReader(ob))
			sc.Buffer(make([]byte, 1<<20), 1<<26)
			for sc.Scan() {
				in := &rt.Inst{}
				if json.Unmarshal(sc.Bytes(), in) == nil && in.K == "inst" {
					out = append(out, in)
				}
			}
		}(i, g)
	}
	wg.Wait()
	return out, firstErr
}

// coerce turns a wire string into the JSON value of the declared parameter type.
func coerce(schema any, raw []string) any {
	sm, _ := schema.(map[string]any)
	typ, _ := sm["type"].(string)
	one := func(t string, s string) any {
		switch t {
		case "integer":
			if _, err := strconv.ParseInt(s, 10, 64); err == nil {
				return json.Number(s)
			}
			if _, err := strconv.ParseUint(s, 10, 64); err == nil {
				return json.Number(s)
			}
		case "number":
			if f, err := strconv.ParseFloat(s, 64); err == nil && f == f && f <= 1.7976931348623157e308 && f >= -1.7976931348623157e308 {
				return json.Number(strconv.FormatFloat(f, 'g', -1, 64))
			}
		case "boolean":
			if s == "true" {
				return true
			}
			if s == "false" {
				return false
			}
		}
		return s
	}
	if typ == "array" {
		items, _ := sm["items"].(map[string]any)
		it, _ := items["type"].(string)
		var out []any
		for _, r := range raw {
			out = append(out, one(it, r))
		}
		return out
	}
	if len(raw) == 0 {
		return nil
	}
	return one(typ, raw[0])
}

// matchTemplate matches a concrete path against a template and returns the variable values.
func matchTemplate(tmpl, path string) (map[string]string, bool) {
	ts, ps := strings.Split(strings.Trim(tmpl, "/"), "/"), strings.Split(strings.Trim(path, "/"), "/")
	if len(ts) != len(ps) {
		return nil, false
	}
	out := map[string]string{}
	for i := range ts {
		if strings.HasPrefix(ts[i], "{") && strings.HasSuffix(ts[i], "}") {
			v, err := url.PathUnescape(ps[i])
			if err != nil {
				return nil, false
			}
			out[ts[i][1:len(ts[i])-1]] = v
		} else if ts[i] != ps[i] {
			return nil, false
		}
	}
	return out, true
}

// C06: wire JSON bodies and parameters validate against the generated OpenAPI.
func C06(c *Ctx, r *report.Run) error {
	r.Rule = "for every RPC of every unit (core REST/query/header units and every codec unit) every enumerated request value is sent by the generated Go client and every enumerated response value is returned by the generated Go server (JSON transport, byte-level wire); each captured request body, 200 body, 400 ValidationError body and default Error body is validated with python jsonschema (Draft 2020-12) against the schema the service's OpenAPI document gives for that operation, plainly and under the strict transform (no property the schema does not describe, at any depth); every path, query and header value sent is validated against its parameter schema after typed coercion; every reachable component schema must accept the documented form of the type's default and fully populated value; distinct = (unit, rpc, kind, outcome)"
	var specs []*spec.Spec
	for _, s := range serviceSpecs(c) {
		if !hasTag(s, "ctx") && !hasTag(s, "rules") && !hasTag(s, "route") && !hasTag(s, "serveronly") {
			specs = append(specs, s)
		}
	}
	// collection rules (items.*, min/max_items, pairs): the rule-satisfying witnesses must validate against the published schema
	rs, _ := univ.RuleSpecs(c.Thorough)
	for _, s := range rs {
		if s.Name == "rules_collections" || s.Name == "rules_string" || s.Name == "rules_double" || s.Name == "rules_shapes" || s.Name == "rules_bytes" || s.Name == "rules_affix" {
			specs = append(specs, s)
		}
	}
	specs = append(specs, univ.PairSpecs(c.Thorough)...)
	r.Programs = len(specs)
	w, err := ws.Build(c.Bins, specs, ws.Options{Variant: ws.CH, Tag: "rtCH06", Harness: true, OAS: true, OASJSON: true})
	if err != nil {
		return err
	}
	units := blocked(r, w, "C06")
	insts, err := collectInstances(c, w, "c06", units)
	if err != nil {
		return err
	}
	py := NewPyBatch()
	type pend struct {
		id     int
		cell   string
		what   string
		strict bool
		inst   *rt.Inst
		sym    string
	}
	var pending []pend
	docs := map[string]any{} // unit|service -> doc
	docID := func(unit, svc string) (string, any) {
		k := unit + "|" + svc
		if d, ok := docs[k]; ok {
			return k, d
		}
		u := w.Unit(unit)
		var v any
		for n, content := range u.OASFiles {
			if n == svc+".openapi.json" {
				v, _ = model.LoadOAS(n, content)
			}
		}
		docs[k] = v
		if v != nil {
			py.Doc(k, v)
		}
		return k, v
	}
	for _, in := range insts {
		cellBase := fmt.Sprintf("%s,rpc=%s.%s,kind=%s", in.Cell, in.Svc, in.RPC, in.Kind)
		id, doc := docID(in.Unit, in.Svc)
		if doc == nil {
			r.Violate(in.Cell+",service="+in.Svc, "document_missing", "no OpenAPI document for service "+in.Svc, nil)
			continue
		}
		var op *model.OASOperation
		for _, o := range model.Operations(doc) {
			o := o
			if o.OperationID == in.RPC {
				op = &o
			}
		}
		if op == nil {
			r.Violate(fmt.Sprintf("%s,rpc=%s.%s", in.Cell, in.Svc, in.RPC), "operation_missing", "no operation with operationId "+in.RPC, map[string]any{"inst": in})
			continue
		}
		add := func(ptr string, schema any, inst any, what, sym string) {
			for _, strict := range []bool{false, true} {
				pid := py.Validate(id, ptr, schema, strict, inst)
				pending = append(pending, pend{pid, cellBase, what, strict, in, sym})
			}
		}
		switch in.Kind {
		case "request":
			if in.Body != "" {
				if op.BodyPtr == "" {
					r.Violate(cellBase+"#"+in.Class, "schema_missing", "client sent a body but the operation declares no application/json request body", map[string]any{"inst": in})
				} else if v, perr := model.Parse([]byte(in.Body)); perr == nil {
					add(op.BodyPtr, nil, v, "request body", "instance_invalid")
				}
			}
			// parameters
			u, perr := url.Parse(in.Target)
			if perr != nil {
				continue
			}
			vars, ok := matchTemplate(op.Path, u.EscapedPath())
			if !ok {
				r.Violate(cellBase+"#"+in.Class, "path_does_not_match_template", fmt.Sprintf("client path %s vs template %s", u.Path, op.Path), map[string]any{"inst": in})
				r.Case(cellBase, "path_does_not_match_template", true)
				continue
			}
			declared := map[string]model.OASParam{}
			for _, p := range op.Params {
				declared[p.In+":"+strings.ToLower(p.Name)] = p
			}
			for name, val := range vars {
				if p, ok := declared["path:"+strings.ToLower(name)]; ok && p.Schema != nil {
					add("", p.Schema, coerce(p.Schema, []string{val}), "path parameter "+name, "param_invalid")
				}
			}
			for name, vals := range u.Query() {
				p, ok := declared["query:"+strings.ToLower(name)]
				if !ok {
					r.Violate(cellBase+",param="+name, "param_undeclared", "client sent query parameter "+name+" that the operation does not declare", map[string]any{"inst": in})
					r.Case(cellBase, "param_undeclared", true)
					continue
				}
				if p.Schema != nil {
					add("", p.Schema, coerce(p.Schema, vals), "query parameter "+name, "param_invalid")
				}
			}
			for name, val := range in.Headers {
				p, ok := declared["header:"+strings.ToLower(name)]
				if !ok {
					r.Violate(cellBase+",param="+name, "param_undeclared", "header "+name+" is validated by the server but not declared by the operation", map[string]any{"inst": in})
					r.Case(cellBase, "param_undeclared", true)
					continue
				}
				if p.Schema != nil {
					add("", p.Schema, coerce(p.Schema, []string{val}), "header "+name, "param_invalid")
				}
			}
		default:
			code := map[string]string{"response_200": "200", "response_400": "400", "response_default": "default"}[in.Kind]
			ptr, ok := op.Responses[code]
			if !ok {
				r.Violate(cellBase, "schema_missing", "no application/json schema for response "+code, map[string]any{"inst": in})
				continue
			}
			if v, perr := model.Parse([]byte(in.Body)); perr == nil {
				add(ptr, nil, v, "response "+code, "instance_invalid")
			} else {
				r.Violate(cellBase+"#"+in.Class, "response_not_json", short(in.Body, 200), map[string]any{"inst": in})
			}
		}
	}
	// component satisfiability: default and full value of every reachable message
	type cpend struct {
		id   int
		cell string
		what string
	}
	var cp []cpend
	for _, u := range w.Units {
		if !u.Healthy() {
			continue
		}
		u.Low.Files.RangeFiles(func(fd protoreflect.FileDescriptor) bool {
			own := false
			for _, f := range u.Spec.Files {
				if f.Path == fd.Path() {
					own = true
				}
			}
			if !own {
				return true
			}
			for i := 0; i < fd.Services().Len(); i++ {
				svc := fd.Services().Get(i)
				id, doc := docID(u.Name, string(svc.Name()))
				if doc == nil {
					continue
				}
				for _, md := range reachableMessages(u.Low.Files, svc) {
					comp, ok := componentFor(doc, md)
					if !ok {
						continue // C18 reports schema_missing
					}
					for _, variant := range []string{"default", "full"} {
						msg := dynamicpb.NewMessage(md)
						if variant == "full" {
							for _, d := range rt.Dims(md, rt.ValueOpts{}) {
								if len(d.Alts) > 1 {
									d.Alts[1].Set(msg)
								}
							}
						}
						if len(protovalidate.Check(msg)) > 0 {
							continue // the published rules rightly exclude this value (C19 compares rules and schemas)
						}
						v, err := model.Encode(msg, model.EncOpts{})
						if err != nil {
							continue
						}
						for _, strict := range []bool{false, true} {
							pid := py.Validate(id, "/components/schemas/"+model.PtrEscape(comp), nil, strict, v)
							cp = append(cp, cpend{pid, fmt.Sprintf("%s,component=%s,strict=%v", u.Spec.Cell, comp, strict), variant})
						}
					}
				}
			}
			return true
		})
	}
	results, err := py.Run(c)
	if err != nil {
		return err
	}
	plainFailed := map[int]bool{}
	for _, p := range pending {
		if !p.strict && !results[p.id].OK {
			plainFailed[p.id+1] = true // the strict twin was queued right after
		}
	}
	for _, p := range pending {
		res := results[p.id]
		if p.strict && plainFailed[p.id] {
			continue
		}
		outcome := "valid"
		if p.strict {
			outcome = "valid_strict"
		}
		if res.OK {
			r.Case(p.cell, outcome, true)
			continue
		}
		sym := p.sym
		e := res.Errors[0]
		if p.strict && (e.Keyword == "unevaluatedProperties" || e.TopKeyword == "unevaluatedProperties") {
			sym = "undescribed_property"
		} else if p.strict {
			continue // already reported by the plain validation
		}
		class := p.inst.Class
		if i := strings.Index(class, ":"); i >= 0 {
			class = class[:i] + ":" + strings.ReplaceAll(class[i+1:], "+", "+")
		}
		r.Violate(p.cell+"#"+class, sym, fmt.Sprintf("%s: %s | instance=%s", p.what, e.String(), short(p.inst.Body+" "+p.inst.Target, 300)), map[string]any{"inst": p.inst})
		r.Case(p.cell, sym, true)
	}
	for _, p := range cp {
		res := results[p.id]
		if res.OK {
			r.Case(p.cell, "component_accepts_"+p.what, true)
			continue
		}
		r.Violate(p.cell+"#"+p.what, "component_unsatisfiable_"+p.what, res.Errors[0].String(), nil)
		r.Case(p.cell, "component_unsatisfiable_"+p.what, true)
	}
	r.Extra["instances"] = len(insts)
	r.Extra["validations"] = py.Len()
	if len(insts) > 0 {
		r.Sample(insts[0])
		r.Sample(insts[len(insts)/2])
	}
	r.States, r.Transitions, r.Traces = r.Evaluations, r.Evaluations, r.Evaluations
	r.Assumptions = []string{"python jsonschema 4.26 Draft 2020-12 without format assertion; strict transform: every value position gets unevaluatedProperties:false; request bodies come from the generated Go client only (TS client bodies: C08 bridge)"}
	return nil
}
