package checks

import (
	"encoding/base64"
	"encoding/json"
	"fmt"
	"os"
	"sort"
	"strings"

	"verif/mc/report"
	"verif/mc/rt"
	"verif/mc/ws"
)

type tsViolation struct {
	Field       string `json:"field"`
	Description string `json:"description"`
}

func violKey(vs []tsViolation) string {
	var l []string
	for _, v := range vs {
		l = append(l, v.Field+"\x00"+v.Description)
	}
	sort.Strings(l)
	return strings.Join(l, "\x01")
}

// c10TS hands every un-hooked JSON error response of the Go server to the generated TS client (client side of the
// property) and makes the handler of the generated TS server fail (server side): status, body and error type.
func c10TS(c *Ctx, r *report.Run, w *ws.Workspace, units []rt.JobUnit) error {
	var tsUnits []rt.JobUnit
	for _, ju := range units {
		if u := w.Unit(ju.Name); u != nil && oneServiceFile(u.Spec) && !hasTag(u.Spec, "genonly") {
			tsUnits = append(tsUnits, ju)
		}
	}
	raw, err := collectRaw(c, w, "c10", tsUnits, map[string]string{"stage": "tsclient"})
	if err != nil {
		return err
	}
	cases := map[string]*rt.ErrResp{}
	var order []string
	for _, rr := range raw {
		er := &rt.ErrResp{}
		if json.Unmarshal(rr, er) == nil && er.K == "errresp" {
			cases[er.ID] = er
			order = append(order, er.ID)
		}
	}
	sort.Strings(order)
	var ops []any
	firstOfRPC := map[string]*rt.ErrResp{}
	for _, id := range order {
		er := cases[id]
		u := w.Unit(er.Unit)
		if u == nil {
			continue
		}
		client, server := tsModules(u)
		if client == "" {
			continue
		}
		ops = append(ops, map[string]any{"op": "client_finish", "id": id, "client": client, "svc": er.Svc, "rpc": er.RPC, "reqObj": er.ReqObj,
			"resp": map[string]any{"status": er.Status, "headers": er.Headers, "bodyB64": base64.StdEncoding.EncodeToString(er.Body)}})
		k := er.Unit + "|" + er.Svc + "|" + er.RPC
		if firstOfRPC[k] == nil && server != "" {
			firstOfRPC[k] = er
		}
	}
	res, err := runNode(c, w, ops)
	if err != nil {
		return err
	}
	for _, id := range order {
		er := cases[id]
		a, ok := res[id]
		if !ok {
			continue
		}
		r.Evaluations++
		cellBase := er.CellBase + ",side=ts_client"
		cell := strings.Replace(er.Cell, "#", ",side=ts_client#", 1)
		if e := str(a, "error"); e != "" {
			r.Case(cellBase, "ts_client_unavailable", false) // C13 reports modules that do not load
			continue
		}
		th, thrown := a["thrown"].(map[string]any)
		if !thrown {
			r.Violate(cell, "client_error_type", fmt.Sprintf("TS client: status %d produced no error (result %v)", er.Status, a["result"]), er)
			r.Case(cellBase, "client_error_type", true)
			continue
		}
		name := fmt.Sprint(th["name"])
		if er.HasFields {
			var sv struct {
				Violations []tsViolation `json:"violations"`
			}
			json.Unmarshal(er.Body, &sv)
			if name != "ValidationError" {
				r.Violate(cell, "client_error_type", fmt.Sprintf("TS client: 400 with violations became %s: %v", name, th["message"]), er)
				r.Case(cellBase, "client_error_type", true)
				continue
			}
			var cv []tsViolation
			b, _ := json.Marshal(th["violations"])
			json.Unmarshal(b, &cv)
			if violKey(cv) != violKey(sv.Violations) {
				r.Violate(cell, "client_error_content", fmt.Sprintf("TS client: violations differ: server %v client %v", sv.Violations, cv), er)
				r.Case(cellBase, "client_error_content", true)
				continue
			}
			r.Case(cellBase, "client_validation_error", true)
			continue
		}
		status := -1
		if n, ok := th["statusCode"].(json.Number); ok {
			i, _ := n.Int64()
			status = int(i)
		}
		body := fmt.Sprint(th["body"])
		msg := fmt.Sprint(th["message"])
		switch {
		case status != er.Status:
			r.Violate(cell, "client_error_content", fmt.Sprintf("TS client: error %s carries status %d, the server answered %d", name, status, er.Status), er)
			r.Case(cellBase, "client_error_content", true)
		case body != string(er.Body) && !(er.Message != "" && strings.Contains(msg, er.Message)):
			r.Violate(cell, "client_error_content", fmt.Sprintf("TS client: error %s carries neither the body nor the message (body %q, message %q; server body %q)", name, short(body, 120), short(msg, 120), short(string(er.Body), 120)), er)
			r.Case(cellBase, "client_error_content", true)
		default:
			r.Case(cellBase, "client_error_carries_status_and_body", true)
		}
	}
	// TS client: the canned-response family - every failure status x every kind of body a server or an error hook may send.
	// Whatever arrives, the call must reject with one of the two documented error types: ValidationError (400 whose body lists
	// violations, same violations) or ApiError (same status, same body); never with anything else (TypeError, SyntaxError).
	{
		type canned struct {
			er             *rt.ErrResp
			status         int
			kind, body, ct string
		}
		bodies := [][3]string{
			{"violations", `{"violations":[{"field":"a.b","description":"d1"},{"field":"X-Hdr","description":"d2"}]}`, "application/json"},
			{"no_violations", `{"violations":[]}`, "application/json"},
			{"error_message", `{"message":"boom"}`, "application/json"},
			{"empty_object", `{}`, "application/json"},
			{"json_null", `null`, "application/json"},
			{"json_array", `[1,2]`, "application/json"},
			{"plain_text", `upstream said no`, "text/plain"},
			{"broken_json", `{"violations":`, "application/json"},
			{"empty", ``, ""},
		}
		cn := map[string]canned{}
		var cops []any
		var ks []string
		for k := range firstOfRPC {
			ks = append(ks, k)
		}
		sort.Strings(ks)
		seenUnit := map[string]bool{}
		for _, k := range ks {
			er := firstOfRPC[k]
			if seenUnit[er.Unit] {
				continue // one RPC per unit: handleError is one function per emitted module
			}
			seenUnit[er.Unit] = true
			client, _ := tsModules(w.Unit(er.Unit))
			for _, st := range []int{400, 401, 404, 409, 418, 422, 500, 503} {
				for _, b := range bodies {
					id := fmt.Sprintf("canned|%s|%d|%s", k, st, b[0])
					cn[id] = canned{er, st, b[0], b[1], b[2]}
					hs := map[string]string{}
					if b[2] != "" {
						hs["Content-Type"] = b[2]
					}
					cops = append(cops, map[string]any{"op": "client_finish", "id": id, "client": client, "svc": er.Svc, "rpc": er.RPC, "reqObj": er.ReqObj,
						"resp": map[string]any{"status": st, "headers": hs, "bodyB64": base64.StdEncoding.EncodeToString([]byte(b[1]))}})
				}
			}
		}
		cres, err := runNode(c, w, cops)
		if err != nil {
			return err
		}
		var ids []string
		for id := range cn {
			ids = append(ids, id)
		}
		sort.Strings(ids)
		for _, id := range ids {
			cc := cn[id]
			a, ok := cres[id]
			if !ok || str(a, "error") != "" {
				continue
			}
			r.Evaluations++
			cellBase := fmt.Sprintf("%s,rpc=%s.%s,side=ts_client,status=%d", w.Unit(cc.er.Unit).Spec.Cell, cc.er.Svc, cc.er.RPC, cc.status)
			cell := cellBase + "#canned:" + cc.kind
			th, thrown := a["thrown"].(map[string]any)
			if !thrown {
				r.Violate(cell, "client_error_type", fmt.Sprintf("TS client: status %d with body %q produced no error (result %v)", cc.status, cc.body, a["result"]), cc)
				continue
			}
			name := fmt.Sprint(th["name"])
			status := -1
			if n, ok := th["statusCode"].(json.Number); ok {
				i, _ := n.Int64()
				status = int(i)
			}
			switch name {
			case "ValidationError":
				var sv struct {
					Violations []tsViolation `json:"violations"`
				}
				json.Unmarshal([]byte(cc.body), &sv)
				var cv []tsViolation
				b, _ := json.Marshal(th["violations"])
				json.Unmarshal(b, &cv)
				if cc.status != 400 || (cc.kind != "violations" && cc.kind != "no_violations") || violKey(cv) != violKey(sv.Violations) {
					r.Violate(cell, "client_error_type", fmt.Sprintf("TS client: status %d with body %q became a ValidationError with violations %v", cc.status, cc.body, cv), cc)
				} else {
					r.Case(cellBase, "client_validation_error", true)
				}
			case "ApiError":
				if status != cc.status || fmt.Sprint(th["body"]) != cc.body {
					r.Violate(cell, "client_error_content", fmt.Sprintf("TS client: ApiError carries status %d body %q, the server answered %d %q", status, short(fmt.Sprint(th["body"]), 80), cc.status, cc.body), cc)
				} else if cc.status == 400 && cc.kind == "violations" {
					r.Violate(cell, "client_error_type", "TS client: a 400 listing violations became an ApiError", cc)
				} else {
					r.Case(cellBase, "client_error_carries_status_and_body", true)
				}
			default:
				r.Violate(cell, "client_error_type", fmt.Sprintf("TS client: status %d with body %q rejected with %s: %v (neither ValidationError nor ApiError)", cc.status, cc.body, name, th["message"]), cc)
			}
		}
	}
	// TS server: a failing handler
	ops = nil
	var keys []string
	for k := range firstOfRPC {
		keys = append(keys, k)
	}
	sort.Strings(keys)
	type hcase struct {
		er   *rt.ErrResp
		kind string
	}
	hcases := map[string]hcase{}
	for _, k := range keys {
		er := firstOfRPC[k]
		_, server := tsModules(w.Unit(er.Unit))
		if er.ValidReq == nil {
			continue
		}
		id := k + "|throw"
		hcases[id] = hcase{er, "handler_error"}
		ops = append(ops, map[string]any{"op": "server_handle", "id": id, "server": server, "svc": er.Svc, "req": er.ValidReq, "respObj": map[string]any{}, "handlerThrows": "handler-boom-Ω"})
		id = k + "|throwval"
		hcases[id] = hcase{er, "handler_validation_error"}
		ops = append(ops, map[string]any{"op": "server_handle", "id": id, "server": server, "svc": er.Svc, "req": er.ValidReq, "respObj": map[string]any{},
			"handlerThrowsValidation": []map[string]string{{"field": "a.b[0].c", "description": "from handler"}, {"field": "X-Hdr", "description": "second"}}})
		id = k + "|hook"
		hcases[id] = hcase{er, "handler_error_hooked"}
		ops = append(ops, map[string]any{"op": "server_handle", "id": id, "server": server, "svc": er.Svc, "req": er.ValidReq, "respObj": map[string]any{}, "handlerThrows": "handler-boom-Ω",
			"onError": map[string]any{"status": 418, "headers": map[string]string{"X-Hook": "1", "Content-Type": "application/json"}}})
	}
	// a validation failure stays a 400 with its violations when an onError hook is configured: the hook shapes other errors
	for _, k := range keys {
		er := firstOfRPC[k]
		if er.ValidReq == nil {
			continue
		}
		_, server := tsModules(w.Unit(er.Unit))
		id := k + "|throwval+hook"
		hcases[id] = hcase{er, "handler_validation_error_hooked"}
		ops = append(ops, map[string]any{"op": "server_handle", "id": id, "server": server, "svc": er.Svc, "req": er.ValidReq, "respObj": map[string]any{},
			"handlerThrowsValidation": []map[string]string{{"field": "a.b[0].c", "description": "from handler"}, {"field": "X-Hdr", "description": "second"}},
			"onError":                 map[string]any{"status": 418, "headers": map[string]string{"X-Hook": "1", "Content-Type": "application/json"}}})
	}
	res, err = runNode(c, w, ops)
	if err != nil {
		return err
	}
	if os.Getenv("VERIF_DEBUG") != "" {
		fmt.Fprintf(os.Stderr, "c10ts: %d handler ops, %d answers, %d rpcs\n", len(ops), len(res), len(keys))
		for id, a := range res {
			fmt.Fprintf(os.Stderr, "  %s -> %v\n", id, a)
			break
		}
	}
	for id, hc := range hcases {
		a, ok := res[id]
		if !ok {
			continue
		}
		r.Evaluations++
		cellBase := fmt.Sprintf("%s,side=ts_server", hc.er.CellBase)
		cell := cellBase + "#handler_error"
		if str(a, "error") != "" || a["noRoute"] == true {
			r.Case(cellBase, "ts_server_unavailable_or_routes_elsewhere", false)
			continue
		}
		if a["handled"] == nil {
			r.Case(cellBase, "request_rejected_before_handler", false) // header/validation disagreement is C08/C09's subject
			continue
		}
		if th, ok := a["thrown"].(map[string]any); ok {
			r.Violate(cell, "ts_server_threw", fmt.Sprintf("the route handler let the handler's error escape: %v", th["message"]), nil)
			r.Case(cellBase, "ts_server_threw", true)
			continue
		}
		status := 0
		if n, ok := a["status"].(json.Number); ok {
			i, _ := n.Int64()
			status = int(i)
		}
		body, _ := base64.StdEncoding.DecodeString(str(a, "bodyB64"))
		cell = cellBase + "#" + hc.kind
		switch hc.kind {
		case "handler_error":
			switch {
			case status != 500:
				r.Violate(cell, "wrong_status", fmt.Sprintf("TS server: handler error -> %d %s", status, short(string(body), 160)), nil)
				r.Case(cellBase, "wrong_status", true)
			case !strings.Contains(string(body), "handler-boom-Ω"):
				r.Violate(cell, "body_differs", fmt.Sprintf("TS server: 500 body does not carry the handler's message: %s", short(string(body), 160)), nil)
				r.Case(cellBase, "body_differs", true)
			default:
				r.Case(cellBase, "handler_error_500_with_message", true)
			}
		case "handler_validation_error", "handler_validation_error_hooked":
			var sv struct {
				Violations []tsViolation `json:"violations"`
			}
			json.Unmarshal(body, &sv)
			want := []tsViolation{{"a.b[0].c", "from handler"}, {"X-Hdr", "second"}}
			switch {
			case status != 400:
				r.Violate(cell, "wrong_status", fmt.Sprintf("TS server: ValidationError from the handler -> %d %s", status, short(string(body), 160)), nil)
				r.Case(cellBase, "wrong_status", true)
			case violKey(sv.Violations) != violKey(want):
				r.Violate(cell, "body_differs", fmt.Sprintf("TS server: 400 body does not list the handler's violations: %s", short(string(body), 160)), nil)
				r.Case(cellBase, "body_differs", true)
			default:
				r.Case(cellBase, hc.kind+"_400", true)
			}
		case "handler_error_hooked":
			hs, _ := a["headers"].(map[string]any)
			switch {
			case status != 418:
				r.Violate(cell, "hook_status_ignored", fmt.Sprintf("TS server: onError answered 418, the route answered %d %s", status, short(string(body), 160)), nil)
				r.Case(cellBase, "hook_status_ignored", true)
			case fmt.Sprint(hs["x-hook"]) != "1":
				r.Violate(cell, "hook_header_lost", fmt.Sprintf("TS server: onError's header X-Hook is missing: %v", hs), nil)
				r.Case(cellBase, "hook_header_lost", true)
			case !strings.Contains(string(body), "hooked") || !strings.Contains(string(body), "handler-boom-Ω"):
				r.Violate(cell, "hook_body_ignored", fmt.Sprintf("TS server: onError's body was not used: %s", short(string(body), 160)), nil)
				r.Case(cellBase, "hook_body_ignored", true)
			default:
				r.Case(cellBase, "hook_overrides_status_headers_body", true)
			}
		}
	}
	return nil
}
