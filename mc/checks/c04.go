package checks

import (
	"verif/mc/report"
	"verif/mc/rt"
	"verif/mc/spec"
	"verif/mc/univ"
	"verif/mc/ws"
)

func init() {
	Registry["C04"] = C04
	Registry["C05"] = C05
	Registry["C01"] = C01
}

func codecSpecs(c *Ctx) []*spec.Spec {
	var out []*spec.Spec
	for _, s := range buildUniverse(c) {
		if hasTag(s, "codec") {
			out = append(out, s)
		}
	}
	// F-pair: two codec features in one message (units the Go plugins refuse are listed under blocked_units)
	out = append(out, univ.PairSpecs(c.Thorough)...)
	return out
}

// C04: generated Go JSON codecs round-trip every message value.
func C04(c *Ctx, r *report.Run) error {
	r.Rule = "for every message of every codec unit (each JSON-mapping annotation on the cardinalities it is documented with, plus context/combination families) the value space is enumerated exhaustively (full product when small, else every point with <= d non-default fields; d reported per message) and each value goes through (a) Unmarshal(Marshal(v)), (b) Unmarshal(M-json canonical(v)), (c) Unmarshal(M-json explicit(v)) via the entry point server and client really use (json.Marshaler/Unmarshaler if generated, else protojson), on the go-http build and on the go-client-only build; non-trivial = value has >=1 non-default field; distinct = (unit, message, outcome)"
	specs := codecSpecs(c)
	r.Programs = len(specs)
	for _, v := range []ws.Variant{ws.H, ws.C} {
		w, err := ws.Build(c.Bins, specs, ws.Options{Variant: v, Tag: "rt" + string(v), Harness: true})
		if err != nil {
			return err
		}
		units := blocked(r, w, "C04")
		for i := range units {
			units[i].Cell += ",build=" + string(v)
		}
		if err := RunHarness(c, w, r, "c04", units, nil, specIndex(w)); err != nil {
			return err
		}
	}
	r.States, r.Transitions, r.Traces = r.Evaluations, r.Evaluations*3, r.Evaluations
	r.Assumptions = []string{"M-json (mc/model/mjson.go) is the documented mapping; with all annotations absent it is bound to protojson by the C05 self-check",
		"documented losses are exactly those of model.Normalise (timestamp truncation, empty message presence under OMIT/NULL/flatten, map-value unwrap siblings)"}
	return nil
}

// C05: the JSON the Go server sends and accepts is the documented mapping at any depth.
func C05(c *Ctx, r *report.Run) error {
	r.Rule = "for every body-carrying echo RPC of every codec unit, every enumerated value v of the response type is returned by the handler and the response bytes are compared as a JSON value with M-json(v); every enumerated value of the request type is sent as M-json(v) and the message the handler receives is compared with v up to documented losses; non-trivial = value has >=1 non-default field; distinct = (unit, rpc, direction, outcome)"
	specs := codecSpecs(c)
	r.Programs = len(specs)
	w, err := ws.Build(c.Bins, specs, ws.Options{Variant: ws.H, Tag: "rtH", Harness: true})
	if err != nil {
		return err
	}
	units := blocked(r, w, "C05")
	if err := RunHarness(c, w, r, "c05", units, nil, specIndex(w)); err != nil {
		return err
	}
	r.States, r.Transitions, r.Traces = r.Evaluations, r.Evaluations, r.Evaluations
	r.Assumptions = []string{"M-json is written from proto/sebuf/http/annotations.proto comments, CLAUDE.md and docs/json-protobuf-compatibility.md (DESIGN appendix F)"}
	return nil
}

func serviceSpecs(c *Ctx) []*spec.Spec {
	var out []*spec.Spec
	for _, s := range buildUniverse(c) {
		has := false
		for _, f := range s.Files {
			if len(f.Services) > 0 {
				has = true
			}
		}
		if has && hasTag(s, "valid") && !hasTag(s, "genonly") {
			out = append(out, s)
		}
	}
	return out
}

// C01: Go client -> Go server delivers exact request and response.
func C01(c *Ctx, r *report.Run) error {
	r.Rule = "for every RPC of every unit (REST verbs, path/query/body placement, codec units as request and response types) x content type {json, x-protobuf}: every enumerated request value (URL-bound fields non-empty) with a populated scripted response, and every enumerated response value with the base request, goes generated client -> in-process wire (request/response serialised to bytes and re-parsed) -> generated server -> recording handler; non-trivial = value has >=1 non-default field; distinct = (unit, rpc, content type, outcome)"
	var specs []*spec.Spec
	for _, s := range serviceSpecs(c) {
		if !hasTag(s, "ctx") && !hasTag(s, "serveronly") { // nesting contexts of annotated messages are C04/C05's subject; serveronly units have no compilable client (C13)
			specs = append(specs, s)
		}
	}
	r.Programs = len(specs)
	w, err := ws.Build(c.Bins, specs, ws.Options{Variant: ws.HC, Tag: "rtHC", Harness: true})
	if err != nil {
		return err
	}
	units := blocked(r, w, "C01")
	if err := RunHarness(c, w, r, "c01", units, nil, specIndex(w)); err != nil {
		return err
	}
	r.States, r.Transitions, r.Traces = r.Evaluations, r.Evaluations, r.Evaluations
	return nil
}

func init() { Registry["C09"] = C09 }

// C09: requests are dispatched only when every required header is present and valid.
func C09(c *Ctx, r *report.Run) error {
	r.Rule = "for every RPC of every unit with header declarations (service, method, both, override of the same name; types string/integer/number/boolean/array; formats uuid/email/date-time/date/time): every must-accept exemplar of M-hdr per header, and every non-empty subset (<=4 headers) of the required headers made bad in every way {absent, empty, each must-reject exemplar} x body {valid, malformed}, sent as raw requests to the generated Go server; oracle: 400 + violation set == offending header names + handler not run + zero body reads before the verdict, resp. not rejected for the header; distinct = (unit, rpc, outcome)"
	var specs []*spec.Spec
	for _, s := range serviceSpecs(c) {
		if !hasTag(s, "route") { // raw requests are sent to the documented path; route-configuration corner cases are C03's subject
			specs = append(specs, s)
		}
	}
	r.Programs = len(specs)
	w, err := ws.Build(c.Bins, specs, ws.Options{Variant: ws.H, Tag: "rtH2ts", Harness: true, TS: true})
	if err != nil {
		return err
	}
	units := blocked(r, w, "C09")
	if err := RunHarness(c, w, r, "c09", units, nil, specIndex(w)); err != nil {
		return err
	}
	// the same cases against the generated TS server (single-file units: one server module per unit)
	var tsUnits []rt.JobUnit
	for _, ju := range units {
		if u := w.Unit(ju.Name); u != nil && oneServiceFile(u.Spec) && !hasTag(u.Spec, "genonly") {
			tsUnits = append(tsUnits, ju)
		}
	}
	if err := c09TS(c, r, w, tsUnits); err != nil {
		return err
	}
	r.States, r.Transitions, r.Traces = r.Evaluations, r.Evaluations, r.Evaluations
	r.Assumptions = []string{"M-hdr exemplars: must-accept values are valid per the OpenAPI type/format published for the header (RFC 3339 full-time for format time), must-reject values are not well-formed; values in neither set are not judged",
		"the TS server receives the same cases through the node bridge (fetch Request objects); header values the Fetch API cannot carry unchanged (control bytes, non-UTF-8, surrounding whitespace) are sent to the Go server only; 'decided before the body is read' is observed on the Go server by counting body reads, on the TS server by the malformed-body cases answering with the header violations"}
	return nil
}

func init() { Registry["C02"] = C02 }

// C02: URL-carried fields reach the handler with the URL's value, for every verb.
func C02(c *Ctx, r *report.Run) error {
	r.Rule = "for every RPC with path variables and/or query parameters (verbs GET/POST/PUT/DELETE/PATCH, every scalar kind the generators accept, singular/optional/repeated query fields, renamed and required parameters) x every URL-bound field x URL value {every boundary value of the kind, zero, malformed and out-of-range spellings, missing required/optional, repeated occurrence} x body {absent, empty, {}, object omitting the URL-bound fields}: raw request to the generated Go server and to the generated TS server (node bridge); oracle = M-pipe: valid -> handler runs once and sees the URL's value in every URL-bound field; unconvertible / missing required -> 400 with a violation naming the field and no dispatch; distinct = (unit, rpc, slot, outcome)"
	var specs []*spec.Spec
	for _, s := range serviceSpecs(c) {
		if !hasTag(s, "ctx") && !hasTag(s, "route") {
			specs = append(specs, s)
		}
	}
	r.Programs = len(specs)
	w, err := ws.Build(c.Bins, specs, ws.Options{Variant: ws.H, Tag: "rtH2ts", Harness: true, TS: true})
	if err != nil {
		return err
	}
	units := blocked(r, w, "C02")
	if err := RunHarness(c, w, r, "c02", units, nil, specIndex(w)); err != nil {
		return err
	}
	// the same cases against the generated TS server (single-file units: one server module per unit)
	var tsUnits []rt.JobUnit
	for _, ju := range units {
		if u := w.Unit(ju.Name); u != nil && oneServiceFile(u.Spec) && !hasTag(u.Spec, "genonly") {
			tsUnits = append(tsUnits, ju)
		}
	}
	if err := c02TS(c, r, w, tsUnits); err != nil {
		return err
	}
	r.States, r.Transitions, r.Traces = r.Evaluations, r.Evaluations, r.Evaluations
	r.Assumptions = []string{"a repeated occurrence of a singular query parameter is not judged (the contract does not say which occurrence wins); empty path segments and the dot segments '.' and '..' are not sent",
		"the same raw requests go to the generated TS server through the node bridge (fetch Request objects): the handler's argument is observed as JSON, so non-finite floats and numbers beyond 2^53 are not judged there, a 64-bit value may arrive as a decimal string or a number of the same value, and an absent member counts as the zero value"}
	return nil
}

func init() { Registry["C10"] = C10 }

// C10: errors surface with the documented status, body, format and client-side type.
func C10(c *Ctx, r *report.Run) error {
	r.Rule = "M-pipe error paths: for every RPC x every applicable error source {missing required header, unconvertible path value, missing required query parameter, malformed body, every single-deviation rule violation (nested / repeated / map field paths), plain handler error, sebuf Error, ValidationError from the handler, custom *Error message, wrapped custom error} x request content type {json, x-protobuf, octet-stream} x error hook {none} + all 16 subsets of {set header, WriteHeader(418), return message, write body}: raw request to the generated Go server, response compared with the model (status, encoding, decoded body, violation field set, hook effects, handler ran or not); the un-hooked response is then fed to the generated Go client and the returned error is compared (ValidationError with the same violations / error carrying the message); distinct = (unit, rpc, source, content type, outcome)"
	var specs []*spec.Spec
	for _, s := range serviceSpecs(c) {
		if !hasTag(s, "ctx") && !hasTag(s, "codec") && !hasTag(s, "route") {
			specs = append(specs, s)
		}
	}
	r.Programs = len(specs)
	var both, serverOnly []*spec.Spec
	for _, s := range specs {
		if hasTag(s, "serveronly") {
			serverOnly = append(serverOnly, s)
		} else {
			both = append(both, s)
		}
	}
	w, err := ws.Build(c.Bins, both, ws.Options{Variant: ws.HC, Tag: "rtHC10ts", Harness: true, TS: true})
	if err != nil {
		return err
	}
	units := blocked(r, w, "C10")
	if err := RunHarness(c, w, r, "c10", units, nil, specIndex(w)); err != nil {
		return err
	}
	if err := c10TS(c, r, w, units); err != nil {
		return err
	}
	if len(serverOnly) > 0 {
		// units whose go-client output does not compile (C13 finding): the server half is still checked
		w2, err := ws.Build(c.Bins, serverOnly, ws.Options{Variant: ws.H, Tag: "rtH10", Harness: true})
		if err != nil {
			return err
		}
		if err := RunHarness(c, w2, r, "c10", blocked(r, w2, "C10"), nil, specIndex(w2)); err != nil {
			return err
		}
	}
	// model size: states = stages x outcomes, transitions = enumerated paths
	r.States = 9 + 17
	r.Transitions = r.Evaluations
	r.Traces = r.Evaluations
	r.Assumptions = []string{"M-pipe/M-err as in DESIGN appendix A: which of several offending URL/header names is reported is not fixed; Content-Type is asserted only when the hook did not call WriteHeader; a wrapped custom error may be serialised either as the custom message or as Error{message}",
		"rule semantics come from the protovalidate stand-in (shared by server and oracle); what is checked is status, encoding and the conversion to dotted field paths",
		"TS side (node bridge): every un-hooked JSON error response of the Go server is handed to the generated TS client (400 with violations -> ValidationError with the same violations; anything else -> ApiError with the same status and the body); the generated TS server is given a failing handler (-> 500 carrying the message); TS speaks JSON only and has no error hook"}
	return nil
}

func init() { Registry["C11"] = C11 }

// C11: malformed traffic is rejected cleanly and never crashes server or client.
func C11(c *Ctx, r *report.Run) error {
	r.Rule = "for every body-carrying echo route of the codec units (one per generated decoder family) and of plain units: (a) every string of length <= L over a 17-symbol JSON token alphabet (L=4 quick, 5 thorough), (b) every byte string of length <= 2 (quick) / 3 (thorough) as binary protobuf, (c) every single mutation (truncation at each byte, each JSON node replaced by 12 hostile values, number<->string, unknown key, duplicate key; protobuf truncations and bit flips) of two valid bodies, sent to the generated Go server; oracle: never panic, never 5xx, 400 carries a decodable ValidationError, a syntactically invalid body is never dispatched, a dispatched request equals the reference decoding (protojson / proto.Unmarshal) or accounts for every member of the body; then every response in status x content-type x body is fed to the generated Go client: no panic, and no success on an undecodable 2xx body; distinct = (unit, rpc, class, outcome)"
	// core units get the full alphabet enumeration; the extended codec units (every annotation on every cardinality, nested
	// declarations, variant shapes, ...) get the mutation classes and the short strings only
	var specs []*spec.Spec
	mutOnly := map[string]bool{}
	for _, s := range serviceSpecs(c) {
		switch {
		case hasTag(s, "core"):
			specs = append(specs, s)
		case hasTag(s, "extended") && hasTag(s, "codec") && hasTag(s, "valid"):
			specs = append(specs, s)
			mutOnly[s.Name] = true
		}
	}
	// ... and F-pair: two codec features in one message (two discriminated oneofs, a oneof beside a flattened child, ...):
	// an error in the part decoded first must not be forgotten when a later part decodes cleanly
	for _, s := range univ.PairSpecs(c.Thorough) {
		specs = append(specs, s)
		mutOnly[s.Name] = true
	}
	r.Programs = len(specs)
	w, err := ws.Build(c.Bins, specs, ws.Options{Variant: ws.HC, Tag: "rtHC11", Harness: true})
	if err != nil {
		return err
	}
	units := blocked(r, w, "C11")
	// one unit per shard entry: split services' methods so that work spreads over the cores
	var split []rt.JobUnit
	for _, u := range units {
		for _, s := range u.Services {
			for _, m := range s.Methods {
				nu := u
				nu.Services = []rt.JobService{{Name: s.Name, Methods: []rt.JobMethod{m}}}
				split = append(split, nu)
			}
		}
	}
	// all byte strings of length 3 (16.8M per route) only on two representative routes in the thorough tier
	var deep, rest, muts []rt.JobUnit
	for _, u := range split {
		m := u.Services[0].Methods[0].Name
		if mutOnly[u.Name] {
			muts = append(muts, u)
		} else if c.Thorough && (m == "EchoInt64EncodingTest" || m == "Get") {
			deep = append(deep, u)
		} else {
			rest = append(rest, u)
		}
	}
	if err := RunHarness(c, w, r, "c11", rest, nil, specIndex(w)); err != nil {
		return err
	}
	if len(deep) > 0 {
		if err := RunHarness(c, w, r, "c11", deep, map[string]string{"maxB": "3"}, specIndex(w)); err != nil {
			return err
		}
	}
	if len(muts) > 0 {
		if err := RunHarness(c, w, r, "c11", muts, map[string]string{"maxL": "2", "maxB": "1"}, specIndex(w)); err != nil {
			return err
		}
	}
	if err := RunHarness(c, w, r, "c11client", split, nil, specIndex(w)); err != nil {
		return err
	}
	r.States, r.Transitions, r.Traces = r.Evaluations, r.Evaluations, r.Evaluations
	r.Assumptions = []string{"an empty body (length 0) is read as 'no body' and may be dispatched as the default message", "duplicate JSON keys are not judged",
		"bodies longer than L tokens / more than one mutation away from a valid body are not covered"}
	return nil
}
