package checks

import (
	"fmt"
	"sort"
	"strings"
	"verif/mc/univ"

	"google.golang.org/protobuf/reflect/protoreflect"

	"verif/mc/model"
	"verif/mc/plug"
	"verif/mc/report"
	"verif/mc/spec"
)

func init() { Registry["C18"] = C18 }

type oasDoc struct {
	s       *spec.Spec
	l       *spec.Lowered
	service string
	file    string // file declaring the service
	format  string // param
	name    string
	content string
	value   any
	id      string
}

// genOAS runs the OpenAPI plugin on a spec for one parameter and loads every emitted document.
func genOAS(c *Ctx, s *spec.Spec, l *spec.Lowered, param string) ([]*oasDoc, *plug.Result, error) {
	res := plug.Run(c.Bins.Path("protoc-gen-openapiv3"), l.Request(param, nil))
	if !res.Answered() || res.Err() != "" {
		return nil, res, nil
	}
	var docs []*oasDoc
	files := res.Files()
	var names []string
	for n := range files {
		names = append(names, n)
	}
	sort.Strings(names)
	for _, n := range names {
		v, err := model.LoadOAS(n, files[n])
		d := &oasDoc{s: s, l: l, format: param, name: n, content: files[n], value: v, id: s.Name + "|" + param + "|" + n}
		if err != nil {
			d.value = nil
		}
		d.service = strings.SplitN(n, ".openapi.", 2)[0]
		docs = append(docs, d)
	}
	return docs, res, nil
}

// reachableMessages walks the descriptor from the service's RPCs.
func reachableMessages(files interface {
	FindDescriptorByName(protoreflect.FullName) (protoreflect.Descriptor, error)
}, svc protoreflect.ServiceDescriptor) []protoreflect.MessageDescriptor {
	seen := map[protoreflect.FullName]bool{}
	var out []protoreflect.MessageDescriptor
	var walk func(md protoreflect.MessageDescriptor)
	walk = func(md protoreflect.MessageDescriptor) {
		if seen[md.FullName()] || md.IsMapEntry() || md.FullName() == "google.protobuf.Timestamp" {
			return
		}
		seen[md.FullName()] = true
		out = append(out, md)
		for i := 0; i < md.Fields().Len(); i++ {
			fd := md.Fields().Get(i)
			switch {
			case fd.IsMap():
				if fd.MapValue().Kind() == protoreflect.MessageKind {
					walk(fd.MapValue().Message())
				}
			case fd.Kind() == protoreflect.MessageKind || fd.Kind() == protoreflect.GroupKind:
				walk(fd.Message())
			}
		}
	}
	for i := 0; i < svc.Methods().Len(); i++ {
		m := svc.Methods().Get(i)
		walk(m.Input())
		walk(m.Output())
	}
	return out
}

// componentFor finds the component schema name used for a message.
func componentFor(doc any, md protoreflect.MessageDescriptor) (string, bool) {
	schemas, _ := model.Ptr(doc, "/components/schemas")
	sm, _ := schemas.(map[string]any)
	full := string(md.FullName())
	rel := full
	if pkg := string(md.ParentFile().Package()); pkg != "" {
		rel = strings.TrimPrefix(full, pkg+".")
	}
	for _, cand := range []string{string(md.Name()), rel, strings.ReplaceAll(rel, ".", "_"), strings.ReplaceAll(rel, ".", ""), full} {
		if _, ok := sm[cand]; ok {
			return cand, true
		}
	}
	return "", false
}

// C18: each OpenAPI document is well-formed, complete and format-independent.
func C18(c *Ctx, r *report.Run) error {
	r.Rule = "every spec with services of the universe (core, contexts, multi-file, same-named nested types, recursive types) x format {default, yaml, yml, json}: the emitted documents are decoded (YAML by yaml/v4 node + core-schema tags, JSON by encoding/json) and checked structurally against OAS 3.1 (required members, every $ref resolves, path template variables <-> required path parameters one-to-one, (name,in) unique, operationId unique, every message reachable from the RPCs has a component schema, one document per service); every component and parameter schema passes the Draft 2020-12 metaschema; YAML and JSON renderings are equal as JSON values; distinct = (unit, service, check, outcome)"
	var specs []*spec.Spec
	// F-rules too: documents full of numeric and string literals (bounds beyond 2^53 and 2^63, look-alike strings, fractions)
	// are where the YAML and JSON renderings of one service can drift apart
	ruleSpecs, _ := univ.RuleSpecs(c.Thorough)
	for _, s := range append(append(append(buildUniverse(c), univ18()...), univ.PairSpecs(c.Thorough)...), ruleSpecs...) {
		if !hasTag(s, "valid") {
			continue
		}
		for _, f := range s.Files {
			if len(f.Services) > 0 {
				specs = append(specs, s)
				break
			}
		}
	}
	r.Programs = len(specs)
	py := NewPyBatch()
	type pend struct {
		id           int
		cell, detail string
		replay       any
	}
	var pending []pend
	for _, s := range specs {
		l := mustLower(s)
		byFormat := map[string][]*oasDoc{}
		for _, param := range []string{"", "format=yaml", "format=yml", "format=json"} {
			docs, res, _ := genOAS(c, s, l, param)
			cellF := fmt.Sprintf("%s,format=%s", s.Cell, paramKey(param))
			if docs == nil {
				r.Violate(cellF, "not_generated", res.Err()+res.Symptom()+short(res.Stderr, 200), map[string]any{"spec": s, "param": param})
				continue
			}
			byFormat[param] = docs
			// one document per service, named <Service>.openapi.<ext>
			ext := "yaml"
			if param == "format=json" {
				ext = "json"
			}
			want := map[string]bool{}
			for _, f := range s.Files {
				gen := false
				for _, g := range s.GenerateList() {
					if g == f.Path {
						gen = true
					}
				}
				if !gen {
					continue
				}
				for _, sv := range f.Services {
					want[sv.Name+".openapi."+ext] = true
				}
			}
			got := map[string]bool{}
			for _, d := range docs {
				got[d.name] = true
			}
			if fmt.Sprint(sortedKeys(want)) != fmt.Sprint(sortedKeys(got)) {
				r.Violate(cellF, "wrong_file_set", fmt.Sprintf("want %v, got %v", sortedKeys(want), sortedKeys(got)), map[string]any{"spec": s, "param": param})
				r.Case(cellF, "wrong_file_set", true)
			} else {
				r.Case(cellF, "file_set_ok", true)
			}
			for _, d := range docs {
				cell := fmt.Sprintf("%s,service=%s,format=%s", s.Cell, d.service, paramKey(param))
				replay := map[string]any{"spec": s, "param": param, "document": d.name}
				if d.value == nil {
					r.Violate(cell, "document_unparseable", d.name, replay)
					continue
				}
				c18Structure(r, cell, d, replay)
				if param == "" || param == "format=json" {
					py.Doc(d.id, d.value)
					schemas, _ := model.Ptr(d.value, "/components/schemas")
					if sm, ok := schemas.(map[string]any); ok {
						for _, name := range sortedKeysAny(sm) {
							id := py.CheckSchema(d.id, "/components/schemas/"+model.PtrEscape(name))
							pending = append(pending, pend{id, cell + ",component=" + name, "component " + name, replay})
						}
					}
					for _, op := range model.Operations(d.value) {
						for _, p := range op.Params {
							if p.Schema != nil {
								id := py.CheckSchema(d.id, p.Ptr+"/schema")
								pending = append(pending, pend{id, cell + ",param=" + p.Name, "parameter " + p.Name + " of " + op.OperationID, replay})
							}
						}
					}
				}
			}
		}
		// YAML rendering == JSON rendering
		for _, yd := range byFormat[""] {
			for _, jd := range byFormat["format=json"] {
				if yd.service != jd.service || yd.value == nil || jd.value == nil {
					continue
				}
				cell := fmt.Sprintf("%s,service=%s", s.Cell, yd.service)
				if d := model.Diff(jd.value, yd.value); d != "" {
					r.Violate(cell, "yaml_json_differ", d, map[string]any{"spec": s, "service": yd.service})
					r.Case(cell, "yaml_json_differ", true)
				} else {
					r.Case(cell, "yaml_equals_json", true)
				}
			}
		}
		if len(r.Samples) < 4 && len(byFormat[""]) > 0 {
			r.Sample(map[string]any{"cell": s.Cell, "documents": len(byFormat[""]), "first": byFormat[""][0].name, "bytes": len(byFormat[""][0].content)})
		}
	}
	results, err := py.Run(c)
	if err != nil {
		return err
	}
	for _, p := range pending {
		res := results[p.id]
		if res.OK {
			r.Case(p.cell, "metaschema_valid", true)
			continue
		}
		r.Violate(p.cell, "metaschema_invalid", p.detail+": "+res.Errors[0].String(), p.replay)
		r.Case(p.cell, "metaschema_invalid", true)
	}
	r.States, r.Transitions, r.Traces = r.Evaluations, r.Evaluations, r.Evaluations
	r.Assumptions = []string{"structural rules are taken from the OpenAPI 3.1 text; YAML is read with go.yaml.in/yaml/v4 and interpreted by the YAML 1.2 core schema; JSON Schema metaschema validation by python jsonschema 4.26"}
	return nil
}

func sortedKeys(m map[string]bool) []string {
	var out []string
	for k := range m {
		out = append(out, k)
	}
	sort.Strings(out)
	return out
}

func sortedKeysAny(m map[string]any) []string {
	var out []string
	for k := range m {
		out = append(out, k)
	}
	sort.Strings(out)
	return out
}

func c18Structure(r *report.Run, cell string, d *oasDoc, replay any) {
	doc := d.value
	bad := func(sym, detail string) {
		r.Violate(cell+"#"+sym, sym, detail, replay)
		r.Case(cell, sym, true)
	}
	ok := func(what string) { r.Case(cell, what, true) }
	root, _ := doc.(map[string]any)
	if v, _ := root["openapi"].(string); !strings.HasPrefix(v, "3.1") {
		bad("oas_required_member_missing", fmt.Sprintf("openapi: %v", root["openapi"]))
	}
	info, _ := root["info"].(map[string]any)
	if _, ok := info["title"].(string); !ok {
		bad("oas_required_member_missing", "info.title")
	}
	if _, ok := info["version"].(string); !ok {
		bad("oas_required_member_missing", "info.version")
	}
	if _, ok := root["paths"].(map[string]any); !ok {
		if _, ok2 := root["components"]; !ok2 {
			bad("oas_required_member_missing", "neither paths nor components")
		}
	}
	// path templates: "The field name MUST begin with a forward slash"
	if paths, ok2 := root["paths"].(map[string]any); ok2 {
		slashless := 0
		for _, k := range sortedKeysAny(paths) {
			if !strings.HasPrefix(k, "/") && !strings.HasPrefix(k, "x-") {
				bad("path_key_without_leading_slash", fmt.Sprintf("paths key %q", k))
				slashless++
			}
		}
		if slashless == 0 {
			ok("path_keys_begin_with_slash")
		}
	}
	// refs
	refs := map[string]string{}
	model.Refs(doc, "", refs)
	dangling := 0
	for at, ref := range refs {
		if !strings.HasPrefix(ref, "#/") {
			bad("dangling_ref", at+": "+ref)
			dangling++
			continue
		}
		if _, found := model.Ptr(doc, ref[1:]); !found {
			bad("dangling_ref", at+": "+ref)
			dangling++
		}
	}
	if dangling == 0 {
		ok("refs_resolve")
	}
	// operations
	ids := map[string]int{}
	for _, op := range model.Operations(doc) {
		ids[op.OperationID]++
		vars := model.PathTemplateVars(op.Path)
		declared := map[string]int{}
		seenNI := map[string]int{}
		for _, p := range op.Params {
			seenNI[p.In+":"+p.Name]++
			if p.In == "path" {
				declared[p.Name]++
				if !p.Required {
					bad("path_param_not_required", op.OperationID+": "+p.Name)
				}
			}
		}
		for k, n := range seenNI {
			if n > 1 {
				bad("param_duplicate", op.OperationID+": "+k)
			}
		}
		varSet := map[string]bool{}
		for _, v := range vars {
			varSet[v] = true
			if declared[v] != 1 {
				bad("path_var_undeclared", fmt.Sprintf("%s %s: {%s} declared %d times", op.Verb, op.Path, v, declared[v]))
			}
		}
		for n := range declared {
			if !varSet[n] {
				bad("path_param_unused", fmt.Sprintf("%s %s: path parameter %s not in the template", op.Verb, op.Path, n))
			}
		}
		if op.OperationID == "" {
			bad("oas_required_member_missing", op.Verb+" "+op.Path+": operationId")
		}
	}
	for id, n := range ids {
		if n > 1 {
			bad("operation_id_duplicate", id)
		}
	}
	ok("operations_checked")
	// reachable messages have component schemas
	var svc protoreflect.ServiceDescriptor
	d.l.Files.RangeFiles(func(fd protoreflect.FileDescriptor) bool {
		for i := 0; i < fd.Services().Len(); i++ {
			if string(fd.Services().Get(i).Name()) == d.service {
				owned := false
				for _, f := range d.s.Files {
					if f.Path == fd.Path() {
						owned = true
					}
				}
				if owned {
					svc = fd.Services().Get(i)
				}
			}
		}
		return true
	})
	if svc == nil {
		return
	}
	byComp := map[string]protoreflect.FullName{}
	for _, md := range reachableMessages(d.l.Files, svc) {
		name, found := componentFor(doc, md)
		if !found {
			bad("schema_missing", "no component schema for reachable message "+string(md.FullName()))
			continue
		}
		if prev, dup := byComp[name]; dup && prev != md.FullName() {
			bad("schema_collision", fmt.Sprintf("messages %s and %s share component schema %q", prev, md.FullName(), name))
			continue
		}
		byComp[name] = md.FullName()
	}
	ok("reachable_messages_have_schemas")
}
