package checks

import (
	"bufio"
	"bytes"
	"encoding/json"
	"fmt"
	"os"
	"os/exec"
	"path/filepath"
	"strings"
	"sync"

	"verif/mc/report"
	"verif/mc/rt"
	"verif/mc/spec"
	"verif/mc/ws"
)

// CamelToSnake mirrors the documented default path rule (create_user for CreateUser).
func CamelToSnake(s string) string {
	var b strings.Builder
	for i, c := range s {
		if c >= 'A' && c <= 'Z' {
			if i > 0 {
				b.WriteByte('_')
			}
			b.WriteRune(c - 'A' + 'a')
		} else {
			b.WriteRune(c)
		}
	}
	return b.String()
}

// DocPath is M-route: the documented path resolution (docs/http-generation.md "Path Resolution").
func DocPath(goPkg string, s *spec.Service, m *spec.Method) string {
	base := ""
	if s.BasePath != nil {
		base = *s.BasePath
	}
	custom := ""
	if m.Config {
		custom = m.Path
	}
	lead := func(p string) string {
		if !strings.HasPrefix(p, "/") {
			return "/" + p
		}
		return p
	}
	switch {
	case base != "" && custom != "":
		return strings.TrimSuffix(lead(base), "/") + lead(custom)
	case custom != "":
		return lead(custom)
	case base != "":
		return strings.TrimSuffix(lead(base), "/") + "/" + CamelToSnake(m.Name)
	}
	return "/" + goPkg + "/" + CamelToSnake(m.Name)
}

func pathVars(p string) []string {
	var out []string
	for {
		i := strings.Index(p, "{")
		if i < 0 {
			return out
		}
		j := strings.Index(p[i:], "}")
		if j < 0 {
			return out
		}
		out = append(out, p[i+1:i+j])
		p = p[i+j+1:]
	}
}

func jobHeaders(hs []*spec.Header, level string) []rt.JobHeader {
	var out []rt.JobHeader
	for _, h := range hs {
		out = append(out, rt.JobHeader{Name: h.Name, Type: h.Type, Format: h.Format, Required: h.Required, Level: level})
	}
	return out
}

// JobUnitFor describes a unit to the harness drivers.
func JobUnitFor(u *ws.Unit) rt.JobUnit {
	ju := rt.JobUnit{Name: u.Name, Cell: u.Spec.Cell}
	for _, f := range u.Spec.Files {
		ju.Package = f.Package
		f.Walk(func(fq string, m *spec.Message) {
			ju.Messages = append(ju.Messages, fq)
			for _, fl := range m.Fields {
				if len(fl.Examples) > 0 {
					if ju.FieldExamples == nil {
						ju.FieldExamples = map[string][]string{}
					}
					ju.FieldExamples[fq+"."+fl.Name] = fl.Examples
				}
			}
		})
		goPkg := u.Name
		if f.GoPackage != "" {
			gp := f.GoPackage
			if i := strings.Index(gp, ";"); i >= 0 {
				goPkg = gp[i+1:]
			} else {
				goPkg = gp[strings.LastIndex(gp, "/")+1:]
			}
		}
		msgByName := map[string]*spec.Message{}
		f.Walk(func(fq string, m *spec.Message) { msgByName[fq] = m })
		for _, s := range f.Services {
			js := rt.JobService{Name: s.Name}
			for _, m := range s.Methods {
				fq := func(t string) string {
					if strings.HasPrefix(t, ".") {
						return t[1:]
					}
					if f.Package == "" {
						return t
					}
					return f.Package + "." + t
				}
				jm := rt.JobMethod{Name: m.Name, In: fq(m.In), Out: fq(m.Out), Verb: m.Verb, Config: m.Config, Path: DocPath(goPkg, s, m)}
				if jm.Verb == "" {
					jm.Verb = "POST"
				}
				jm.PathVars = pathVars(jm.Path)
				if in := msgByName[jm.In]; in != nil {
					for _, fl := range in.Fields {
						if fl.Query != nil {
							n := fl.Query.Name
							if n == "" {
								n = fl.Name
							}
							jm.Query = append(jm.Query, rt.JobQuery{Field: fl.Name, Name: n, Required: fl.Query.Required})
						}
					}
				}
				jm.SvcHeaders = jobHeaders(s.Headers, "service")
				jm.MethHeaders = jobHeaders(m.Headers, "method")
				eff := map[string]int{}
				for _, h := range append(append([]rt.JobHeader{}, jm.SvcHeaders...), jm.MethHeaders...) {
					k := strings.ToLower(h.Name)
					if i, ok := eff[k]; ok {
						jm.Headers[i] = h
					} else {
						eff[k] = len(jm.Headers)
						jm.Headers = append(jm.Headers, h)
					}
				}
				js.Methods = append(js.Methods, jm)
			}
			ju.Services = append(ju.Services, js)
		}
	}
	return ju
}

// RunHarness shards the units over the cores, runs the driver in one harness process per shard and
// feeds every record to fn. Violations and stats go to the report.
func RunHarness(c *Ctx, w *ws.Workspace, r *report.Run, driver string, units []rt.JobUnit, params map[string]string, specs map[string]*spec.Spec) error {
	if w.Harness == "" {
		return HarnessError("workspace has no harness binary")
	}
	if len(units) == 0 {
		return nil
	}
	shards := c.Workers
	if shards > len(units) {
		shards = len(units)
	}
	groups := make([][]rt.JobUnit, shards)
	for i, u := range units {
		groups[i%shards] = append(groups[i%shards], u)
	}
	work, err := os.MkdirTemp(filepath.Join(w.Dir), "run-")
	if err != nil {
		return err
	}
	defer os.RemoveAll(work)
	var mu sync.Mutex
	var firstErr error
	var wg sync.WaitGroup
	for i, g := range groups {
		wg.Add(1)
		go func(i int, g []rt.JobUnit) {
			defer wg.Done()
			job := rt.Job{Thorough: c.Thorough, Mode: driver, Units: g, Params: params}
			jb, _ := json.Marshal(job)
			jp := filepath.Join(work, fmt.Sprintf("job%d.json", i))
			os.WriteFile(jp, jb, 0o644)
			cmd := exec.Command(w.Harness, driver, jp)
			cmd.Env = append(os.Environ(), "GOMAXPROCS=2", "TZ=UTC")
			var stderr bytes.Buffer
			cmd.Stderr = &stderr
			out, err := cmd.Output()
			mu.Lock()
			defer mu.Unlock()
			if err != nil {
				if firstErr == nil {
					firstErr = HarnessError("harness %s shard %d failed: %v\n%s", driver, i, err, short(stderr.String(), 3000))
				}
				return
			}
			sc := bufio.NewScanner(bytes.NewReader(out))
			sc.Buffer(make([]byte, 1<<20), 1<<26)
			for sc.Scan() {
				var rec rt.Rec
				if err := json.Unmarshal(sc.Bytes(), &rec); err != nil {
					if firstErr == nil {
						firstErr = HarnessError("harness output: %v: %s", err, short(sc.Text(), 200))
					}
					return
				}
				switch rec.K {
				case "stat":
					r.CaseN(rec.Cell, rec.Outcome, rec.NonTriv, rec.N)
				case "viol":
					r.Violate(rec.Cell, rec.Symptom, rec.Detail, map[string]any{"driver": driver, "labels": rec.Labels, "spec": specs[unitOfCell(rec.Cell, g)]})
				case "cap":
					r.Exhaustive = false
					r.CapNote = "some scenarios hit the per-scenario execution cap: " + rec.Detail
				case "space":
					r.Sample(map[string]any{"cell": rec.Cell, "points": rec.N, "space": rec.Detail})
				case "sample":
					r.Sample(rec.Sample)
				}
			}
		}(i, g)
	}
	wg.Wait()
	return firstErr
}

func unitOfCell(cell string, g []rt.JobUnit) string {
	for _, u := range g {
		if strings.HasPrefix(cell, u.Cell) {
			return u.Name
		}
	}
	return ""
}

// blocked reports units that cannot take part in a runtime property because they do not build.
func blocked(r *report.Run, w *ws.Workspace, property string) []rt.JobUnit {
	var ok []rt.JobUnit
	var names []string
	for _, u := range w.Units {
		if u.Healthy() {
			if u.Glue {
				ok = append(ok, JobUnitFor(u))
			}
			continue
		}
		names = append(names, u.Name)
		if report.BlockedByKnown(u.Spec.Cell + ",variant=" + string(u.Variant)) {
			continue
		}
		detail := ""
		for p, e := range u.GenErr {
			detail += p + ": " + e + "; "
		}
		for i, d := range u.Diags {
			if i < 3 {
				detail += fmt.Sprintf("%s:%d %s; ", d.File, d.Line, d.Msg)
			}
		}
		r.Violate(u.Spec.Cell+",variant="+string(u.Variant), "unit_does_not_build", detail, map[string]any{"spec": u.Spec})
	}
	r.Extra["blocked_units"] = names
	return ok
}

func specIndex(w *ws.Workspace) map[string]*spec.Spec {
	m := map[string]*spec.Spec{}
	for _, u := range w.Units {
		m[u.Name] = u.Spec
	}
	return m
}

func hasTag(s *spec.Spec, tag string) bool {
	for _, t := range s.Tags {
		if t == tag {
			return true
		}
	}
	return false
}
