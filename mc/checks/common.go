// Package checks holds one bounded-exhaustive check per property.
package checks

import (
	"fmt"
	"os"
	"runtime"
	"sync"
	"sync/atomic"

	"verif/mc/plug"
	"verif/mc/report"
	"verif/mc/spec"
)

type Ctx struct {
	Tier     string
	Thorough bool
	Bins     *plug.Bins
	McDir    string
	Workers  int
	Run      *report.Run // the run being filled (set by the entry point): raw harness stages report registration panics here
}

func NewCtx(tier string) (*Ctx, error) {
	c := &Ctx{Tier: tier, Thorough: tier == "thorough", McDir: report.VerifDir() + "/mc", Workers: runtime.NumCPU()}
	b, err := plug.Build("")
	if err != nil {
		return nil, err
	}
	c.Bins = b
	return c, nil
}

// Par runs fn(i) for i in [0,n) on all cores.
func Par(n, workers int, fn func(i int)) {
	if workers <= 0 {
		workers = runtime.NumCPU()
	}
	var next int64 = -1
	var wg sync.WaitGroup
	for w := 0; w < workers; w++ {
		wg.Add(1)
		go func() {
			defer wg.Done()
			for {
				i := int(atomic.AddInt64(&next, 1))
				if i >= n {
					return
				}
				fn(i)
			}
		}()
	}
	wg.Wait()
}

// Registry of checks.
var Registry = map[string]func(*Ctx, *report.Run) error{}

// HarnessError is printed and makes the check exit 2 (an error of the check, never a finding).
func HarnessError(format string, a ...any) error {
	return fmt.Errorf("harness error: "+format, a...)
}

func mustLower(s *spec.Spec) *spec.Lowered {
	l, err := spec.Lower(s)
	if err != nil {
		fmt.Fprintln(os.Stderr, "harness error: spec does not lower:", err)
		os.Exit(2)
	}
	return l
}

func short(s string, n int) string {
	if len(s) > n {
		return s[:n] + "…"
	}
	return s
}

// Setup builds everything the checks need so that later runs are warm.
func Setup() error {
	c, err := NewCtx("quick")
	if err != nil {
		return err
	}
	if _, err := plug.GenGo(c.McDir); err != nil {
		return err
	}
	return nil
}
