package checks

import (
	"fmt"
	"sort"
	"strings"
	"sync"
	"time"

	"verif/mc/plug"
	"verif/mc/report"
	"verif/mc/spec"
	"verif/mc/univ"
)

func init() { Registry["C16"] = C16 }

// PluginRuns lists (plugin, parameter) configurations exercised for termination.
var c16Configs = []struct{ Plugin, Param string }{
	{"protoc-gen-go-http", ""},
	{"protoc-gen-go-http", "generate_mock=true"},
	{"protoc-gen-go-client", ""},
	{"protoc-gen-ts-client", ""},
	{"protoc-gen-ts-server", ""},
	{"protoc-gen-openapiv3", ""},
	{"protoc-gen-openapiv3", "format=json"},
}

// C16: every plugin terminates with an answer for every well-formed request.
func C16(c *Ctx, r *report.Run) error {
	r.Rule = "every descriptor shape of the F-shape universe (all reference graphs over n messages with edge kinds singular/repeated/map/oneof/flatten/flatten-with-prefix incl. self and mutual recursion (n<=2: any number of edges; n=3: at most 2 reference edges quick, at most 3 edges of any kind thorough), deviation-bounded by edge count; cliques of 2..12 mutually referring messages; degenerate files; nesting depth ladders; plus every schema of the core and extended families: identifier shapes, header names, annotation cardinalities, routes, bindings, feature pairs) x 7 plugin/parameter configurations, each run in a subprocess under timeout and address-space limit; a case is non-trivial when the graph has at least one edge or the file is degenerate; distinct = (cell, plugin, param, outcome)"
	var specs []*spec.Spec
	if c.Thorough {
		specs = append(specs, univ.ShapeGraphsK(1, -1, 7)...)
		specs = append(specs, univ.ShapeGraphsK(2, -1, 7)...)
		specs = append(specs, univ.ShapeGraphsK(3, 3, 7)...)
		plug.TimeoutSec = 60
	} else {
		specs = append(specs, univ.ShapeGraphsK(1, -1, 7)...)
		specs = append(specs, univ.ShapeGraphsK(2, -1, 7)...)
		specs = append(specs, univ.ShapeGraphs(3, 2)...)
		plug.TimeoutSec = 20
	}
	specs = append(specs, univ.ShapeCliques()...)
	specs = append(specs, univ.ShapeDegenerate(c.Thorough)...)
	specs = append(specs, univ.CoreSpecs()...)
	// ... and every accepted schema of the extended families (identifier shapes, header names, annotation cardinalities, routes,
	// bindings, pairs of codec features): termination must not depend on names or annotations either
	specs = append(specs, univ.Extended(c.Thorough)...)
	specs = append(specs, univ.PairSpecs(c.Thorough)...)
	r.Programs = len(specs)
	type job struct {
		s   *spec.Spec
		l   *spec.Lowered
		cfg int
	}
	var jobs []job
	for _, s := range specs {
		l := mustLower(s)
		for i := range c16Configs {
			jobs = append(jobs, job{s, l, i})
		}
	}
	// the parameter family: every plugin with parameter strings it may or may not understand (unknown keys, bad values of known
	// keys, the standard protogen keys with bogus values, empty items) on the core units - an answer (files or an error) is due
	base := len(c16Configs)
	for _, plugin := range []string{"protoc-gen-go-http", "protoc-gen-go-client", "protoc-gen-ts-client", "protoc-gen-ts-server", "protoc-gen-openapiv3"} {
		for _, prm := range []string{"paths=bogus", "unknown_param=1", "format=xml", "generate_mock=maybe", "module=does/not/match", "paths=source_relative,,format=json", "=", "Mmissing.proto=x/y", "format"} {
			c16Configs = append(c16Configs, struct{ Plugin, Param string }{plugin, prm})
		}
	}
	for _, s := range univ.CoreSpecs() {
		l := mustLower(s)
		for i := base; i < len(c16Configs); i++ {
			jobs = append(jobs, job{s, l, i})
		}
	}
	var mu sync.Mutex
	var walls []float64
	Par(len(jobs), c.Workers, func(i int) {
		j := jobs[i]
		cfg := c16Configs[j.cfg]
		res := plug.Run(c.Bins.Path(cfg.Plugin), j.l.Request(cfg.Param, nil))
		cell := fmt.Sprintf("%s,plugin=%s,param=%s", j.s.Cell, strings.TrimPrefix(cfg.Plugin, "protoc-gen-"), paramKey(cfg.Param))
		outcome := "files"
		if !res.Answered() && res.ExitCode == 1 && res.Signal == "" && !res.TimedOut && len(res.RawOut) == 0 &&
			strings.HasPrefix(res.Stderr, cfg.Plugin+": ") && !strings.Contains(res.Stderr, "goroutine ") {
			// protogen's own failure convention (used by protoc-gen-go itself): "<plugin>: <message>" on
			// stderr and exit status 1. protoc relays it as the plugin's error message: an answer, not a crash.
			outcome = "error_on_stderr"
		} else if !res.Answered() {
			outcome = res.Symptom()
			if outcome == "oom" || outcome == "timeout" || strings.HasPrefix(outcome, "crash(") && res.Wall > 5*time.Second {
				outcome = "nonterminating" // memory limit and timeout race each other on an unbounded recursion
			}
			r.Violate(cell, outcome, fmt.Sprintf("exit=%d signal=%q wall=%s stderr=%s", res.ExitCode, res.Signal, res.Wall.Round(time.Millisecond), short(res.Stderr, 600)),
				map[string]any{"spec": j.s, "plugin": cfg.Plugin, "param": cfg.Param})
		} else if res.Err() != "" {
			outcome = "error_response"
		}
		r.Case(cell, outcome, !strings.Contains(j.s.Cell, "edges=none"))
		mu.Lock()
		walls = append(walls, res.Wall.Seconds())
		mu.Unlock()
		if i%97 == 0 {
			r.Sample(map[string]any{"cell": cell, "outcome": outcome, "wall_ms": res.Wall.Milliseconds(), "files": len(res.Files()), "error": short(res.Err(), 120)})
		}
	})
	sort.Float64s(walls)
	if len(walls) > 0 {
		r.Extra["wall_median_s"] = walls[len(walls)/2]
		r.Extra["wall_max_s"] = walls[len(walls)-1]
	}
	r.Extra["plugin_timeout_s"] = plug.TimeoutSec
	r.Extra["bound"] = map[string]any{"graphs": map[bool]string{false: "n<=2 all graphs; n=3 <=2 edges", true: "n<=2 all graphs; n=3 <=3 edges"}[c.Thorough], "configs": len(c16Configs)}
	r.States = len(jobs)
	r.Transitions = len(jobs)
	r.Traces = len(jobs)
	r.Assumptions = []string{"a CodeGeneratorRequest assembled from hand-built descriptors (validated by protodesc) is what protoc would send",
		"termination is observed under a 20 s (quick) / 60 s (thorough) guard against a typical run time of ~30 ms"}
	return nil
}

func paramKey(p string) string {
	if p == "" {
		return "none"
	}
	return strings.NewReplacer("=", ":", ",", ";").Replace(p)
}
