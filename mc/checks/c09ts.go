package checks

import (
	"encoding/base64"
	"encoding/json"
	"fmt"
	"sort"
	"strings"
	"unicode/utf8"

	"verif/mc/report"
	"verif/mc/rt"
	"verif/mc/ws"
)

// fetchRepresentable reports whether a header value survives the Fetch API's Headers object unchanged
// (no bytes outside visible ASCII / UTF-8 text, no leading or trailing whitespace that Headers would strip).
func fetchRepresentable(v string) bool {
	if !utf8.ValidString(v) || strings.TrimSpace(v) != v {
		return false
	}
	for _, r := range v {
		if r < 0x20 || r == 0x7f || r > 0xff {
			return false
		}
	}
	return true
}

// c09TS replays the header-gate cases of the Go driver against the generated TS server through the node bridge.
func c09TS(c *Ctx, r *report.Run, w *ws.Workspace, units []rt.JobUnit) error {
	raw, err := collectRaw(c, w, "c09", units, map[string]string{"stage": "tscases"})
	if err != nil {
		return err
	}
	cases := map[string]*rt.HdrCase{}
	var order []string
	for _, rr := range raw {
		hc := &rt.HdrCase{}
		if json.Unmarshal(rr, hc) == nil && hc.K == "hdrcase" {
			cases[hc.ID] = hc
			order = append(order, hc.ID)
		}
	}
	sort.Strings(order)
	var ops []any
	for _, id := range order {
		hc := cases[id]
		u := w.Unit(hc.Unit)
		if u == nil {
			continue
		}
		_, server := tsModules(u)
		if server == "" {
			continue
		}
		ok := true
		for _, l := range hc.Labels {
			if strings.HasSuffix(l, "=malformed:non_utf8") {
				ok = false // the recorded value went through JSON and is no longer the byte sequence that was sent (Go server only)
			}
		}
		hdrs := map[string]string{"Content-Type": "application/json"}
		for k, v := range hc.Headers {
			if !fetchRepresentable(v) {
				ok = false
			}
			hdrs[k] = v
		}
		if !ok {
			r.Case(hc.CellBase+",server=ts", "value_not_representable_in_fetch_headers", false)
			continue
		}
		req := map[string]any{"method": hc.Verb, "url": hc.Target, "headers": hdrs}
		if hc.Body != nil {
			req["bodyB64"] = base64.StdEncoding.EncodeToString(hc.Body)
		}
		ops = append(ops, map[string]any{"op": "server_handle", "id": id, "server": server, "svc": hc.Svc, "req": req, "respObj": map[string]any{}})
	}
	res, err := runNode(c, w, ops)
	if err != nil {
		return err
	}
	for _, id := range order {
		hc := cases[id]
		a, ok := res[id]
		if !ok {
			continue
		}
		cellBase := hc.CellBase + ",server=ts"
		cell := strings.Replace(hc.Cell, "#", ",server=ts#", 1)
		r.Evaluations++
		if e := str(a, "error"); e != "" {
			r.Case(cellBase, "ts_server_unavailable", false) // C13 reports modules that do not load
			continue
		}
		if a["noRoute"] == true {
			r.Case(cellBase, "ts_server_routes_elsewhere", false) // path disagreement between the generators is C03's subject
			continue
		}
		if th, ok := a["thrown"].(map[string]any); ok {
			r.Violate(cell, "ts_server_threw", fmt.Sprintf("%v -> route handler threw %v", hc.Labels, th["message"]), hc)
			r.Case(cellBase, "ts_server_threw", true)
			continue
		}
		status := 0
		if n, ok := a["status"].(json.Number); ok {
			i, _ := n.Int64()
			status = int(i)
		}
		handled := a["handled"] != nil
		body, _ := base64.StdEncoding.DecodeString(str(a, "bodyB64"))
		var ve struct {
			Violations []struct {
				Field string `json:"field"`
			} `json:"violations"`
		}
		derr := json.Unmarshal(body, &ve)
		set := map[string]bool{}
		for _, v := range ve.Violations {
			set[v.Field] = true
		}
		var got []string
		for k := range set {
			got = append(got, k)
		}
		sort.Strings(got)
		switch hc.Kind {
		case "accept":
			rejected := false
			if status == 400 && derr == nil {
				for _, g := range got {
					if strings.EqualFold(g, hc.Hdr) {
						rejected = true
					}
				}
			}
			switch {
			case rejected:
				r.Violate(cell, "good_header_rejected", fmt.Sprintf("TS server: %s: %q (valid per published type=%s format=%s) -> %d %s", hc.Hdr, hc.Val, hc.Type, hc.Format, status, short(string(body), 200)), hc)
				r.Case(cellBase, "good_header_rejected", true)
			case !handled:
				r.Violate(cell, "valid_request_not_dispatched", fmt.Sprintf("TS server: status=%d %s", status, short(string(body), 200)), hc)
				r.Case(cellBase, "valid_request_not_dispatched", true)
			default:
				r.Case(cellBase, "accepted", true)
			}
		case "unjudged":
			switch {
			case status >= 500:
				r.Violate(cell, "not_400", fmt.Sprintf("TS server: %s: %q -> %d %s", hc.Hdr, hc.Val, status, short(string(body), 200)), hc)
			case handled:
				r.Case(cellBase, "lenient_spelling_accepted", true)
			default:
				r.Case(cellBase, "lenient_spelling_rejected", true)
			}
		case "noheaders":
			if !handled {
				r.Violate(cell, "valid_request_not_dispatched", fmt.Sprintf("TS server: status=%d %s", status, short(string(body), 200)), hc)
				r.Case(cellBase, "valid_request_not_dispatched", true)
			} else {
				r.Case(cellBase, "accepted", false)
			}
		default:
			// headers sent empty whose declaration is a plain string: unjudged on the TS server
			plain := map[string]bool{}
			for _, n := range hc.EmptyPlain {
				plain[n] = true
			}
			var must []string
			for _, n := range hc.Want {
				if !plain[n] {
					must = append(must, n)
				}
			}
			if len(must) == 0 {
				r.Case(cellBase, "empty_plain_string_header_unjudged", false)
				continue
			}
			var gotMust []string
			extra := false
			for _, g := range got {
				switch {
				case plain[g]:
				case contains(hc.Want, g):
					gotMust = append(gotMust, g)
				default:
					extra = true
				}
			}
			switch {
			case handled:
				r.Violate(cell, "bad_header_dispatched", fmt.Sprintf("TS server: %v -> %d, handler ran", hc.Labels, status), hc)
				r.Case(cellBase, "bad_header_dispatched", true)
			case status != 400:
				r.Violate(cell, "not_400", fmt.Sprintf("TS server: %v -> %d %s", hc.Labels, status, short(string(body), 200)), hc)
				r.Case(cellBase, "not_400", true)
			case derr != nil:
				r.Violate(cell, "malformed_400_body", "TS server: "+derr.Error()+" "+short(string(body), 200), hc)
				r.Case(cellBase, "malformed_400_body", true)
			case extra || strings.Join(gotMust, ",") != strings.Join(must, ","):
				r.Violate(cell, "violation_set_differs", fmt.Sprintf("TS server: %v: want violations for %v, got %v", hc.Labels, must, got), hc)
				r.Case(cellBase, "violation_set_differs", true)
			default:
				r.Case(cellBase, "rejected_400_exact_set", true)
			}
		}
	}
	return nil
}

func contains(l []string, s string) bool {
	for _, x := range l {
		if x == s {
			return true
		}
	}
	return false
}
