package checks

import (
	"verif/mc/spec"
	"verif/mc/univ"
)

// univ18 adds schema shapes that matter for the OpenAPI document: same-named nested types, recursion.
func univ18() []*spec.Spec {
	return univ.OASShapes()
}
