package checks

import (
	"fmt"
	"strings"

	"verif/mc/plug"
	"verif/mc/report"
	"verif/mc/spec"
	"verif/mc/univ"
)

func init() { Registry["C12"] = C12 }

// C12: misused annotations stop generation; valid definitions are never refused.
func C12(c *Ctx, r *report.Run) error {
	r.Rule = "every documented annotation rule (29 offending constructs) x placement {top-level, nested, sibling non-service file of the run, imported non-generated file} x surrounding {alone, among valid annotated content} through go-http (all rules) and go-client (JSON-mapping rules except unwrap): response.error must be non-empty, name an offender and carry no files; conversely every spec of the valid universe through all five plugins must not be refused; distinct = (cell, plugin, outcome)"
	type job struct {
		s       *spec.Spec
		plugin  string
		misuse  *univ.Misuse
		wantErr bool
	}
	var jobs []job
	mus := univ.Misuses()
	for i := range mus {
		mu := &mus[i]
		places := univ.MisusePlacements
		if mu.Service != nil {
			places = []string{"top"}
		}
		for _, pl := range places {
			for _, among := range []bool{false, true} {
				s := univ.MisuseSpec(*mu, pl, among)
				if s == nil {
					continue // the placement does not apply to the rule
				}
				jobs = append(jobs, job{s, "protoc-gen-go-http", mu, true})
				if mu.JSONRule && !mu.Unwrap {
					jobs = append(jobs, job{s, "protoc-gen-go-client", mu, true})
				}
			}
		}
	}
	nMisuse := len(jobs)
	valid := buildUniverse(c)
	rs, _ := univ.RuleSpecs(c.Thorough)
	valid = append(valid, rs...)
	valid = append(valid, univ.PairSpecs(c.Thorough)...)
	for _, s := range valid {
		if !hasTag(s, "valid") {
			continue
		}
		for _, p := range plug.Plugins {
			jobs = append(jobs, job{s, p, nil, false})
		}
	}
	r.Programs = len(jobs)
	Par(len(jobs), c.Workers, func(i int) {
		j := jobs[i]
		l, err := spec.Lower(j.s)
		if err != nil {
			r.Violate(j.s.Cell, "harness_spec_invalid", err.Error(), nil)
			return
		}
		res := plug.Run(c.Bins.Path(j.plugin), l.Request("", nil))
		pk := strings.TrimPrefix(j.plugin, "protoc-gen-")
		cell := j.s.Cell + ",plugin=" + pk
		replay := map[string]any{"spec": j.s, "plugin": j.plugin}
		if !res.Answered() {
			r.Violate(cell, "plugin_did_not_answer", res.Symptom()+" "+short(res.Stderr, 300), replay)
			r.Case(cell, "no_answer", true)
			return
		}
		if j.wantErr {
			switch {
			case res.Err() == "":
				r.Violate(cell, "misuse_accepted", fmt.Sprintf("no error; %d files emitted", len(res.Files())), replay)
				r.Case(cell, "misuse_accepted", true)
			case len(res.Files()) > 0:
				r.Violate(cell, "files_emitted_with_error", res.Err(), replay)
				r.Case(cell, "files_emitted_with_error", true)
			default:
				named := false
				for _, o := range j.misuse.Offenders {
					if strings.Contains(res.Err(), o) {
						named = true
					}
				}
				if !named {
					r.Violate(cell, "error_does_not_name_offender", res.Err(), replay)
					r.Case(cell, "error_does_not_name_offender", true)
				} else {
					r.Case(cell, "refused_naming_offender", true)
					if i%13 == 0 {
						r.Sample(map[string]any{"cell": cell, "error": short(res.Err(), 200)})
					}
				}
			}
			return
		}
		if res.Err() != "" {
			r.Violate(cell, "valid_refused", res.Err(), replay)
			r.Case(cell, "valid_refused", true)
			return
		}
		r.Case(cell, "accepted", true)
	})
	r.Extra["misuse_runs"] = nMisuse
	r.Extra["valid_runs"] = len(jobs) - nMisuse
	r.States, r.Transitions, r.Traces = len(jobs), len(jobs), len(jobs)
	return nil
}
