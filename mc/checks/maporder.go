package checks

import (
	"verif/mc/report"
	"verif/mc/spec"
)

func c15MapOrder(c *Ctx, r *report.Run, specs []*spec.Spec) error { return nil }
