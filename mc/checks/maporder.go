package checks

import (
	"bufio"
	"encoding/json"
	"fmt"
	"os"
	"path/filepath"
	"sort"
	"strings"
	"sync"

	"verif/mc/explore"
	"verif/mc/plug"
	"verif/mc/report"
	"verif/mc/spec"
)

func perms(n int, thorough bool) [][]int {
	id := make([]int, n)
	for i := range id {
		id[i] = i
	}
	if n <= 4 || (thorough && n <= 5) {
		var out [][]int
		var rec func(cur []int, rest []int)
		rec = func(cur, rest []int) {
			if len(rest) == 0 {
				out = append(out, append([]int(nil), cur...))
				return
			}
			for i := range rest {
				nr := append(append([]int(nil), rest[:i]...), rest[i+1:]...)
				rec(append(cur, rest[i]), nr)
			}
		}
		rec(nil, id)
		return out[1:] // without identity
	}
	var out [][]int
	rev := make([]int, n)
	for i := range rev {
		rev[i] = n - 1 - i
	}
	out = append(out, rev)
	for r := 1; r < n; r++ {
		p := make([]int, n)
		for i := range p {
			p[i] = (i + r) % n
		}
		out = append(out, p)
	}
	for i := 0; i+1 < n; i++ {
		p := append([]int(nil), id...)
		p[i], p[i+1] = p[i+1], p[i]
		out = append(out, p)
	}
	return out
}

func permString(p []int) string {
	s := make([]string, len(p))
	for i, x := range p {
		s[i] = fmt.Sprint(x)
	}
	return strings.Join(s, ",")
}

// c15MapOrder owns hash-map iteration order: plugins are rebuilt with every range-over-map site routed
// through a controller; for every spec and plugin, every executed site is driven through all permutations.
func c15MapOrder(c *Ctx, r *report.Run, specs []*spec.Spec) error {
	th, err := plug.TreeHash(plug.Repo())
	if err != nil {
		return err
	}
	odir := filepath.Join(plug.Home(), "cache", th, "maporder")
	var ov *explore.MapOrderOverlay
	unlock, err := plug.Lock(odir + ".lock")
	if err != nil {
		return err
	}
	if b, err := os.ReadFile(filepath.Join(odir, "sites.json")); err == nil {
		ov = &explore.MapOrderOverlay{}
		if json.Unmarshal(b, ov) != nil {
			ov = nil
		}
	}
	if ov == nil {
		ov, err = explore.BuildMapOrderOverlay(plug.Repo(), odir)
		if err != nil {
			unlock()
			return HarnessError("map-order overlay: %v", err)
		}
	}
	unlock()
	bins, err := plug.Build("maporder", "-overlay", ov.OverlayJSON)
	if err != nil {
		return HarnessError("building plugins with the map-order overlay: %v", err)
	}
	var uncontrolled []string
	for _, s := range ov.Sites {
		if !s.Controllable {
			uncontrolled = append(uncontrolled, s.ID+" ("+s.KeyType+")")
		}
	}
	r.Extra["map_range_sites"] = ov.Sites
	r.Extra["map_range_sites_uncontrolled"] = uncontrolled
	r.Extra["go_statements_in_generators"] = ov.GoStmts
	if len(uncontrolled) > 0 || ov.GoStmts > 0 {
		r.Exhaustive = false
		r.CapNote = "some map iteration sites have keys that cannot be canonically ordered, or generator packages spawn goroutines"
	}
	type cfg struct{ plugin, param string }
	cfgs := []cfg{{"protoc-gen-go-http", "generate_mock=true"}, {"protoc-gen-go-client", ""}, {"protoc-gen-ts-client", ""}, {"protoc-gen-ts-server", ""}, {"protoc-gen-openapiv3", ""}}
	type job struct {
		s   *spec.Spec
		cfg cfg
	}
	var jobs []job
	for _, s := range append(append([]*spec.Spec(nil), specs...), mapOrderSpecs()...) {
		for _, cf := range cfgs {
			jobs = append(jobs, job{s, cf})
		}
	}
	work, err := os.MkdirTemp(plug.Home(), "maplog-")
	if err != nil {
		return err
	}
	defer os.RemoveAll(work)
	executed := map[string]bool{}
	permRuns := 0
	Par(len(jobs), c.Workers, func(i int) {
		j := jobs[i]
		l := mustLower(j.s)
		req := l.Request(j.cfg.param, nil)
		logf := filepath.Join(work, fmt.Sprintf("log%d", i))
		base := plug.Run(bins.Path(j.cfg.plugin), req, "VERIF_MAPLOG="+logf, "VERIF_MAPORDER=")
		pk := strings.TrimPrefix(j.cfg.plugin, "protoc-gen-")
		cellBase := fmt.Sprintf("%s,plugin=%s,param=%s", j.s.Cell, pk, paramKey(j.cfg.param))
		if !base.Answered() || base.Err() != "" {
			return
		}
		// the controlled build with canonical order must agree with the ordinary build
		ord := plug.Run(c.Bins.Path(j.cfg.plugin), req)
		if ord.Answered() && !sameFiles(ord.Files(), base.Files()) {
			r.Violate(cellBase+"#canonical", "map_order_dependent(canonical_vs_native)", "output of the native build differs from the build iterating maps in sorted order: "+diffFiles(ord.Files(), base.Files()),
				map[string]any{"spec": j.s, "plugin": j.cfg.plugin})
		}
		sizes := map[string]map[int]bool{}
		if f, err := os.Open(logf); err == nil {
			sc := bufio.NewScanner(f)
			for sc.Scan() {
				var site string
				var n int
				if _, err := fmt.Sscanf(sc.Text(), "%s %d", &site, &n); err == nil {
					if sizes[site] == nil {
						sizes[site] = map[int]bool{}
					}
					sizes[site][n] = true
				}
			}
			f.Close()
		}
		var sites []string
		for s := range sizes {
			sites = append(sites, s)
		}
		sort.Strings(sites)
		for _, site := range sites {
			var ns []int
			for n := range sizes[site] {
				ns = append(ns, n)
			}
			sort.Ints(ns)
			for _, n := range ns {
				r.Case(cellBase+",site="+site, fmt.Sprintf("executed(n=%d)", n), n >= 2)
				if n < 2 {
					continue
				}
				for _, p := range perms(n, c.Thorough) {
					res := plug.Run(bins.Path(j.cfg.plugin), req, "VERIF_MAPORDER="+site+"="+permString(p))
					cell := fmt.Sprintf("%s,site=%s#perm(%s)", cellBase, site, permString(p))
					if !res.Answered() || !sameFiles(res.Files(), base.Files()) {
						r.Violate(cell, "map_order_dependent("+site+")", diffFiles(base.Files(), res.Files()),
							map[string]any{"spec": j.s, "plugin": j.cfg.plugin, "param": j.cfg.param, "site": site, "perm": p})
						r.Case(cellBase+",site="+site, "order_dependent", true)
					} else {
						r.Case(cellBase+",site="+site, "order_independent", true)
					}
				}
			}
		}
		func() {
			r.Sample(map[string]any{"cell": cellBase, "executed_sites": sizes})
		}()
		_ = permRuns
		for _, s := range sites {
			executedMu.Lock()
			executed[s] = true
			executedMu.Unlock()
		}
	})
	var ex []string
	for s := range executed {
		ex = append(ex, s)
	}
	sort.Strings(ex)
	r.Extra["map_range_sites_executed"] = ex
	return nil
}

var executedMu sync.Mutex

func sameFiles(a, b map[string]string) bool {
	if len(a) != len(b) {
		return false
	}
	for k, v := range a {
		if b[k] != v {
			return false
		}
	}
	return true
}

func diffFiles(a, b map[string]string) string {
	var names []string
	for n := range a {
		names = append(names, n)
	}
	sort.Strings(names)
	for _, n := range names {
		if g, ok := b[n]; !ok {
			return n + ": missing"
		} else if g != a[n] {
			return n + ": " + firstDiff(a[n], g)
		}
	}
	return fmt.Sprintf("file sets differ: %d vs %d", len(a), len(b))
}

// mapOrderSpecs adds schemas that make the map-iteration sites execute with several keys.
func mapOrderSpecs() []*spec.Spec {
	hs := func(names ...string) []*spec.Header {
		var out []*spec.Header
		for _, n := range names {
			out = append(out, &spec.Header{Name: n, Type: "string", Required: true})
		}
		return out
	}
	f := &spec.File{
		Enums: []*spec.Enum{spec.E("Zeta", "ZETA_UNSPECIFIED", "ZETA_A"), spec.E("Alpha", "ALPHA_UNSPECIFIED", "ALPHA_A"), spec.E("Mid", "MID_UNSPECIFIED", "MID_A"), spec.E("Beta", "BETA_UNSPECIFIED", "BETA_B")},
		Messages: []*spec.Message{
			spec.M("Req", spec.F("name", "string"), spec.En("z", "Zeta"), spec.En("a", "Alpha"), spec.En("m", "Mid"), spec.En("b", "Beta")),
			spec.M("Resp", spec.F("name", "string"), spec.En("z", "Zeta").Rep(), spec.En("a", "Alpha").Map(), spec.En("m", "Mid").Opt()),
		},
		Services: []*spec.Service{
			spec.Svc("OrderService", "/o",
				spec.RPC("Do", "Req", "Resp", "POST", "/do").H(hs("X-Zulu", "X-Alpha", "Authorization")...),
				spec.RPC("Other", "Req", "Resp", "POST", "/other").H(hs("X-Bravo", "X-Mike")...),
			).H(hs("X-Yankee", "X-Charlie", "X-Alpha")...),
		},
	}
	s := spec.One("mo_headers_enums", f)
	s.Cell = "maporder/unit=headers_and_enums"
	return []*spec.Spec{s}
}
