package checks

import (
	"bufio"
	"encoding/json"
	"fmt"
	"os"
	"os/exec"
	"path/filepath"

	"verif/mc/plug"
)

// PyBatch collects validation requests and runs them in one python process.
type PyBatch struct {
	reqs []map[string]any
	docs map[string]bool
	next int
}

type PyError struct {
	Ptr        string `json:"ptr"`
	Keyword    string `json:"keyword"`
	Msg        string `json:"msg"`
	TopKeyword string `json:"top_keyword"`
}

type PyResult struct {
	ID     int       `json:"id"`
	OK     bool      `json:"ok"`
	Errors []PyError `json:"errors"`
}

func NewPyBatch() *PyBatch { return &PyBatch{docs: map[string]bool{}} }

func (b *PyBatch) Doc(id string, content any) {
	if b.docs[id] {
		return
	}
	b.docs[id] = true
	b.reqs = append(b.reqs, map[string]any{"op": "doc", "doc": id, "content": content})
}

// Validate queues one instance validation and returns its id.
func (b *PyBatch) Validate(doc string, ptr string, schema any, strict bool, instance any) int {
	b.next++
	r := map[string]any{"op": "validate", "id": b.next, "doc": doc, "strict": strict, "instance": instance}
	if schema != nil {
		r["schema"] = schema
		r["ptr"] = nil
	} else {
		r["ptr"] = ptr
	}
	b.reqs = append(b.reqs, r)
	return b.next
}

func (b *PyBatch) CheckSchema(doc, ptr string) int {
	b.next++
	b.reqs = append(b.reqs, map[string]any{"op": "check_schema", "id": b.next, "doc": doc, "ptr": ptr})
	return b.next
}

func (b *PyBatch) Len() int { return b.next }

// Run executes the batch.
func (b *PyBatch) Run(c *Ctx) (map[int]*PyResult, error) {
	dir, err := os.MkdirTemp(plug.Home(), "py-")
	if err != nil {
		return nil, err
	}
	defer os.RemoveAll(dir)
	in, out := filepath.Join(dir, "req.jsonl"), filepath.Join(dir, "resp.jsonl")
	f, err := os.Create(in)
	if err != nil {
		return nil, err
	}
	w := bufio.NewWriterSize(f, 1<<20)
	for _, r := range b.reqs {
		jb, err := json.Marshal(r)
		if err != nil {
			return nil, HarnessError("py request not encodable: %v", err)
		}
		w.Write(jb)
		w.WriteByte('\n')
	}
	w.Flush()
	f.Close()
	py := os.Getenv("VERIF_PYTHON")
	if py == "" {
		py = "python3-vt"
	}
	cmd := exec.Command(py, filepath.Join(c.McDir, "py", "validate.py"), in, out)
	if ob, err := cmd.CombinedOutput(); err != nil {
		return nil, HarnessError("python validator failed: %v\n%s", err, short(string(ob), 2000))
	}
	res := map[int]*PyResult{}
	rf, err := os.Open(out)
	if err != nil {
		return nil, err
	}
	defer rf.Close()
	sc := bufio.NewScanner(rf)
	sc.Buffer(make([]byte, 1<<20), 1<<26)
	for sc.Scan() {
		r := &PyResult{}
		if err := json.Unmarshal(sc.Bytes(), r); err != nil {
			return nil, HarnessError("python validator output: %v", err)
		}
		res[r.ID] = r
	}
	if len(res) != b.next {
		return nil, HarnessError("python validator answered %d of %d requests", len(res), b.next)
	}
	return res, nil
}

func (e PyError) String() string { return fmt.Sprintf("%s [%s] %s", e.Ptr, e.Keyword, e.Msg) }
