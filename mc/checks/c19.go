package checks

import (
	"encoding/json"
	"fmt"
	"math"
	"sort"
	"strings"

	"buf.build/gen/go/bufbuild/protovalidate/protocolbuffers/go/buf/validate"
	protovalidate "buf.build/go/protovalidate"
	"google.golang.org/protobuf/proto"
	"google.golang.org/protobuf/reflect/protoreflect"
	"google.golang.org/protobuf/types/descriptorpb"
	"google.golang.org/protobuf/types/dynamicpb"

	"verif/mc/model"
	"verif/mc/report"
	"verif/mc/spec"
	"verif/mc/univ"
)

func init() { Registry["C19"] = C19 }

func fieldRules(fd protoreflect.FieldDescriptor) *validate.FieldRules {
	o, _ := fd.Options().(*descriptorpb.FieldOptions)
	if o == nil || !proto.HasExtension(o, validate.E_Field) {
		return nil
	}
	r, _ := proto.GetExtension(o, validate.E_Field).(*validate.FieldRules)
	return r
}

// numbers mentioned by the rules of a field (as float64 and exact text).
func ruleNumbers(fr *validate.FieldRules) []string {
	var out []string
	var walk func(m protoreflect.Message)
	walk = func(m protoreflect.Message) {
		m.Range(func(fd protoreflect.FieldDescriptor, v protoreflect.Value) bool {
			one := func(v protoreflect.Value) {
				switch fd.Kind() {
				case protoreflect.MessageKind:
					walk(v.Message())
				case protoreflect.StringKind, protoreflect.BoolKind, protoreflect.BytesKind, protoreflect.EnumKind:
				default:
					out = append(out, v.String())
				}
			}
			if fd.IsList() {
				for i := 0; i < v.List().Len(); i++ {
					one(v.List().Get(i))
				}
			} else if !fd.IsMap() {
				one(v)
			}
			return true
		})
	}
	walk(fr.ProtoReflect())
	return out
}

func ruleStrings(fr *validate.FieldRules) []string {
	var out []string
	if s := fr.GetString(); s != nil {
		if s.Const != nil {
			out = append(out, s.GetConst())
		}
		out = append(out, s.GetIn()...)
		out = append(out, s.GetNotIn()...)
	}
	return out
}

// numericProbes returns probe values of the kind around every bound.
func numericProbes(k protoreflect.Kind, bounds []string) []protoreflect.Value {
	var out []protoreflect.Value
	seen := map[string]bool{}
	add := func(v protoreflect.Value) {
		if !seen[v.String()] {
			seen[v.String()] = true
			out = append(out, v)
		}
	}
	switch k {
	case protoreflect.FloatKind, protoreflect.DoubleKind:
		bits := 64
		if k == protoreflect.FloatKind {
			bits = 32
		}
		mk := func(f float64) protoreflect.Value {
			if bits == 32 {
				return protoreflect.ValueOfFloat32(float32(f))
			}
			return protoreflect.ValueOfFloat64(f)
		}
		for _, b := range append(bounds, "0") {
			var f float64
			fmt.Sscanf(b, "%g", &f)
			if bits == 32 {
				f32 := float32(f)
				add(mk(float64(math.Nextafter32(f32, float32(math.Inf(-1))))))
				add(mk(float64(f32)))
				add(mk(float64(math.Nextafter32(f32, float32(math.Inf(1))))))
			} else {
				add(mk(math.Nextafter(f, math.Inf(-1))))
				add(mk(f))
				add(mk(math.Nextafter(f, math.Inf(1))))
			}
			add(mk(f - 1))
			add(mk(f + 1))
		}
		return out
	}
	type rng struct{ lo, hi int64 }
	unsigned := false
	var r rng
	switch k {
	case protoreflect.Int32Kind, protoreflect.Sint32Kind, protoreflect.Sfixed32Kind:
		r = rng{math.MinInt32, math.MaxInt32}
	case protoreflect.Uint32Kind, protoreflect.Fixed32Kind:
		r = rng{0, math.MaxUint32}
		unsigned = true
	case protoreflect.Uint64Kind, protoreflect.Fixed64Kind:
		unsigned = true
		r = rng{0, math.MaxInt64}
	default:
		r = rng{math.MinInt64, math.MaxInt64}
	}
	mk := func(i int64) protoreflect.Value {
		switch k {
		case protoreflect.Int32Kind, protoreflect.Sint32Kind, protoreflect.Sfixed32Kind:
			return protoreflect.ValueOfInt32(int32(i))
		case protoreflect.Uint32Kind, protoreflect.Fixed32Kind:
			return protoreflect.ValueOfUint32(uint32(i))
		case protoreflect.Uint64Kind, protoreflect.Fixed64Kind:
			return protoreflect.ValueOfUint64(uint64(i))
		}
		return protoreflect.ValueOfInt64(i)
	}
	for _, b := range append(bounds, "0") {
		var i int64
		if _, err := fmt.Sscanf(b, "%d", &i); err != nil {
			continue
		}
		for _, d := range []int64{-2, -1, 0, 1, 2} {
			x := i + d
			if x < r.lo || x > r.hi || (unsigned && x < 0) {
				continue
			}
			add(mk(x))
		}
	}
	add(mk(r.hi))
	if !unsigned {
		add(mk(r.lo))
	}
	if k == protoreflect.Uint64Kind || k == protoreflect.Fixed64Kind {
		add(protoreflect.ValueOfUint64(math.MaxUint64))
	}
	return out
}

func stringProbes(fr *validate.FieldRules) []string {
	set := map[string]bool{}
	add := func(s string) { set[s] = true }
	nums := ruleNumbers(fr)
	for _, b := range append(nums, "0", "1") {
		var n int
		if _, err := fmt.Sscanf(b, "%d", &n); err != nil || n > 64 {
			continue
		}
		for _, d := range []int{-1, 0, 1} {
			if n+d < 0 {
				continue
			}
			add(strings.Repeat("a", n+d))
			add(strings.Repeat("é", n+d))
			add(strings.Repeat("𝄞", n+d))
		}
	}
	for _, s := range ruleStrings(fr) {
		add(s)
		add(s + "x")
		add(strings.ToUpper(s))
	}
	for _, s := range []string{"", "12345", "123456", "x12345", "1234", "abc", "abbbc", "xxabcxx", "ac", "a_1", "A1", "1a", "ab", "abz", "zab",
		"user@example.com", "not-an-email", "123e4567-e89b-12d3-a456-426614174000", "not-a-uuid", "https://example.com/x?y=1", "relative/path", "example.com", "exa_mple..com",
		"192.168.0.1", "256.1.1.1", "::1", "2001:db8::8a2e:370:7334", "zzz",
		// for the patterns with slashes, dots and escapes: matching texts and the texts a re-escaped pattern would match instead
		"3/4", `3\/4`, "3.4", "http://example.com", `http:\/\/example.com`, `http:\\/\\/example.com`, "https://a.b", "v1.2", "v1x2", `v1\.2`} {
		add(s)
	}
	var out []string
	for s := range set {
		out = append(out, s)
	}
	sort.Strings(out)
	return out
}

var wellKnownFormat = map[string]string{"email": "email", "uuid": "uuid", "uri": "uri", "hostname": "hostname", "ipv4": "ipv4", "ipv6": "ipv6", "ip": "ip"}

// C19: OpenAPI constraints accept exactly what the declared validation rules accept.
func C19(c *Ctx, r *report.Run) error {
	r.Rule = "F-rules: every supported rule kind x field kind (12 numeric kinds, string, repeated/map of string/int32/int64) x bound values {negative, 0, 1, 10, 2^53+1 for 64-bit, non-integers for float/double}; for each field every probe value at and +-1/+-2 (integers) or +-1 ulp (floats) around every bound, kind extremes, NaN/Inf, strings of length b-1..b+1 in 1/2/4-byte runes, in/const members and non-members, pattern probes, item/pair counts 0..3 incl. duplicates; oracle: M-rules(value) (protovalidate stand-in on a dynamic message) <=> python jsonschema(M-json(value), property schema of the emitted document); required[] <=> required rule; well-known string rules <=> format names; distinct = (kind, rule, bound, outcome)"
	allSpecs, cases := univ.RuleSpecs(c.Thorough)
	var specs []*spec.Spec
	for _, s := range allSpecs {
		if s.Name != "rules_bytes" && s.Name != "rules_affix" { // bytes length and string affix rules are not in the property's rule list; C06 judges what is published for them
			specs = append(specs, s)
		}
	}
	r.Programs = len(specs)
	py := NewPyBatch()
	type pend struct {
		id        int
		cell      string
		ruleOK    bool
		probe     string
		schema    any
		s         *spec.Spec
		field     string
		ruleViols string
	}
	var pending []pend
	reqChecked := map[string]bool{}
	for _, s := range specs {
		l := mustLower(s)
		docs, res, _ := genOAS(c, s, l, "format=json")
		if docs == nil || len(docs) == 0 || docs[0].value == nil {
			r.Violate(s.Cell, "not_generated", res.Err()+res.Symptom(), map[string]any{"spec": s})
			continue
		}
		d := docs[0]
		py.Doc(d.id, d.value)
		// every component schema: a name listed in required[] must be one of its properties (through allOf) - a variant schema
		// of a flattened oneof that requires a member of another variant can never be satisfied
		if comps, ok := model.Ptr(d.value, "/components/schemas"); ok {
			if cm, ok := comps.(map[string]any); ok {
				var names []string
				for n := range cm {
					names = append(names, n)
				}
				sort.Strings(names)
				for _, n := range names {
					props, _, required := model.ObjectMembers(d.value, "/components/schemas/"+model.PtrEscape(n))
					var unknown []string
					for name := range required {
						if _, ok := props[name]; !ok {
							unknown = append(unknown, name)
						}
					}
					sort.Strings(unknown)
					cell := fmt.Sprintf("%s,component=%s", s.Cell, n)
					if len(unknown) > 0 {
						r.Violate(cell+"#required_names", "required_mismatch", fmt.Sprintf("required[] of component %s names %v, which it does not declare as properties", n, unknown), map[string]any{"spec": s, "component": n})
					} else {
						r.Case(cell, "required_names_are_properties", len(required) > 0)
					}
				}
			}
		}
		// every variant schema of a flattened discriminated oneof: the variant message's members are its properties, and its
		// required[] is exactly {discriminator} + the required common fields + the required members of the variant message
		flatVariantSchemas(r, s, d.value)
		for _, rc := range cases[s.Name] {
			msgName := rc.Msg
			if msgName == "" {
				msgName = "R"
			}
			desc, err := l.Files.FindDescriptorByName(protoreflect.FullName(s.Files[0].Package + "." + msgName))
			if err != nil {
				return HarnessError("%v", err)
			}
			md := desc.(protoreflect.MessageDescriptor)
			// properties and required[] of the message schema, also when it is assembled with allOf (flatten, flattened oneof)
			props, propPtrs, required := model.ObjectMembers(d.value, "/components/schemas/"+msgName)
			if !reqChecked[s.Name+"/"+msgName] {
				// every name a schema requires must be one of its properties (a required name without a property can never be satisfied)
				reqChecked[s.Name+"/"+msgName] = true
				var unknown []string
				for name := range required {
					if _, ok := props[name]; !ok {
						unknown = append(unknown, name)
					}
				}
				sort.Strings(unknown)
				if len(unknown) > 0 {
					r.Violate(fmt.Sprintf("%s,msg=%s#required_names", s.Cell, msgName), "required_mismatch", fmt.Sprintf("required[] of %s names %v, which the schema does not declare as properties", msgName, unknown), map[string]any{"spec": s, "message": msgName})
				} else {
					r.Case(fmt.Sprintf("%s,msg=%s", s.Cell, msgName), "required_names_are_properties", true)
				}
			}
			fd := md.Fields().ByName(protoreflect.Name(rc.Field))
			fr := fieldRules(fd)
			cell := fmt.Sprintf("%s,%s", s.Cell, rc.Label)
			if rc.Card != "" {
				cell += ",card=" + rc.Card
			}
			ptr := propPtrs[fd.JSONName()]
			schema, ok := props[fd.JSONName()]
			if !ok {
				ptr = "/components/schemas/" + msgName + "/properties/" + fd.JSONName()
			}
			replay := map[string]any{"spec": s, "field": rc.Field, "rules": rc.Rules}
			if !ok {
				r.Violate(cell, "schema_missing", "no property schema at "+ptr, replay)
				continue
			}
			// required <=> required[]
			// required[] must name the property key (the JSON name), which is what a JSON Schema validator looks up
			if fr.GetRequired() != required[fd.JSONName()] {
				r.Violate(cell+"#required", "required_mismatch", fmt.Sprintf("rule required=%v, schema required[] lists it: %v", fr.GetRequired(), required[fd.JSONName()]), replay)
				r.Case(cell, "required_mismatch", true)
			} else {
				r.Case(cell, "required_agrees", true)
			}
			if fr.GetRequired() {
				continue
			}
			// well-known format names
			if sr := fr.GetString(); sr != nil && sr.GetWellKnown() != nil {
				want := ""
				for k, v := range wellKnownFormat {
					if strings.Contains(rc.Rules, k+":true") && strings.HasPrefix(rc.Rules, "string:{"+k) {
						want = v
					}
				}
				got, _ := schema.(map[string]any)["format"].(string)
				if want != "" && got != want {
					r.Violate(cell+"#format", "format_name", fmt.Sprintf("rule %s published as format %q, want %q", rc.Rules, got, want), replay)
					r.Case(cell, "format_name", true)
				} else {
					r.Case(cell, "format_name_ok", true)
				}
				continue // format assertion is not part of validation
			}
			// probes
			type probe struct {
				label string
				set   func(m protoreflect.Message)
			}
			var probes []probe
			switch {
			case fd.IsList():
				elem := func(i int) protoreflect.Value {
					switch fd.Kind() {
					case protoreflect.StringKind:
						return protoreflect.ValueOfString([]string{"a", "bb", "ccc", "a"}[i%4])
					case protoreflect.Int32Kind:
						return protoreflect.ValueOfInt32([]int32{1, 2, 0, 1}[i%4])
					}
					return protoreflect.ValueOfInt64([]int64{1, 2, -3, 1}[i%4])
				}
				for n := 0; n <= 4; n++ {
					n := n
					probes = append(probes, probe{fmt.Sprintf("items=%d", n), func(m protoreflect.Message) {
						for i := 0; i < n; i++ {
							m.Mutable(fd).List().Append(elem(i))
						}
					}})
				}
			case fd.IsMap():
				for n := 0; n <= 3; n++ {
					n := n
					probes = append(probes, probe{fmt.Sprintf("pairs=%d", n), func(m protoreflect.Message) {
						for i := 0; i < n; i++ {
							var v protoreflect.Value
							switch fd.MapValue().Kind() {
							case protoreflect.StringKind:
								v = protoreflect.ValueOfString("v")
							case protoreflect.Int32Kind:
								v = protoreflect.ValueOfInt32(int32(i))
							default:
								v = protoreflect.ValueOfInt64(int64(i))
							}
							m.Mutable(fd).Map().Set(protoreflect.ValueOfString(fmt.Sprintf("k%d", i)).MapKey(), v)
						}
					}})
				}
			case fd.Kind() == protoreflect.StringKind:
				for _, sv := range stringProbes(fr) {
					sv := sv
					probes = append(probes, probe{fmt.Sprintf("%q", sv), func(m protoreflect.Message) { m.Set(fd, protoreflect.ValueOfString(sv)) }})
				}
			default:
				for _, v := range numericProbes(fd.Kind(), ruleNumbers(fr)) {
					v := v
					probes = append(probes, probe{v.String(), func(m protoreflect.Message) { m.Set(fd, v) }})
				}
			}
			for _, p := range probes {
				msg := dynamicpb.NewMessage(md)
				p.set(msg)
				var viols []string
				for _, v := range protovalidate.Check(msg) {
					els := v.Proto.GetField().GetElements()
					if len(els) > 0 && els[0].GetFieldName() == string(fd.Name()) {
						viols = append(viols, v.Proto.GetRuleId())
					}
				}
				enc, err := model.Encode(msg, model.EncOpts{Explicit: true})
				if err != nil {
					return HarnessError("M-json: %v", err)
				}
				inst, present := enc.(map[string]any)[fd.JSONName()]
				if !present {
					continue
				}
				var inline any
				if propPtrs[fd.JSONName()] == "" {
					inline = schema // assembled from oneOf branches that differ: validated as an inline schema
				}
				id := py.Validate(d.id, ptr, inline, false, inst)
				pending = append(pending, pend{id, cell, len(viols) == 0, p.label, schema, s, rc.Field, strings.Join(viols, ",")})
			}
		}
	}
	results, err := py.Run(c)
	if err != nil {
		return err
	}
	for _, p := range pending {
		res := results[p.id]
		sj, _ := json.Marshal(p.schema)
		replay := map[string]any{"spec": p.s, "field": p.field, "probe": p.probe, "schema": string(sj)}
		switch {
		case p.ruleOK && !res.OK:
			r.Violate(p.cell+"#rule_accepts", "rule_accepts_schema_rejects", fmt.Sprintf("probe %s satisfies the rules but the schema %s rejects its JSON form: %s", p.probe, short(string(sj), 200), res.Errors[0].String()), replay)
			r.Case(p.cell, "rule_accepts_schema_rejects", true)
		case !p.ruleOK && res.OK:
			r.Violate(p.cell+"#schema_accepts", "schema_accepts_rule_rejects", fmt.Sprintf("probe %s violates %s but the schema %s accepts its JSON form", p.probe, p.ruleViols, short(string(sj), 200)), replay)
			r.Case(p.cell, "schema_accepts_rule_rejects", true)
		case p.ruleOK:
			r.Case(p.cell, "both_accept", true)
		default:
			r.Case(p.cell, "both_reject", true)
		}
	}
	r.Sample(map[string]any{"probes": len(pending), "example": "rules/kind=int32,rule=gte,bound=0 probes -2,-1,0,1,2,MAX,MIN"})
	r.States, r.Transitions, r.Traces = r.Evaluations, r.Evaluations, r.Evaluations
	r.Assumptions = []string{"M-rules = the protovalidate stand-in's standard-rule semantics; JSON Schema format keywords are annotations (not asserted); patterns are restricted to the RE2/ECMA-262 common subset"}
	return nil
}

// flatVariantSchemas compares the per-variant component schemas (<Msg>_<discriminator value>) of every message with a
// flattened discriminated oneof with the declarations: properties must include every member of the variant message, and
// required[] must be {discriminator} + required common fields + required members of the variant message - no more, no less.
func flatVariantSchemas(r *report.Run, s *spec.Spec, doc any) {
	isReq := func(f *spec.Field) bool { return strings.Contains(f.Rules, "required:true") || strings.Contains(f.Rules, "required: true") }
	f0 := s.Files[0]
	byName := map[string]*spec.Message{}
	for _, m := range f0.Messages {
		byName[m.Name] = m
	}
	for _, m := range f0.Messages {
		for _, o := range m.Oneofs {
			if !o.Config || !o.Flatten {
				continue
			}
			wantCommon := map[string]bool{o.Disc: true}
			inAny := map[string]bool{}
			for _, o2 := range m.Oneofs {
				if o2.Config {
					for _, f := range m.Fields {
						if f.Oneof == o2.Name {
							inAny[f.Name] = true
						}
					}
				}
			}
			for _, f := range m.Fields {
				if !inAny[f.Name] && isReq(f) {
					wantCommon[spec.FieldJSONName(f)] = true
				}
			}
			for _, f := range m.Fields {
				if f.Oneof != o.Name || f.Kind != "message" {
					continue
				}
				val := f.Name
				if f.OneofValue != nil && *f.OneofValue != "" {
					val = *f.OneofValue
				}
				vm := byName[strings.TrimPrefix(f.Type, ".")]
				if vm == nil {
					continue
				}
				comp := m.Name + "_" + val
				cell := fmt.Sprintf("%s,component=%s", s.Cell, comp)
				props, _, required := model.ObjectMembers(doc, "/components/schemas/"+model.PtrEscape(comp))
				if props == nil {
					continue // the document does not have that component: C18 checks references
				}
				want := map[string]bool{}
				for k := range wantCommon {
					want[k] = true
				}
				var missingProps []string
				for _, cf := range vm.Fields {
					jn := spec.FieldJSONName(cf)
					if _, ok := props[jn]; !ok {
						missingProps = append(missingProps, jn)
					}
					if isReq(cf) {
						want[jn] = true
					}
				}
				var lacks, extra []string
				for k := range want {
					if !required[k] {
						lacks = append(lacks, k)
					}
				}
				for k := range required {
					if !want[k] {
						extra = append(extra, k)
					}
				}
				sort.Strings(missingProps)
				sort.Strings(lacks)
				sort.Strings(extra)
				switch {
				case len(missingProps) > 0:
					r.Violate(cell+"#variant_members", "variant_member_undescribed", fmt.Sprintf("variant schema %s does not describe the members %v of %s (their rules are not published)", comp, missingProps, vm.Name), map[string]any{"spec": s, "component": comp})
				case len(lacks) > 0 || len(extra) > 0:
					r.Violate(cell+"#variant_required", "required_mismatch", fmt.Sprintf("required[] of variant schema %s: rules require %v in addition, schema requires %v without a rule", comp, lacks, extra), map[string]any{"spec": s, "component": comp})
				default:
					r.Case(cell, "variant_schema_matches_rules", true)
				}
			}
		}
	}
}
