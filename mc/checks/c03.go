package checks

import (
	"encoding/base64"
	"fmt"
	"net/url"
	"sort"
	"strings"

	"verif/mc/model"
	"verif/mc/report"
	"verif/mc/rt"
	"verif/mc/spec"
	"verif/mc/ws"
)

func init() { Registry["C03"] = C03 }

// routeObs is what one artefact says about one RPC.
type routeObs struct {
	Verb     string
	Template string            // normalised: variables as {name} (name "" if unknown)
	Place    map[string]string // field json name -> "path" | "query:<name>" | "body"
	HasBody  bool              // client: the request carries a body; openapi: the operation declares a requestBody
	Known    bool
	Note     string
}

func normTemplate(t string) string {
	parts := strings.Split(t, "/")
	for i, p := range parts {
		if strings.HasPrefix(p, "{") && strings.HasSuffix(p, "}") {
			parts[i] = "{}"
		}
	}
	return strings.Join(parts, "/")
}

func templateVars(t string) []string {
	v := model.PathTemplateVars(t)
	sort.Strings(v)
	return v
}

// clientObs recovers verb/template/placement from two probe recordings of a client.
func clientObs(p1, p2 map[string]any, c1, c2 *rt.TSCase, bodyKey string) routeObs {
	o := routeObs{Place: map[string]string{}}
	if p1 == nil || p2 == nil {
		return o
	}
	u1, err1 := url.Parse(str(p1, "url"))
	u2, err2 := url.Parse(str(p2, "url"))
	if err1 != nil || err2 != nil {
		o.Note = "unparsable url"
		return o
	}
	o.Verb = str(p1, "method")
	// field values of probe 1 by json name
	obj1, _ := model.Parse(c1.ReqObj)
	vals := map[string]string{}
	if m, ok := obj1.(map[string]any); ok {
		for k, v := range m {
			switch x := v.(type) {
			case string:
				vals[k] = x
			case []any:
				if len(x) > 0 {
					vals[k] = strings.Trim(string(model.Marshal(x[0])), `"`)
				}
			default:
				vals[k] = string(model.Marshal(v))
			}
		}
	}
	s1, s2 := strings.Split(u1.EscapedPath(), "/"), strings.Split(u2.EscapedPath(), "/")
	if len(s1) != len(s2) {
		o.Note = "probe paths have different lengths"
		return o
	}
	var tmpl []string
	for i := range s1 {
		if s1[i] == s2[i] {
			tmpl = append(tmpl, s1[i])
			continue
		}
		seg, _ := url.PathUnescape(s1[i])
		name := ""
		for k, v := range vals {
			if v == seg {
				name = k
			}
		}
		tmpl = append(tmpl, "{"+name+"}")
		if name != "" {
			o.Place[name] = "path"
		}
	}
	o.Template = strings.Join(tmpl, "/")
	for qn, qv := range u1.Query() {
		for k, v := range vals {
			if len(qv) > 0 && v == qv[0] {
				o.Place[k] = "query:" + qn
			}
		}
	}
	var body []byte
	if bodyKey == "bodyB64" {
		body, _ = base64.StdEncoding.DecodeString(str(p1, "bodyB64"))
	} else if p1["body"] != nil {
		body = []byte(str(p1, "body"))
	}
	o.HasBody = len(body) > 0
	if len(body) > 0 {
		if bv, err := model.Parse(body); err == nil {
			if bm, ok := bv.(map[string]any); ok {
				for k := range bm {
					if _, bound := o.Place[k]; !bound {
						o.Place[k] = "body"
					}
				}
			}
		}
	}
	o.Known = true
	return o
}

// C03: all five generators agree on each RPC's verb, path and parameter placement.
func C03(c *Ctx, r *report.Run) error {
	r.Rule = "F-route (base_path {absent, /api, api, /api/, /api/v1} x method config {absent, path only, verb only, both, no leading slash}; 7 path shapes x 5 verbs; method-name shapes on default routes with/without base path; query parameters on body verbs, renamed/required) plus the core REST/query/path-kind/multi-service units: per RPC five observations are taken from the real artefacts - Go client and TS client (verb, path template and field placement recovered from two probe requests with distinctive values in every field), TS server (emitted RouteDescriptors), OpenAPI (operation, parameters, body schema), Go server (which RPC each artefact's concrete request is dispatched to) - and compared pairwise; every RPC must be exactly one OpenAPI operation; distinct = (unit, rpc, comparison, outcome)"
	var specs []*spec.Spec
	for _, s := range serviceSpecs(c) {
		if (hasTag(s, "route") || (hasTag(s, "core") && !hasTag(s, "codec"))) && len(s.Files) == 1 && !hasTag(s, "serveronly") {
			specs = append(specs, s)
		}
	}
	r.Programs = len(specs)
	w, err := ws.Build(c.Bins, specs, ws.Options{Variant: ws.HC, Tag: "rtHC03", Harness: true, TS: true, OAS: true, OASJSON: true})
	if err != nil {
		return err
	}
	units := blocked(r, w, "C03")
	d, err := c08Pipeline(c, w, units, true)
	if err != nil {
		return err
	}
	// group probe cases per RPC
	type key struct{ unit, svc, rpc string }
	probes := map[key][2]*rt.TSCase{}
	for _, id := range d.order {
		tc := d.cases[id]
		k := key{tc.Unit, tc.Svc, tc.RPC}
		p := probes[k]
		switch tc.Class {
		case "probe1":
			p[0] = tc
		case "probe2":
			p[1] = tc
		}
		probes[k] = p
	}
	var keys []key
	for k := range probes {
		keys = append(keys, k)
	}
	sort.Slice(keys, func(i, j int) bool { return fmt.Sprint(keys[i]) < fmt.Sprint(keys[j]) })
	docs := map[string]any{}
	for _, k := range keys {
		p := probes[k]
		if p[0] == nil || p[1] == nil {
			continue
		}
		u := w.Unit(k.unit)
		cellBase := fmt.Sprintf("%s,rpc=%s.%s", u.Spec.Cell, k.svc, k.rpc)
		replay := map[string]any{"spec": u.Spec, "rpc": k.svc + "." + k.rpc}
		obs := map[string]routeObs{}
		obs["go-client"] = clientObs(reqOf(d.goRec[p[0].ID]), reqOf(d.goRec[p[1].ID]), p[0], p[1], "bodyB64")
		obs["ts-client"] = clientObs(reqOf(d.tsRec[p[0].ID]), reqOf(d.tsRec[p[1].ID]), p[0], p[1], "body")
		// TS server: the route that handles the TS client's probe
		if rts, ok := d.routes[k.unit+"|"+k.svc]; ok {
			if h := d.tsts[p[0].ID]; h != nil && strings.EqualFold(str(h, "handled"), k.rpc) {
				// find the descriptor by matching the TS client's concrete path
				if rl, ok := rts["routes"].([]any); ok {
					tc := obs["ts-client"]
					for _, x := range rl {
						rm, _ := x.(map[string]any)
						if str(rm, "method") == tc.Verb && normTemplate(str(rm, "path")) == normTemplate(tc.Template) {
							o := routeObs{Verb: str(rm, "method"), Template: str(rm, "path"), Place: map[string]string{}, Known: true}
							for _, v := range model.PathTemplateVars(o.Template) {
								o.Place[spec.RequestFieldJSONName(u.Spec, k.svc, k.rpc, v)] = "path"
							}
							obs["ts-server"] = o
						}
					}
				}
			}
			if _, ok := obs["ts-server"]; !ok {
				// fall back: a descriptor whose handler name cannot be observed; report below through dispatch checks
				obs["ts-server"] = routeObs{Note: "no RouteDescriptor matches the TS client's request"}
			}
		}
		// OpenAPI
		dk := k.unit + "|" + k.svc
		if _, ok := docs[dk]; !ok {
			for n, content := range u.OASFiles {
				if n == k.svc+".openapi.json" {
					docs[dk], _ = model.LoadOAS(n, content)
				}
			}
		}
		nOps := 0
		if doc := docs[dk]; doc != nil {
			for _, op := range model.Operations(doc) {
				if op.OperationID != k.rpc {
					continue
				}
				nOps++
				o := routeObs{Verb: op.Verb, Template: op.Path, Place: map[string]string{}, Known: true}
				for _, prm := range op.Params {
					switch prm.In {
					case "path":
						o.Place[spec.RequestFieldJSONName(u.Spec, k.svc, k.rpc, prm.Name)] = "path"
					case "query":
						o.Place["?"+prm.Name] = "query:" + prm.Name
					}
				}
				o.HasBody = op.BodyPtr != ""
				if op.BodyPtr != "" {
					if sch, ok := model.Ptr(doc, op.BodyPtr); ok {
						if ref, ok := sch.(map[string]any)["$ref"].(string); ok {
							sch, _ = model.Ptr(doc, ref[1:])
						}
						if props, ok := sch.(map[string]any)["properties"].(map[string]any); ok {
							for pn := range props {
								o.Place["body:"+pn] = "body"
							}
						}
					}
				}
				obs["openapi"] = o
			}
		}
		if nOps != 1 {
			sym := "operation_missing"
			if nOps > 1 {
				sym = "operation_duplicated"
			}
			r.Violate(cellBase+"#openapi", sym, fmt.Sprintf("%d operations with operationId %s in the document of %s", nOps, k.rpc, k.svc), replay)
			r.Case(cellBase, sym, true)
		}
		// pairwise verb / template agreement
		names := []string{"go-client", "ts-client", "ts-server", "openapi"}
		for i := 0; i < len(names); i++ {
			for j := i + 1; j < len(names); j++ {
				a, b := obs[names[i]], obs[names[j]]
				if !a.Known || !b.Known {
					continue
				}
				pair := names[i] + "~" + names[j]
				if a.Verb != b.Verb {
					r.Violate(cellBase+"#"+pair, "verb_differs("+pair+")", fmt.Sprintf("%s: %s %s | %s: %s %s", names[i], a.Verb, a.Template, names[j], b.Verb, b.Template), replay)
					r.Case(cellBase, "verb_differs", true)
				} else if normTemplate(a.Template) != normTemplate(b.Template) {
					r.Violate(cellBase+"#"+pair, "path_differs("+pair+")", fmt.Sprintf("%s: %s %s | %s: %s %s", names[i], a.Verb, a.Template, names[j], b.Verb, b.Template), replay)
					r.Case(cellBase, "path_differs", true)
				} else if pair == "ts-server~openapi" && a.Template != b.Template {
					// both publish the declared template: the variables must carry the same names too (a variable's name is what binds it to a field)
					r.Violate(cellBase+"#"+pair, "path_variable_names_differ("+pair+")", fmt.Sprintf("%s: %s %s | %s: %s %s", names[i], a.Verb, a.Template, names[j], b.Verb, b.Template), replay)
					r.Case(cellBase, "path_variable_names_differ", true)
				} else {
					r.Case(cellBase, "verb_and_path_agree:"+pair, true)
				}
			}
		}
		for _, n := range names {
			if o, ok := obs[n]; ok && !o.Known && n != "openapi" {
				r.Violate(cellBase+"#"+n, "observation_failed("+n+")", o.Note, replay)
			}
		}
		// Go server dispatch of each client's concrete request
		for name, served := range map[string]map[string]any{"go-client": d.servedGo[p[0].ID], "ts-client": d.served[p[0].ID]} {
			if served == nil {
				continue
			}
			if str(served, "handler_rpc") == "" && str(served, "status") == "400" {
				// the route exists (the binding middleware answered); why the request was refused is C01/C02's subject
				r.Case(cellBase, "go_server_routes(400):"+name, true)
				continue
			}
			if str(served, "handler_rpc") != k.svc+"."+k.rpc {
				got := str(served, "handler_rpc")
				if got == "" {
					got = "no handler (status " + str(served, "status") + ")"
				}
				r.Violate(cellBase+"#go-server~"+name, "path_differs(go-server~"+name+")", fmt.Sprintf("%s: the Go server dispatches it to %s", str(served, "line"), got), replay)
				r.Case(cellBase, "go_server_does_not_route", true)
			} else {
				r.Case(cellBase, "go_server_routes:"+name, true)
			}
		}
		// placement: both clients agree, and the document publishes what the clients send
		gc, tc := obs["go-client"], obs["ts-client"]
		if gc.Known && tc.Known {
			for f, loc := range gc.Place {
				if tl, ok := tc.Place[f]; ok && tl != loc {
					r.Violate(cellBase+"#placement", "placement_incompatible(go-client~ts-client)", fmt.Sprintf("field %s: go-client %s, ts-client %s", f, loc, tl), replay)
					r.Case(cellBase, "placement_incompatible", true)
				}
			}
			// every URL-bound field carries a distinctive non-default value in the probes: a field one client puts in the URL must travel in the other's request too
			for _, pair := range [][2]string{{"go-client", "ts-client"}, {"ts-client", "go-client"}} {
				a, b := obs[pair[0]], obs[pair[1]]
				var lost []string
				for f, loc := range a.Place {
					if _, ok := b.Place[f]; !ok && loc != "body" { // body members left empty by a probe may be spelled out or omitted
						lost = append(lost, f+" ("+loc+")")
					}
				}
				sort.Strings(lost)
				if len(lost) > 0 {
					r.Violate(cellBase+"#placement:absent:"+pair[1], "placement_incompatible(go-client~ts-client)", fmt.Sprintf("the %s sends %v, the %s sends these fields nowhere", pair[0], lost, pair[1]), replay)
					r.Case(cellBase, "placement_incompatible", true)
				}
			}
		}
		if oa := obs["openapi"]; oa.Known {
			for cname, co := range map[string]routeObs{"go-client": gc, "ts-client": tc} {
				if !co.Known {
					continue
				}
				// a request body is sent exactly when the operation declares one
				if co.HasBody != oa.HasBody {
					r.Violate(cellBase+"#body:"+cname, "placement_incompatible("+cname+"~openapi)", fmt.Sprintf("request body: the %s sends one: %v, the operation declares a requestBody: %v", cname, co.HasBody, oa.HasBody), replay)
					r.Case(cellBase, "placement_incompatible", true)
				} else {
					r.Case(cellBase, "body_presence_agrees", true)
				}
				for f, loc := range co.Place {
					okp := false
					switch {
					case loc == "path":
						okp = oa.Place[f] == "path"
					case strings.HasPrefix(loc, "query:"):
						okp = oa.Place["?"+strings.TrimPrefix(loc, "query:")] == loc
					case loc == "body":
						okp = oa.Place["body:"+f] == "body"
					}
					if !okp {
						r.Violate(cellBase+"#placement:"+cname, "placement_incompatible("+cname+"~openapi)", fmt.Sprintf("field %s travels as %s in the %s request but the operation does not publish it there (%v)", f, loc, cname, sortedPlace(oa.Place)), replay)
						r.Case(cellBase, "placement_incompatible", true)
					} else {
						r.Case(cellBase, "placement_published", true)
					}
				}
			}
		}
		if len(r.Samples) < 4 {
			r.Sample(map[string]any{"rpc": k.svc + "." + k.rpc, "observations": obs})
		}
	}
	r.States, r.Transitions, r.Traces = r.Evaluations, r.Evaluations, r.Evaluations
	r.Assumptions = []string{"templates are compared modulo variable names (the variable name sets are compared through placement)", "the Go server's template is observed through dispatch of the other artefacts' concrete requests (net/http ServeMux exposes no route list)"}
	return nil
}

func reqOf(m map[string]any) map[string]any {
	if m == nil {
		return nil
	}
	r, _ := m["request"].(map[string]any)
	return r
}

func sortedPlace(m map[string]string) []string {
	var out []string
	for k, v := range m {
		out = append(out, k+"="+v)
	}
	sort.Strings(out)
	return out
}
