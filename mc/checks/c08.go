package checks

import (
	"bufio"
	"bytes"
	"encoding/base64"
	"encoding/json"
	"fmt"
	"net/http"
	"os"
	"os/exec"
	"path/filepath"
	"regexp"
	"sort"
	"strings"
	"sync"

	"verif/mc/model"
	"verif/mc/report"
	"verif/mc/rt"
	"verif/mc/spec"
	"verif/mc/ws"
)

func init() { Registry["C08"] = C08 }

// collectRaw runs a harness driver over the units and returns every emitted JSONL record.
func collectRaw(c *Ctx, w *ws.Workspace, driver string, units []rt.JobUnit, params map[string]string) ([]json.RawMessage, error) {
	shards := c.Workers
	if shards > len(units) {
		shards = len(units)
	}
	if shards == 0 {
		return nil, nil
	}
	groups := make([][]rt.JobUnit, shards)
	for i, u := range units {
		groups[i%shards] = append(groups[i%shards], u)
	}
	work, err := os.MkdirTemp(w.Dir, "run-")
	if err != nil {
		return nil, err
	}
	defer os.RemoveAll(work)
	var mu sync.Mutex
	var out []json.RawMessage
	var firstErr error
	var wg sync.WaitGroup
	for i, g := range groups {
		wg.Add(1)
		go func(i int, g []rt.JobUnit) {
			defer wg.Done()
			jb, _ := json.Marshal(rt.Job{Thorough: c.Thorough, Mode: driver, Units: g, Params: params})
			jp := filepath.Join(work, fmt.Sprintf("job%d.json", i))
			os.WriteFile(jp, jb, 0o644)
			cmd := exec.Command(w.Harness, driver, jp)
			var stderr bytes.Buffer
			cmd.Stderr = &stderr
			ob, err := cmd.Output()
			mu.Lock()
			defer mu.Unlock()
			if err != nil {
				if firstErr == nil {
					firstErr = HarnessError("harness %s %v: %v %s", driver, params, err, short(stderr.String(), 2000))
				}
				return
			}
			sc := bufio.NewScanner(bytes.NewReader(ob))
			sc.Buffer(make([]byte, 1<<20), 1<<26)
			for sc.Scan() {
				out = append(out, append(json.RawMessage(nil), sc.Bytes()...))
			}
		}(i, g)
	}
	wg.Wait()
	// a stage whose fixture could not be built because the generated Register<Service>Server panicked says so in a
	// "viol" record (stages that count cases themselves, e.g. the tscases pass of c10, repeat their ordinary records
	// here: only this symptom is taken from raw stages)
	if c.Run != nil {
		for _, rr := range out {
			var rec struct{ K, Cell, Symptom, Detail string }
			if json.Unmarshal(rr, &rec) == nil && rec.K == "viol" && rec.Symptom == "server_registration_panics" {
				c.Run.Violate(rec.Cell, rec.Symptom, rec.Detail, nil)
			}
		}
	}
	return out, firstErr
}

func writeJSONL(path string, recs []any) error {
	f, err := os.Create(path)
	if err != nil {
		return err
	}
	defer f.Close()
	w := bufio.NewWriterSize(f, 1<<20)
	for _, r := range recs {
		b, err := json.Marshal(r)
		if err != nil {
			return err
		}
		w.Write(b)
		w.WriteByte('\n')
	}
	return w.Flush()
}

// runNode runs the bridge on a batch of operations and returns the answers by id.
func runNode(c *Ctx, w *ws.Workspace, ops []any) (map[string]map[string]any, error) {
	dir, err := os.MkdirTemp(w.Dir, "node-")
	if err != nil {
		return nil, err
	}
	defer os.RemoveAll(dir)
	in, out := filepath.Join(dir, "in.jsonl"), filepath.Join(dir, "out.jsonl")
	if err := writeJSONL(in, ops); err != nil {
		return nil, err
	}
	cmd := exec.Command(node22(), "--no-warnings", filepath.Join(c.McDir, "js", "bridge.mjs"), filepath.Join(w.Dir, "ts"), in, out)
	if ob, err := cmd.CombinedOutput(); err != nil {
		return nil, HarnessError("node bridge failed: %v %s", err, short(string(ob), 2000))
	}
	res := map[string]map[string]any{}
	f, err := os.Open(out)
	if err != nil {
		return nil, err
	}
	defer f.Close()
	sc := bufio.NewScanner(f)
	sc.Buffer(make([]byte, 1<<20), 1<<26)
	for sc.Scan() {
		if len(bytes.TrimSpace(sc.Bytes())) == 0 {
			continue
		}
		dec := json.NewDecoder(bytes.NewReader(sc.Bytes()))
		dec.UseNumber()
		m := map[string]any{}
		if err := dec.Decode(&m); err != nil {
			return nil, HarnessError("node bridge output: %v", err)
		}
		id, _ := m["id"].(string)
		res[id] = m
	}
	if len(res) != len(ops) {
		return nil, HarnessError("node bridge answered %d of %d operations (desync)", len(res), len(ops))
	}
	return res, nil
}

// tsModules returns the relative paths (under ws/ts) of the client and server modules of a single-file unit.
// oneServiceFile: the spec has exactly one file that declares services (the TS plugins emit one self-contained module per
// service file, re-declaring the types it imports; units with several service files are generation-level units).
func oneServiceFile(s *spec.Spec) bool {
	n := 0
	for _, f := range s.Files {
		if len(f.Services) > 0 {
			n++
		}
	}
	return n == 1
}

func tsModules(u *ws.Unit) (client, server string) {
	for n := range u.TSFiles {
		if strings.HasSuffix(n, "_client.ts") {
			client = filepath.Join(u.Name, n)
		}
		if strings.HasSuffix(n, "_server.ts") {
			server = filepath.Join(u.Name, n)
		}
	}
	return
}

var ifaceRe = regexp.MustCompile(`(?s)export interface (\w+) \{(.*?)\n\}`)
var propRe = regexp.MustCompile(`(?m)^\s*(\w+)\??:`)

// tsHelperProps lists the typed header options of the TS client of a service.
func tsHelperProps(src, svc string) (client, call []string) {
	for _, m := range ifaceRe.FindAllStringSubmatch(src, -1) {
		var dst *[]string
		skip := map[string]bool{}
		switch m[1] {
		case svc + "ClientOptions":
			dst, skip = &client, map[string]bool{"fetch": true, "defaultHeaders": true}
		case svc + "CallOptions":
			dst, skip = &call, map[string]bool{"headers": true, "signal": true}
		default:
			continue
		}
		for _, p := range propRe.FindAllStringSubmatch(m[2], -1) {
			if !skip[p[1]] {
				*dst = append(*dst, p[1])
			}
		}
	}
	return
}

func jsonEq(a, b any) string { return model.Diff(a, b) }

func toTree(v any) any {
	b, _ := json.Marshal(v)
	t, _ := model.Parse(b)
	return t
}

// C08: generated TypeScript clients and servers interoperate with the Go ones.
func C08(c *Ctx, r *report.Run) error {
	r.Rule = "for every RPC of the REST/query/path-kind/header/multi-service/codec units and every enumerated request / response value expressible in TypeScript (JSON numbers within 2^53, no non-finite floats): (1) TS client -> Go server: the emitted TS client runs under node 22 with a recording fetch, the recorded request is replayed byte-for-byte on the generated Go server, the Go response is fed back to the TS client; (2) Go client -> TS server: the generated Go client's recorded request is routed through the emitted RouteDescriptors to the emitted TS handler, whose response is fed back to the Go client; (3) TS client -> TS server inside node; oracle: the handler of the same RPC receives the request the caller passed and the caller receives the handler's response; (4) every typed header option of both clients is called with a marker and must put it under exactly the declared header name; distinct = (unit, rpc, pairing, outcome)"
	var specs []*spec.Spec
	for _, s := range serviceSpecs(c) {
		if !hasTag(s, "ctx") && !hasTag(s, "rules") && !hasTag(s, "mock") && oneServiceFile(s) && !hasTag(s, "genonly") && !hasTag(s, "serveronly") {
			specs = append(specs, s)
		}
	}
	r.Programs = len(specs)
	w, err := ws.Build(c.Bins, specs, ws.Options{Variant: ws.CH, Tag: "rtCH08", Harness: true, TS: true})
	if err != nil {
		return err
	}
	units := blocked(r, w, "C08")
	data, err := c08Pipeline(c, w, units, false)
	if err != nil {
		return err
	}
	c08Judge(r, w, data)
	c08JudgeGoHelpers(r, w, data)
	r.States, r.Transitions, r.Traces = r.Evaluations, r.Evaluations, r.Evaluations
	r.Assumptions = []string{"node 22 (fetch/Request/Response/URL, type stripping) is the standards-compliant runtime; calls are split into record / serve / finish stages, which is equivalent to a live call because neither generated client keeps state between the request and the response",
		"a TS value is the documented JSON form with every field present (the emitted interfaces declare every field as required)"}
	return nil
}

// tsData is everything the staged pipeline produced, per case id.
type tsData struct {
	cases        map[string]*rt.TSCase
	order        []string
	tsRec        map[string]map[string]any // node client_record
	served       map[string]map[string]any // Go server replay
	tsFin        map[string]map[string]any // node client_finish
	goRec        map[string]map[string]any
	tsHandled    map[string]map[string]any
	goFin        map[string]map[string]any
	tsts         map[string]map[string]any
	routes       map[string]map[string]any // unit|svc
	helpers      map[string]map[string]any
	goHelpers    []map[string]any
	goPrecedence []map[string]any
	servedGo     map[string]map[string]any // Go client's request replayed on the Go server
}

func decodeRec(raw json.RawMessage) map[string]any {
	dec := json.NewDecoder(bytes.NewReader(raw))
	dec.UseNumber()
	m := map[string]any{}
	dec.Decode(&m)
	return m
}

func c08Pipeline(c *Ctx, w *ws.Workspace, units []rt.JobUnit, probesOnly bool) (*tsData, error) {
	d := &tsData{cases: map[string]*rt.TSCase{}, served: map[string]map[string]any{}, goRec: map[string]map[string]any{}, goFin: map[string]map[string]any{}}
	cparams := map[string]string{"stage": "cases"}
	if probesOnly {
		cparams["probes_only"] = "1"
	}
	raw, err := collectRaw(c, w, "c08", units, cparams)
	if err != nil {
		return nil, err
	}
	for _, rr := range raw {
		tc := &rt.TSCase{}
		if json.Unmarshal(rr, tc) == nil && tc.K == "case" {
			d.cases[tc.ID] = tc
			d.order = append(d.order, tc.ID)
		}
	}
	sort.Strings(d.order)
	mods := map[string][2]string{}
	for _, u := range w.Units {
		cl, sv := tsModules(u)
		mods[u.Name] = [2]string{cl, sv}
	}
	stage, err := os.MkdirTemp(w.Dir, "c08-")
	if err != nil {
		return nil, err
	}
	defer os.RemoveAll(stage)
	// (1a) TS client records
	var ops []any
	for _, id := range d.order {
		tc := d.cases[id]
		ops = append(ops, map[string]any{"op": "client_record", "id": id, "client": mods[tc.Unit][0], "svc": tc.Svc, "rpc": tc.RPC, "reqObj": tc.ReqObj, "defaultHeaders": tc.Headers})
	}
	if d.tsRec, err = runNode(c, w, ops); err != nil {
		return nil, err
	}
	// (1b) Go server replays
	var recs []any
	for _, id := range d.order {
		if req, ok := d.tsRec[id]["request"]; ok && req != nil {
			m := map[string]any{}
			b, _ := json.Marshal(d.cases[id])
			json.Unmarshal(b, &m)
			m["request"] = req
			recs = append(recs, m)
		}
	}
	in1 := filepath.Join(stage, "serve.jsonl")
	if err := writeJSONL(in1, recs); err != nil {
		return nil, err
	}
	raw, err = collectRaw(c, w, "c08", units, map[string]string{"stage": "serve", "in": in1})
	if err != nil {
		return nil, err
	}
	for _, rr := range raw {
		m := decodeRec(rr)
		if m["k"] == "served" {
			d.served[m["id"].(string)] = m
		}
	}
	// (1c) TS client finishes with the Go response
	ops = nil
	for _, id := range d.order {
		sv, ok := d.served[id]
		if !ok || sv["status"] == nil {
			continue
		}
		tc := d.cases[id]
		ops = append(ops, map[string]any{"op": "client_finish", "id": id, "client": mods[tc.Unit][0], "svc": tc.Svc, "rpc": tc.RPC, "reqObj": tc.ReqObj, "defaultHeaders": tc.Headers,
			"resp": map[string]any{"status": sv["status"], "headers": sv["headers"], "bodyB64": sv["bodyB64"]}})
	}
	if d.tsFin, err = runNode(c, w, ops); err != nil {
		return nil, err
	}
	// (2a) Go client records
	recs = nil
	for _, id := range d.order {
		recs = append(recs, d.cases[id])
	}
	in2 := filepath.Join(stage, "cases.jsonl")
	if err := writeJSONL(in2, recs); err != nil {
		return nil, err
	}
	raw, err = collectRaw(c, w, "c08", units, map[string]string{"stage": "goclient_record", "in": in2})
	if err != nil {
		return nil, err
	}
	for _, rr := range raw {
		m := decodeRec(rr)
		if m["k"] == "gorecorded" {
			d.goRec[m["id"].(string)] = m
		}
	}
	// (2a') the Go client's requests replayed on the Go server (route agreement, C03)
	d.servedGo = map[string]map[string]any{}
	if probesOnly {
		recs = nil
		for _, id := range d.order {
			if g, ok := d.goRec[id]; ok && g["request"] != nil {
				req, _ := g["request"].(map[string]any)
				body, _ := base64.StdEncoding.DecodeString(str(req, "bodyB64"))
				bs := string(body)
				m := map[string]any{}
				b, _ := json.Marshal(d.cases[id])
				json.Unmarshal(b, &m)
				m["request"] = map[string]any{"method": req["method"], "url": req["url"], "headers": req["headers"], "body": bs}
				recs = append(recs, m)
			}
		}
		in2b := filepath.Join(stage, "servego.jsonl")
		if err := writeJSONL(in2b, recs); err != nil {
			return nil, err
		}
		raw, err = collectRaw(c, w, "c08", units, map[string]string{"stage": "serve", "in": in2b})
		if err != nil {
			return nil, err
		}
		for _, rr := range raw {
			m := decodeRec(rr)
			if m["k"] == "served" {
				d.servedGo[m["id"].(string)] = m
			}
		}
	}
	// (2b) TS server handles
	ops = nil
	for _, id := range d.order {
		g, ok := d.goRec[id]
		if !ok || g["request"] == nil {
			continue
		}
		tc := d.cases[id]
		ops = append(ops, map[string]any{"op": "server_handle", "id": id, "server": mods[tc.Unit][1], "svc": tc.Svc, "rpc": tc.RPC, "req": g["request"], "respObj": tc.RespObj})
	}
	if d.tsHandled, err = runNode(c, w, ops); err != nil {
		return nil, err
	}
	// (2c) Go client finishes
	recs = nil
	for _, id := range d.order {
		h, ok := d.tsHandled[id]
		if !ok {
			continue
		}
		m := map[string]any{}
		b, _ := json.Marshal(d.cases[id])
		json.Unmarshal(b, &m)
		m["ts"] = h
		recs = append(recs, m)
	}
	in3 := filepath.Join(stage, "gofinish.jsonl")
	if err := writeJSONL(in3, recs); err != nil {
		return nil, err
	}
	raw, err = collectRaw(c, w, "c08", units, map[string]string{"stage": "goclient_finish", "in": in3})
	if err != nil {
		return nil, err
	}
	for _, rr := range raw {
		m := decodeRec(rr)
		if m["k"] == "gofinished" {
			d.goFin[m["id"].(string)] = m
		}
	}
	// (3) TS -> TS, routes, helpers
	ops = nil
	for _, id := range d.order {
		tc := d.cases[id]
		ops = append(ops, map[string]any{"op": "ts_ts", "id": id, "client": mods[tc.Unit][0], "server": mods[tc.Unit][1], "svc": tc.Svc, "rpc": tc.RPC, "reqObj": tc.ReqObj, "respObj": tc.RespObj, "defaultHeaders": tc.Headers})
	}
	if d.tsts, err = runNode(c, w, ops); err != nil {
		return nil, err
	}
	ops = nil
	var hops []any
	firstCase := map[string]*rt.TSCase{}
	for _, id := range d.order {
		tc := d.cases[id]
		k := tc.Unit + "|" + tc.Svc
		if firstCase[k] == nil {
			firstCase[k] = tc
			ops = append(ops, map[string]any{"op": "routes", "id": k, "server": mods[tc.Unit][1], "svc": tc.Svc})
		}
	}
	if d.routes, err = runNode(c, w, ops); err != nil {
		return nil, err
	}
	firstRPC := map[string]*rt.TSCase{}
	for _, id := range d.order {
		tc := d.cases[id]
		if k := tc.Unit + "|" + tc.Svc + "|" + tc.RPC; firstRPC[k] == nil {
			firstRPC[k] = tc
		}
	}
	for k, tc := range firstRPC {
		u := w.Unit(tc.Unit)
		src := ""
		for n, content := range u.TSFiles {
			if strings.HasSuffix(n, "_client.ts") {
				src = content
			}
		}
		cl, call := tsHelperProps(src, tc.Svc)
		all := append(append([]string{}, cl...), call...)
		sort.Strings(all)
		// header names for the option-precedence probes: three undeclared spellings and every name the RPC declares
		names := []string{"X-Custom-Hdr", "x-lower-custom", "X-ALLCAPS-ID"}
		for _, js := range JobUnitFor(u).Services {
			if js.Name != tc.Svc {
				continue
			}
			for _, m := range js.Methods {
				if m.Name == tc.RPC {
					for _, hd := range append(append([]rt.JobHeader{}, m.SvcHeaders...), m.MethHeaders...) {
						names = append(names, hd.Name)
					}
				}
			}
		}
		sort.Strings(names)
		hops = append(hops, map[string]any{"op": "helpers", "id": k, "client": mods[tc.Unit][0], "svc": tc.Svc, "rpc": tc.RPC, "reqObj": tc.ReqObj, "helpers": dedup(all), "names": dedup(names)})
	}
	if d.helpers, err = runNode(c, w, hops); err != nil {
		return nil, err
	}
	raw, err = collectRaw(c, w, "c08", units, map[string]string{"stage": "gohelpers"})
	if err != nil {
		return nil, err
	}
	for _, rr := range raw {
		if m := decodeRec(rr); m["k"] == "gohelper" {
			d.goHelpers = append(d.goHelpers, m)
		} else if m["k"] == "goprecedence" {
			d.goPrecedence = append(d.goPrecedence, m)
		}
	}
	return d, nil
}

func dedup(l []string) []string {
	var out []string
	for i, s := range l {
		if i == 0 || l[i-1] != s {
			out = append(out, s)
		}
	}
	return out
}

func str(m map[string]any, k string) string {
	switch v := m[k].(type) {
	case string:
		return v
	case nil:
		return ""
	default:
		b, _ := json.Marshal(v)
		return string(b)
	}
}

func c08Judge(r *report.Run, w *ws.Workspace, d *tsData) {
	for _, id := range d.order {
		tc := d.cases[id]
		if strings.HasPrefix(tc.Class, "probe") {
			continue // probe values serve C03's template recovery; they need not satisfy the declared rules
		}
		cellBase := fmt.Sprintf("%s,rpc=%s.%s", tc.Cell, tc.Svc, tc.RPC)
		replay := map[string]any{"case": tc}
		viol := func(pairing, sym, detail string) {
			r.Violate(fmt.Sprintf("%s,pair=%s#%s", cellBase, pairing, tc.Class), sym, detail, replay)
			r.Case(cellBase+",pair="+pairing, sym, true)
		}
		// ---- TS client -> Go server
		func() {
			rec := d.tsRec[id]
			if e := str(rec, "error"); e != "" {
				viol("ts_go", "module_load_failed", e)
				return
			}
			if rec["request"] == nil {
				viol("ts_go", "ts_client_sent_nothing", str(rec, "thrown"))
				return
			}
			// base URL with a path prefix: same request, the prefix in front (trailing slashes of the base are not significant)
			if pu := str(rec, "prefixedURL"); pu != "" {
				if rq, ok := rec["request"].(map[string]any); ok {
					want := "http://verif.test/gw/api" + strings.TrimPrefix(str(rq, "url"), "http://verif.test")
					if pu != want {
						viol("ts_client_base_prefix", "base_url_prefix_lost", fmt.Sprintf("client with base http://verif.test/gw/api/ requested %s, want %s", pu, want))
					} else {
						r.Case(cellBase+",pair=ts_client_base_prefix", "prefix_kept", true)
					}
				}
			}
			sv := d.served[id]
			if sv == nil {
				viol("ts_go", "no_response", "request was not replayed: "+str(rec, "request"))
				return
			}
			line := str(sv, "line")
			n, _ := sv["dispatched"].(json.Number)
			switch {
			case str(sv, "panic") != "":
				viol("ts_go", "panic", str(sv, "panic"))
				return
			case n.String() == "0":
				viol("ts_go", fmt.Sprintf("not_dispatched(%s)", str(sv, "status")), line+" -> "+b64text(str(sv, "bodyB64")))
				return
			case str(sv, "handler_rpc") != tc.Svc+"."+tc.RPC:
				viol("ts_go", "wrong_rpc", fmt.Sprintf("%s reached %s", line, str(sv, "handler_rpc")))
				return
			case sv["request_equal"] != true:
				viol("ts_go", "request_differs", fmt.Sprintf("%s | caller passed %s | handler saw %s", line, str(sv, "want"), str(sv, "seen")))
				return
			}
			fin := d.tsFin[id]
			if fin == nil {
				viol("ts_go", "no_response", "finish stage missing")
				return
			}
			if fin["thrown"] != nil {
				viol("ts_go", "client_error", str(fin, "thrown"))
				return
			}
			body, _ := base64.StdEncoding.DecodeString(str(sv, "bodyB64"))
			want, perr := model.Parse(body)
			if perr != nil {
				viol("ts_go", "response_not_json", string(body))
				return
			}
			if df := jsonEq(want, toTree(fin["result"])); df != "" {
				viol("ts_go", "response_differs", df)
				return
			}
			r.Case(cellBase+",pair=ts_go", "delivered", true)
		}()
		// ---- Go client -> TS server
		func() {
			g := d.goRec[id]
			if g == nil || g["request"] == nil {
				viol("go_ts", "go_client_sent_nothing", "")
				return
			}
			h := d.tsHandled[id]
			if h == nil {
				return
			}
			reqLine := fmt.Sprintf("%s %s", str(g["request"].(map[string]any), "method"), str(g["request"].(map[string]any), "url"))
			switch {
			case str(h, "error") != "":
				viol("go_ts", "module_load_failed", str(h, "error"))
				return
			case h["noRoute"] == true:
				viol("go_ts", "no_route(404)", reqLine+" matches none of "+str(h, "routes"))
				return
			case h["thrown"] != nil:
				viol("go_ts", "ts_server_threw", str(h, "thrown"))
				return
			}
			handled := str(h, "handled")
			if handled == "" {
				viol("go_ts", fmt.Sprintf("not_dispatched(%s)", str(h, "status")), reqLine+" -> "+b64text(str(h, "bodyB64")))
				return
			}
			if !sameRPCName(handled, tc.RPC) {
				viol("go_ts", "wrong_rpc", reqLine+" handled by "+handled)
				return
			}
			f := d.goFin[id]
			if f == nil {
				viol("go_ts", "no_response", "finish stage missing")
				return
			}
			switch {
			case str(f, "input_undecodable") != "":
				viol("go_ts", "request_differs", "the object the TS handler received is not the documented JSON form: "+str(f, "input_undecodable"))
			case f["input_equal"] == false:
				viol("go_ts", "request_differs", fmt.Sprintf("%s | caller passed %s | TS handler received %s (%s)", reqLine, str(f, "input_want"), str(f, "input_seen"), str(f, "input_raw")))
			case str(f, "client_panic") != "":
				viol("go_ts", "client_panic", str(f, "client_panic"))
			case str(f, "client_error") != "":
				viol("go_ts", "client_error", str(f, "client_error")+" | TS body "+str(f, "ts_body"))
			case f["response_equal"] != true:
				viol("go_ts", "response_differs", fmt.Sprintf("handler returned %s | caller got %s | TS body %s", str(f, "response_want"), str(f, "response_got"), str(f, "ts_body")))
			default:
				r.Case(cellBase+",pair=go_ts", "delivered", true)
			}
		}()
		// ---- TS client -> TS server
		func() {
			t := d.tsts[id]
			if t == nil {
				return
			}
			switch {
			case str(t, "error") != "":
				viol("ts_ts", "module_load_failed", str(t, "error"))
			case t["noRoute"] != nil:
				viol("ts_ts", "no_route(404)", str(t, "noRoute"))
			case t["thrown"] != nil:
				viol("ts_ts", "client_error", str(t, "thrown"))
			case !sameRPCName(str(t, "handled"), tc.RPC):
				viol("ts_ts", "wrong_rpc", "handled by "+str(t, "handled"))
			default:
				wantReq, _ := model.Parse(tc.ReqObj)
				wantResp, _ := model.Parse(tc.RespObj)
				if df := jsonEq(wantReq, toTree(t["input"])); df != "" {
					viol("ts_ts", "request_differs", df)
				} else if df := jsonEq(wantResp, toTree(t["result"])); df != "" {
					viol("ts_ts", "response_differs", df)
				} else {
					r.Case(cellBase+",pair=ts_ts", "delivered", true)
				}
			}
		}()
		if len(r.Samples) < 3 {
			r.Sample(map[string]any{"case": id, "class": tc.Class, "req_obj": string(tc.ReqObj), "ts_client_request": d.tsRec[id]["request"]})
		}
	}
	// generic header options of the TS client: the per-call value wins for its own call only
	for k, h := range d.helpers {
		parts := strings.SplitN(k, "|", 3)
		u := w.Unit(parts[0])
		if u == nil {
			continue
		}
		ps, _ := h["precedence"].([]any)
		for _, x := range ps {
			pm, _ := x.(map[string]any)
			cell := fmt.Sprintf("%s,service=%s,rpc=%s,hdrshape=%s,client=ts#%s", u.Spec.Cell, parts[1], parts[2], headerShape(str(pm, "header")), str(pm, "mode"))
			var got []string
			if l, ok := pm["got"].([]any); ok {
				for _, g := range l {
					got = append(got, fmt.Sprint(g))
				}
			}
			switch {
			case str(pm, "error") != "":
				r.Violate(cell, "client_error", "TS client: "+str(pm, "error"), pm)
			case len(got) != 1 || got[0] != str(pm, "want"):
				r.Violate(cell, "header_option_precedence", fmt.Sprintf("TS client, header %s, options %s: the request carries %v, want [%s] (dv = client default, cv = per-call value)", str(pm, "header"), str(pm, "mode"), got, str(pm, "want")), pm)
				r.Case(cell, "header_option_precedence", true)
			default:
				r.Case(cell, "header_option_applied", true)
			}
		}
	}
	// header helpers (TS side): every declared header has an option that sets exactly that header
	// setsAnywhere[unit|svc][helper/level] = headers the option was seen to set on some RPC of the service
	setsAnywhere := map[string]map[string]map[string]bool{}
	for k, h := range d.helpers {
		parts := strings.SplitN(k, "|", 3)
		sk := parts[0] + "|" + parts[1]
		hs, _ := h["helpers"].([]any)
		for _, x := range hs {
			hm, _ := x.(map[string]any)
			under, _ := hm["under"].([]any)
			for _, un := range under {
				if setsAnywhere[sk] == nil {
					setsAnywhere[sk] = map[string]map[string]bool{}
				}
				hk := str(hm, "helper") + "/" + str(hm, "level")
				if setsAnywhere[sk][hk] == nil {
					setsAnywhere[sk][hk] = map[string]bool{}
				}
				setsAnywhere[sk][hk][strings.ToLower(fmt.Sprint(un))] = true
			}
		}
	}
	for k, h := range d.helpers {
		parts := strings.SplitN(k, "|", 3)
		u := w.Unit(parts[0])
		ju := JobUnitFor(u)
		for _, js := range ju.Services {
			if js.Name != parts[1] {
				continue
			}
			declared := map[string]string{} // lower name -> level, whole service
			here := map[string]bool{}       // headers declared for this RPC
			for _, m := range js.Methods {
				for _, hd := range m.SvcHeaders {
					declared[strings.ToLower(hd.Name)] = "client"
					if m.Name == parts[2] {
						here[strings.ToLower(hd.Name)] = true
					}
				}
				for _, hd := range m.MethHeaders {
					if _, ok := declared[strings.ToLower(hd.Name)]; !ok {
						declared[strings.ToLower(hd.Name)] = "call"
					}
					if m.Name == parts[2] {
						here[strings.ToLower(hd.Name)] = true
					}
				}
			}
			hs, _ := h["helpers"].([]any)
			for _, x := range hs {
				hm, _ := x.(map[string]any)
				under, _ := hm["under"].([]any)
				cell := fmt.Sprintf("%s,service=%s,rpc=%s,helper=%s,level=%s", ju.Cell, js.Name, parts[2], str(hm, "helper"), str(hm, "level"))
				if e := str(hm, "error"); e != "" {
					continue // option not offered at this level
				}
				got := map[string]bool{}
				for _, un := range under {
					name := strings.ToLower(fmt.Sprint(un))
					got[name] = true
					if _, ok := declared[name]; !ok {
						r.Violate(cell, "header_helper_wrong_name", fmt.Sprintf("TS option %s puts its value under header %v which no service or method declares", str(hm, "helper"), un), nil)
						r.Case(cell, "header_helper_wrong_name", true)
					} else {
						r.Case(cell, "header_helper_sets_declared_header", true)
					}
				}
				// the same option, on an RPC that declares the header it stands for, must set it there too
				for name := range setsAnywhere[parts[0]+"|"+parts[1]][str(hm, "helper")+"/"+str(hm, "level")] {
					if here[name] && !got[name] {
						r.Violate(cell, "header_helper_ineffective", fmt.Sprintf("TS option %s (%s level) sets header %s on another RPC of the service but not on %s, which declares it", str(hm, "helper"), str(hm, "level"), name, parts[2]), nil)
						r.Case(cell, "header_helper_ineffective", true)
					}
				}
			}
		}
	}
}

// c08JudgeGoHelpers: every typed header helper of the Go client sets a header that the service declares.
func c08JudgeGoHelpers(r *report.Run, w *ws.Workspace, d *tsData) {
	setsAnywhere := map[string]map[string]bool{}
	// client default vs per-call header options of the Go client: the per-call value wins for its own call only
	for _, h := range d.goPrecedence {
		cell := fmt.Sprintf("%s,service=%s,rpc=%s,hdrshape=%s,client=go#%s", str(h, "cell"), str(h, "svc"), str(h, "rpc"), headerShape(str(h, "header")), str(h, "mode"))
		var got []string
		if l, ok := h["got"].([]any); ok {
			for _, x := range l {
				got = append(got, fmt.Sprint(x))
			}
		}
		switch {
		case str(h, "panic") != "<nil>" && str(h, "panic") != "":
			r.Violate(cell, "client_panic", str(h, "panic"), h)
		case len(got) != 1 || got[0] != str(h, "want"):
			r.Violate(cell, "header_option_precedence", fmt.Sprintf("header %s, options %s: the request carries %v, want [%s] (dv = client default, cv = per-call value)", str(h, "header"), str(h, "mode"), got, str(h, "want")), h)
			r.Case(cell, "header_option_precedence", true)
		default:
			r.Case(cell, "header_option_applied", true)
		}
	}
	for _, h := range d.goHelpers {
		k := str(h, "unit") + "|" + str(h, "svc") + "|" + str(h, "helper") + "/" + str(h, "level")
		under, _ := h["under"].([]any)
		for _, un := range under {
			if setsAnywhere[k] == nil {
				setsAnywhere[k] = map[string]bool{}
			}
			setsAnywhere[k][strings.ToLower(fmt.Sprint(un))] = true
		}
	}
	for _, h := range d.goHelpers {
		u := w.Unit(str(h, "unit"))
		if u == nil {
			continue
		}
		declared := map[string]bool{}
		here := map[string]bool{}
		for _, js := range JobUnitFor(u).Services {
			if js.Name != str(h, "svc") {
				continue
			}
			for _, m := range js.Methods {
				for _, hd := range append(append([]rt.JobHeader{}, m.SvcHeaders...), m.MethHeaders...) {
					declared[strings.ToLower(hd.Name)] = true
					if m.Name == str(h, "rpc") {
						here[strings.ToLower(hd.Name)] = true
					}
				}
			}
		}
		cell := fmt.Sprintf("%s,service=%s,rpc=%s,helper=%s,level=%s,client=go", str(h, "cell"), str(h, "svc"), str(h, "rpc"), str(h, "helper"), str(h, "level"))
		under, _ := h["under"].([]any)
		got := map[string]bool{}
		for _, un := range under {
			got[strings.ToLower(fmt.Sprint(un))] = true
		}
		any := setsAnywhere[str(h, "unit")+"|"+str(h, "svc")+"|"+str(h, "helper")+"/"+str(h, "level")]
		if len(any) == 0 {
			if str(h, "first") == "true" {
				r.Violate(cell, "header_helper_wrong_name", "the helper did not put its value under any header on any RPC", nil)
				r.Case(cell, "header_helper_sets_nothing", true)
			}
			continue
		}
		for name := range any {
			if here[name] && !got[name] {
				r.Violate(cell, "header_helper_ineffective", fmt.Sprintf("Go helper %s (%s level) sets header %s on another RPC of the service but not on %s, which declares it", str(h, "helper"), str(h, "level"), name, str(h, "rpc")), nil)
				r.Case(cell, "header_helper_ineffective", true)
			}
		}
		for _, un := range under {
			if !declared[strings.ToLower(fmt.Sprint(un))] {
				r.Violate(cell, "header_helper_wrong_name", fmt.Sprintf("Go helper %s puts its value under header %v which no service or method declares", str(h, "helper"), un), nil)
				r.Case(cell, "header_helper_wrong_name", true)
			} else {
				r.Case(cell, "header_helper_sets_declared_header", true)
			}
		}
	}
}

func b64text(s string) string {
	b, _ := base64.StdEncoding.DecodeString(s)
	return short(string(b), 300)
}

// sameRPCName compares a TS handler method name with the RPC name (lowerCamel of Put_bool is putBool).
func sameRPCName(ts, rpc string) bool {
	norm := func(s string) string { return strings.ToLower(strings.ReplaceAll(s, "_", "")) }
	return norm(ts) == norm(rpc)
}

// headerShape classes a header name by spelling: canonical MIME form, acronym (upper-case run), lower-case, other.
func headerShape(n string) string {
	switch {
	case n == http.CanonicalHeaderKey(n):
		return "canonical"
	case n == strings.ToLower(n):
		return "lower"
	case strings.ToUpper(n) == n:
		return "upper"
	default:
		return "acronym"
	}
}
