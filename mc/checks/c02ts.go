package checks

import (
	"encoding/base64"
	"encoding/json"
	"fmt"
	"sort"
	"strings"

	"verif/mc/model"
	"verif/mc/report"
	"verif/mc/rt"
	"verif/mc/ws"
)

// c02TS replays the URL-binding cases of the Go driver against the generated TS server through the node bridge:
// the same raw requests, as fetch Request objects; oracle as for the Go server - a valid URL value reaches the
// handler in the URL-bound field, an unconvertible one (or a missing required query parameter) is answered 400
// naming the field and the handler does not run.
func c02TS(c *Ctx, r *report.Run, w *ws.Workspace, units []rt.JobUnit) error {
	raw, err := collectRaw(c, w, "c02", units, map[string]string{"stage": "tscases"})
	if err != nil {
		return err
	}
	cases := map[string]*rt.URLCase{}
	var order []string
	for _, rr := range raw {
		uc := &rt.URLCase{}
		if json.Unmarshal(rr, uc) == nil && uc.K == "urlcase" {
			cases[uc.ID] = uc
			order = append(order, uc.ID)
		}
	}
	sort.Strings(order)
	var ops []any
	for _, id := range order {
		uc := cases[id]
		u := w.Unit(uc.Unit)
		if u == nil {
			continue
		}
		_, server := tsModules(u)
		if server == "" {
			continue
		}
		req := map[string]any{"method": uc.Verb, "url": uc.Target, "headers": uc.Headers}
		if uc.HasBody {
			req["bodyB64"] = base64.StdEncoding.EncodeToString(uc.Body)
		}
		ops = append(ops, map[string]any{"op": "server_handle", "id": id, "server": server, "svc": uc.Svc, "req": req, "respObj": map[string]any{}})
	}
	res, err := runNode(c, w, ops)
	if err != nil {
		return err
	}
	for _, id := range order {
		uc := cases[id]
		a, ok := res[id]
		if !ok {
			continue
		}
		cellBase := uc.CellBase + ",server=ts"
		cell := strings.Replace(uc.Cell, "#", ",server=ts#", 1)
		r.Evaluations++
		if e := str(a, "error"); e != "" {
			r.Case(cellBase, "ts_server_unavailable", false) // C13 reports modules that do not load
			continue
		}
		if a["noRoute"] == true {
			r.Case(cellBase, "ts_server_routes_elsewhere", false) // route disagreement is C03's subject
			continue
		}
		line := fmt.Sprintf("TS server: %s %s body=%q", uc.Verb, uc.Target, short(string(uc.Body), 120))
		if th, ok := a["thrown"].(map[string]any); ok {
			r.Violate(cell, "ts_server_threw", fmt.Sprintf("%s -> route handler threw %v", line, th["message"]), uc)
			r.Case(cellBase, "ts_server_threw", true)
			continue
		}
		status := 0
		if n, ok := a["status"].(json.Number); ok {
			i, _ := n.Int64()
			status = int(i)
		}
		handled := a["handled"] != nil
		body, _ := base64.StdEncoding.DecodeString(str(a, "bodyB64"))
		line += fmt.Sprintf(" -> %d %s", status, short(string(body), 160))
		switch uc.Kind {
		case "bad":
			var ve struct {
				Violations []struct {
					Field string `json:"field"`
				} `json:"violations"`
			}
			derr := json.Unmarshal(body, &ve)
			named := false
			for _, v := range ve.Violations {
				if v.Field == uc.Field || v.Field == uc.JSONName {
					named = true
				}
			}
			switch {
			case handled:
				sym := "bad_url_value_dispatched"
				if uc.Label == "missing_required" {
					sym = "missing_required_dispatched"
				}
				r.Violate(cell, sym, line+" | handler saw "+short(jsonOf(a["input"]), 200), uc)
				r.Case(cellBase, sym, true)
			case status != 400:
				r.Violate(cell, "not_400", line, uc)
				r.Case(cellBase, "not_400", true)
			case derr != nil || !named:
				r.Violate(cell, "violation_names_wrong_field", line, uc)
				r.Case(cellBase, "violation_names_wrong_field", true)
			default:
				r.Case(cellBase, "rejected_400_naming_field", true)
			}
		case "unjudged":
			if status >= 500 {
				r.Violate(cell, "status_5xx", line, uc)
			}
			r.Case(cellBase, "unjudged_no_crash", false)
		default:
			if !handled {
				r.Violate(cell, "valid_url_value_not_dispatched", line, uc)
				r.Case(cellBase, "valid_url_value_not_dispatched", true)
				continue
			}
			want, werr := model.Parse(uc.Want)
			in := toTree(a["input"])
			wm, _ := want.(map[string]any)
			im, _ := in.(map[string]any)
			if werr != nil || wm == nil {
				continue
			}
			if im == nil {
				r.Violate(cell, "url_field_lost", line+" | handler input is not an object: "+short(jsonOf(a["input"]), 200), uc)
				r.Case(cellBase, "url_field_lost", true)
				continue
			}
			bad, sym := "", ""
			keys := make([]string, 0, len(wm))
			for k := range wm {
				keys = append(keys, k)
			}
			sort.Strings(keys)
			for _, k := range keys {
				got, has := im[k]
				if notObservableInJS(wm[k]) {
					continue
				}
				if d := urlValueDiff(wm[k], got, has); d != "" {
					if bad == "" || k == uc.JSONName {
						bad = fmt.Sprintf("field %s: URL says %s, handler saw %s (%s)", k, short(string(model.Marshal(wm[k])), 80), short(jsonOf(got), 80), d)
						sym = "url_field_wrong"
						if !has || got == nil {
							sym = "url_field_lost"
						}
					}
				}
			}
			if bad != "" {
				r.Violate(cell, sym, bad+" | "+line, uc)
				r.Case(cellBase, sym, true)
			} else {
				r.Case(cellBase, "url_value_delivered", true)
			}
		}
	}
	return nil
}

func jsonOf(v any) string {
	b, err := json.Marshal(v)
	if err != nil {
		return fmt.Sprint(v)
	}
	return string(b)
}

// urlValueDiff compares the documented (explicit) JSON form of a URL-bound field with what the TS handler got.
// Absent / undefined counts as the zero value; a 64-bit integer may be a decimal string or a number on either side.
func urlValueDiff(want, got any, has bool) string {
	isZero := func(v any) bool {
		switch x := v.(type) {
		case nil:
			return true
		case string:
			return x == "" || x == "0"
		case bool:
			return !x
		case json.Number:
			f, err := x.Float64()
			return err == nil && f == 0
		case []any:
			return len(x) == 0
		}
		return false
	}
	if !has || got == nil {
		if isZero(want) {
			return ""
		}
		return "absent"
	}
	num := func(v any) (json.Number, bool) {
		switch x := v.(type) {
		case json.Number:
			return x, true
		case string:
			if x != "" && strings.TrimSpace(x) == x {
				if _, err := json.Number(x).Float64(); err == nil {
					return json.Number(x), true
				}
			}
		}
		return "", false
	}
	switch w := want.(type) {
	case []any:
		g, ok := got.([]any)
		if !ok || len(g) != len(w) {
			return "list differs"
		}
		for i := range w {
			if d := urlValueDiff(w[i], g[i], true); d != "" {
				return fmt.Sprintf("element %d: %s", i, d)
			}
		}
		return ""
	case bool:
		if g, ok := got.(bool); ok && g == w {
			return ""
		}
		return "boolean differs"
	case json.Number:
		// documented as a JSON number (32-bit kinds, floats, 64-bit kinds with NUMBER encoding): the handler must get a number
		if g, ok := got.(json.Number); ok && model.NumEqual(w, g) {
			return ""
		}
		if _, isStr := got.(string); isStr {
			return "documented as a number, handed over as a string"
		}
		return "number differs"
	case string:
		if g, ok := got.(string); ok && g == w {
			return ""
		}
		if wn, ok := num(w); ok {
			// 64-bit integer documented as a decimal string: another spelling of the same value (leading zeros) is the same value
			if gs, isStr := got.(string); isStr {
				if gn, ok := num(gs); ok && model.NumEqual(wn, gn) {
					return ""
				}
			} else if _, isNum := got.(json.Number); isNum {
				return "documented as a decimal string, handed over as a number"
			}
		}
		return "string differs"
	}
	if model.Diff(want, got) == "" {
		return ""
	}
	return "value differs"
}

// notObservableInJS: values the bridge cannot hand back faithfully - non-finite floats (JSON.stringify writes null)
// and JSON numbers beyond 2^53 (a JS number rounds them; C08 excludes them for the same reason).
func notObservableInJS(v any) bool {
	switch x := v.(type) {
	case string:
		return x == "NaN" || x == "Infinity" || x == "-Infinity"
	case json.Number:
		f, err := x.Float64()
		return err != nil || f >= 9007199254740992 || f <= -9007199254740992
	case []any:
		for _, e := range x {
			if notObservableInJS(e) {
				return true
			}
		}
	}
	return false
}
