package checks

import (
	"fmt"
	"sort"
	"strings"

	"google.golang.org/protobuf/proto"
	"google.golang.org/protobuf/types/descriptorpb"
	"google.golang.org/protobuf/types/pluginpb"

	"verif/mc/plug"
	"verif/mc/report"
	"verif/mc/spec"
)

type shapeVariant struct {
	key      string
	generate []string
	order    []string // order of the spec's own files inside proto_file (nil: default)
	extra    bool     // add unrelated files to proto_file
	param    string
}

func permutations(in []string) [][]string {
	if len(in) <= 1 {
		return [][]string{append([]string(nil), in...)}
	}
	var out [][]string
	for i := range in {
		rest := append(append([]string(nil), in[:i]...), in[i+1:]...)
		for _, p := range permutations(rest) {
			out = append(out, append([]string{in[i]}, p...))
		}
	}
	return out
}

// topoOrders returns every topological order of the spec's own files.
func topoOrders(s *spec.Spec) [][]string {
	deps := map[string][]string{}
	var names []string
	own := map[string]bool{}
	for _, f := range s.Files {
		own[f.Path] = true
		names = append(names, f.Path)
	}
	for _, f := range s.Files {
		for _, i := range f.Imports {
			if own[i] {
				deps[f.Path] = append(deps[f.Path], i)
			}
		}
	}
	var out [][]string
	for _, p := range permutations(names) {
		pos := map[string]int{}
		for i, n := range p {
			pos[n] = i
		}
		ok := true
		for n, ds := range deps {
			for _, d := range ds {
				if pos[d] > pos[n] {
					ok = false
				}
			}
		}
		if ok {
			out = append(out, p)
		}
	}
	return out
}

// unrelatedFiles are well-formed files that have nothing to do with the spec but live in the same request:
// one in a foreign package (same message names, unwrap/flatten annotations), one in the spec's own package.
func unrelatedFiles(s *spec.Spec) []*descriptorpb.FileDescriptorProto {
	pkg := s.Files[0].Package
	mk := func(path, p, gopkg string, msgs []*spec.Message, svcs []*spec.Service) *descriptorpb.FileDescriptorProto {
		fd, err := spec.LowerFile(&spec.File{Path: path, Package: p, GoPackage: gopkg, Messages: msgs, Services: svcs}, "")
		if err != nil {
			panic(err)
		}
		return fd
	}
	foreign := mk("zz_unrelated_foreign.proto", "zz.foreign", "verifws/u/zzforeign;zzforeign",
		[]*spec.Message{
			spec.M("Money", spec.F("units", "int64")), spec.M("Items", spec.F("items", "string").Rep().Unw()), spec.M("Address", spec.F("street", "string")),
			spec.M("OptionBarsList", spec.F("bars", "string").Rep().Unw()), spec.M("Req", spec.F("name", "string")), spec.M("Resp", spec.F("name", "string")),
		},
		[]*spec.Service{spec.Svc("ZzService", "/zz", spec.RPC("Do", "Req", "Resp", "POST", "/do")).H(&spec.Header{Name: "A-First", Type: "string", Required: true})})
	same := mk("zz_unrelated_samepkg.proto", pkg, spec.DefaultGoPkg(s),
		[]*spec.Message{spec.M("ZzWrapper", spec.F("vals", "int64").Rep().Unw()), spec.M("ZzHolder", spec.Msg("by_key", "ZzWrapper").Map())}, nil)
	return []*descriptorpb.FileDescriptorProto{foreign, same}
}

func shapeRequest(l *spec.Lowered, v shapeVariant) *pluginpb.CodeGeneratorRequest {
	req := l.Request(v.param, v.generate)
	if v.order != nil {
		own := map[string]*descriptorpb.FileDescriptorProto{}
		var std []*descriptorpb.FileDescriptorProto
		for _, fd := range req.ProtoFile {
			isOwn := false
			for _, n := range v.order {
				if fd.GetName() == n {
					isOwn = true
				}
			}
			if isOwn {
				own[fd.GetName()] = fd
			} else {
				std = append(std, fd)
			}
		}
		req.ProtoFile = std
		for _, n := range v.order {
			req.ProtoFile = append(req.ProtoFile, own[n])
		}
	}
	if v.extra {
		ex := unrelatedFiles(l.Spec)
		// unrelated files first: protoc lists proto_file in topological order, unrelated roots may come anywhere
		n := len(req.ProtoFile) - len(l.Spec.Files)
		rest := append([]*descriptorpb.FileDescriptorProto(nil), req.ProtoFile[n:]...)
		req.ProtoFile = append(append(req.ProtoFile[:n:n], ex[0]), rest...)
		req.ProtoFile = append(req.ProtoFile, ex[1])
	}
	return proto.Clone(req).(*pluginpb.CodeGeneratorRequest)
}

// C15: generation is a pure, order-independent function of the definitions.
func C15(c *Ctx, r *report.Run) error {
	r.Rule = "explicit enumeration of request shapes per target file T of every spec: every generate-subset containing T x every permutation of file_to_generate x every topological order of proto_file x unrelated extra files (foreign package with same-named annotated types; same package) present/absent x parameter spellings, on all five plugins; the bytes of every output file of the singleton run of T must be reproduced by every variant, and two identical runs must agree; plus exhaustive permutation of every executed range-over-map site in the generators (map-order controller); distinct = (cell, plugin, variant class, outcome)"
	specs := buildUniverse(c)
	var valid []*spec.Spec
	for _, s := range specs {
		if hasTag(s, "valid") {
			valid = append(valid, s)
		}
	}
	r.Programs = len(valid)
	type cfg struct{ plugin, param string }
	cfgs := []cfg{{"protoc-gen-go-http", ""}, {"protoc-gen-go-http", "generate_mock=true"}, {"protoc-gen-go-client", ""}, {"protoc-gen-ts-client", ""},
		{"protoc-gen-ts-server", ""}, {"protoc-gen-openapiv3", ""}, {"protoc-gen-openapiv3", "format=json"}}
	type job struct {
		s      *spec.Spec
		l      *spec.Lowered
		target string
		cfg    cfg
	}
	var jobs []job
	for _, s := range valid {
		l := mustLower(s)
		for _, f := range s.Files {
			for _, cf := range cfgs {
				jobs = append(jobs, job{s, l, f.Path, cf})
			}
		}
	}
	Par(len(jobs), c.Workers, func(i int) {
		j := jobs[i]
		bin := c.Bins.Path(j.cfg.plugin)
		pk := strings.TrimPrefix(j.cfg.plugin, "protoc-gen-")
		cellBase := fmt.Sprintf("%s,target=%s,plugin=%s,param=%s", j.s.Cell, strings.TrimSuffix(j.target, ".proto"), pk, paramKey(j.cfg.param))
		base := plug.Run(bin, shapeRequest(j.l, shapeVariant{generate: []string{j.target}, param: j.cfg.param}))
		if !base.Answered() || base.Err() != "" {
			r.Case(cellBase, "baseline_not_generated", false)
			return
		}
		want := base.Files()
		var variants []shapeVariant
		variants = append(variants, shapeVariant{key: "rerun", generate: []string{j.target}, param: j.cfg.param})
		variants = append(variants, shapeVariant{key: "extra_files", generate: []string{j.target}, param: j.cfg.param, extra: true})
		// generate-subsets containing T x permutations
		var others []string
		for _, f := range j.s.Files {
			if f.Path != j.target {
				others = append(others, f.Path)
			}
		}
		for mask := 1; mask < 1<<len(others); mask++ {
			set := []string{j.target}
			for b, o := range others {
				if mask&(1<<b) != 0 {
					set = append(set, o)
				}
			}
			for pi, p := range permutations(set) {
				variants = append(variants, shapeVariant{key: fmt.Sprintf("cogenerated(%d files,perm %d)", len(set), pi), generate: p, param: j.cfg.param})
				if c.Thorough || pi == 0 {
					variants = append(variants, shapeVariant{key: fmt.Sprintf("cogenerated+extra(%d files,perm %d)", len(set), pi), generate: p, param: j.cfg.param, extra: true})
				}
			}
		}
		if len(j.s.Files) > 1 {
			for oi, o := range topoOrders(j.s) {
				variants = append(variants, shapeVariant{key: fmt.Sprintf("proto_file_order(%d)", oi), generate: []string{j.target}, order: o, param: j.cfg.param})
			}
		}
		// parameter spellings that denote the same configuration
		switch {
		case j.cfg.plugin == "protoc-gen-openapiv3" && j.cfg.param == "":
			for _, p := range []string{"format=yaml", "format=yml", " format = yaml "} {
				variants = append(variants, shapeVariant{key: "param_spelling(" + strings.TrimSpace(p) + ")", generate: []string{j.target}, param: p})
			}
		case j.cfg.plugin == "protoc-gen-openapiv3":
			variants = append(variants, shapeVariant{key: "param_spelling(spaces)", generate: []string{j.target}, param: " format = json "})
		}
		for _, v := range variants {
			res := plug.Run(bin, shapeRequest(j.l, v))
			class := v.key
			if k := strings.Index(class, "("); k >= 0 {
				class = class[:k]
			}
			cell := cellBase + "#" + class
			replay := map[string]any{"spec": j.s, "target": j.target, "plugin": j.cfg.plugin, "variant": v.key, "generate": v.generate, "order": v.order, "extra": v.extra, "param": v.param}
			if !res.Answered() || res.Err() != "" {
				sym := map[string]string{"rerun": "rerun_differs", "extra_files": "depends_on_extra_file", "cogenerated": "depends_on_cogenerated", "cogenerated+extra": "depends_on_cogenerated",
					"proto_file_order": "depends_on_proto_file_order", "param_spelling": "param_spelling"}[class]
				r.Violate(cell, sym, "variant run failed where the singleton run succeeded: "+res.Err()+res.Symptom()+" "+short(res.Stderr, 200), replay)
				r.Case(cellBase, sym, true)
				continue
			}
			got := res.Files()
			bad := ""
			var names []string
			for n := range want {
				names = append(names, n)
			}
			sort.Strings(names)
			for _, n := range names {
				g, ok := got[n]
				if !ok {
					bad = n + ": missing in variant output"
					break
				}
				if g != want[n] {
					bad = n + ": " + firstDiff(want[n], g)
					break
				}
			}
			if bad == "" && len(v.generate) == 1 && len(got) != len(want) {
				bad = fmt.Sprintf("file set differs: %d vs %d files", len(want), len(got))
			}
			if bad != "" {
				sym := map[string]string{"rerun": "rerun_differs", "extra_files": "depends_on_extra_file", "cogenerated": "depends_on_cogenerated", "cogenerated+extra": "depends_on_cogenerated",
					"proto_file_order": "depends_on_proto_file_order", "param_spelling": "param_spelling"}[class]
				r.Violate(cell, sym, v.key+": "+bad, replay)
				r.Case(cellBase, sym, true)
			} else {
				r.Case(cellBase, "same_bytes:"+class, len(want) > 0)
			}
		}
		if i%23 == 0 {
			r.Sample(map[string]any{"cell": cellBase, "variants": len(variants), "baseline_files": len(want)})
		}
	})
	if err := c15MapOrder(c, r, valid); err != nil {
		return err
	}
	r.States, r.Transitions, r.Traces = r.Evaluations, r.Evaluations, r.Evaluations
	return nil
}
