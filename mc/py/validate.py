#!/usr/bin/env python3
"""Batch JSON Schema 2020-12 validator for OpenAPI documents.
usage: validate.py <requests.jsonl> <responses.jsonl>
requests: {"op":"doc","doc":id,"content":{...}} | {"op":"validate","id":n,"doc":id,"ptr":"/a/b"|null,"schema":{...}|null,"strict":bool,"instance":...}
          | {"op":"check_schema","id":n,"doc":id,"ptr":...}
"""
import json, sys, copy
from jsonschema import Draft202012Validator
from jsonschema.exceptions import SchemaError

docs = {}
strict_docs = {}

VALUE_POS = ("items", "additionalProperties", "contains", "propertyNames")

def wrap(s):
    if s is True or s is False or not isinstance(s, dict):
        return s
    return {"allOf": [s], "unevaluatedProperties": False}

def strictify(s, root=True):
    """Every value position (properties.*, items, additionalProperties) gets unevaluatedProperties:false;
    composition branches (allOf/oneOf/anyOf) are descended into but not wrapped themselves."""
    if not isinstance(s, dict):
        return s
    out = {}
    for k, v in s.items():
        if k == "properties" and isinstance(v, dict):
            out[k] = {pk: wrap(strictify(pv, False)) for pk, pv in v.items()}
        elif k in VALUE_POS and isinstance(v, dict):
            out[k] = wrap(strictify(v, False))
        elif k in ("allOf", "oneOf", "anyOf") and isinstance(v, list):
            out[k] = [strictify(x, False) for x in v]
        elif k in ("not", "if", "then", "else") and isinstance(v, dict):
            out[k] = strictify(v, False)
        else:
            out[k] = v
    return out

def resolve(doc, ptr):
    cur = doc
    if ptr in (None, ""):
        return cur
    for part in ptr.lstrip("/").split("/"):
        part = part.replace("~1", "/").replace("~0", "~")
        if isinstance(cur, list):
            cur = cur[int(part)]
        else:
            cur = cur[part]
    return cur

def root_schema(doc, ptr, schema, strict):
    comps = doc.get("components", {})
    if strict:
        comps = {"schemas": {k: strictify(v) for k, v in comps.get("schemas", {}).items()}}
    if ptr is not None:
        s = resolve({"components": comps} if ptr.startswith("/components/") else doc, ptr)
        if strict and not ptr.startswith("/components/"):
            s = strictify(s)
    else:
        s = strictify(schema) if strict else schema
    if strict:
        s = wrap(s)
    if s is True or s is False:
        return s
    r = dict(s) if isinstance(s, dict) else s
    if isinstance(r, dict):
        r = {"allOf": [s], "components": comps}
    return r

def main():
    out = open(sys.argv[2], "w")
    for line in open(sys.argv[1]):
        line = line.strip()
        if not line:
            continue
        req = json.loads(line)
        op = req["op"]
        if op == "doc":
            docs[req["doc"]] = req["content"]
            continue
        doc = docs.get(req.get("doc"), {})
        res = {"id": req["id"], "ok": True, "errors": []}
        try:
            if op == "check_schema":
                s = resolve(doc, req["ptr"]) if req.get("ptr") is not None else req["schema"]
                try:
                    Draft202012Validator.check_schema(s)
                except SchemaError as e:
                    res["ok"] = False
                    res["errors"].append({"ptr": "/" + "/".join(str(x) for x in e.absolute_path), "keyword": str(e.validator), "msg": e.message[:300]})
            else:
                rs = root_schema(doc, req.get("ptr"), req.get("schema"), req.get("strict", False))
                v = Draft202012Validator(rs)
                for e in sorted(v.iter_errors(req["instance"]), key=lambda e: list(map(str, e.absolute_path))):
                    best = e
                    # descend into the most specific sub-error for readability
                    while best.context:
                        best = sorted(best.context, key=lambda x: -len(x.absolute_path))[0]
                    res["ok"] = False
                    res["errors"].append({"ptr": "/" + "/".join(str(x) for x in best.absolute_path), "keyword": str(best.validator), "msg": best.message[:300],
                                          "top_keyword": str(e.validator)})
                    if len(res["errors"]) >= 3:
                        break
        except Exception as e:  # resolution problems etc.
            res["ok"] = False
            res["errors"].append({"ptr": "", "keyword": "exception", "msg": (type(e).__name__ + ": " + str(e))[:300]})
        out.write(json.dumps(res) + "\n")
    out.close()

main()
