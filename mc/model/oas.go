package model

import (
	"encoding/json"
	"fmt"
	"sort"
	"strconv"
	"strings"

	yaml "go.yaml.in/yaml/v4"
)

// LoadOAS decodes an emitted OpenAPI document (YAML or JSON) into the JSON value tree.
func LoadOAS(name, content string) (any, error) {
	if strings.HasSuffix(name, ".json") {
		return Parse([]byte(content))
	}
	var n yaml.Node
	if err := yaml.Unmarshal([]byte(content), &n); err != nil {
		return nil, err
	}
	if n.Kind == yaml.DocumentNode && len(n.Content) == 1 {
		return yamlToJSON(n.Content[0])
	}
	return yamlToJSON(&n)
}

// yamlToJSON converts by the YAML 1.2 core schema tag of each scalar (timestamps stay strings).
func yamlToJSON(n *yaml.Node) (any, error) {
	switch n.Kind {
	case yaml.AliasNode:
		return yamlToJSON(n.Alias)
	case yaml.MappingNode:
		out := map[string]any{}
		for i := 0; i+1 < len(n.Content); i += 2 {
			k := n.Content[i]
			v, err := yamlToJSON(n.Content[i+1])
			if err != nil {
				return nil, err
			}
			if _, dup := out[k.Value]; dup {
				return nil, fmt.Errorf("duplicate key %q", k.Value)
			}
			out[k.Value] = v
		}
		return out, nil
	case yaml.SequenceNode:
		out := make([]any, 0, len(n.Content))
		for _, c := range n.Content {
			v, err := yamlToJSON(c)
			if err != nil {
				return nil, err
			}
			out = append(out, v)
		}
		return out, nil
	case yaml.ScalarNode:
		tag := n.ShortTag()
		if n.Style&(yaml.DoubleQuotedStyle|yaml.SingleQuotedStyle|yaml.LiteralStyle|yaml.FoldedStyle) != 0 {
			return n.Value, nil
		}
		switch tag {
		case "!!null":
			return nil, nil
		case "!!bool":
			switch strings.ToLower(n.Value) {
			case "true":
				return true, nil
			case "false":
				return false, nil
			}
			return n.Value, nil
		case "!!int":
			if _, err := strconv.ParseInt(n.Value, 0, 64); err == nil {
				if i, err := strconv.ParseInt(n.Value, 10, 64); err == nil {
					return json.Number(strconv.FormatInt(i, 10)), nil
				}
				i, _ := strconv.ParseInt(n.Value, 0, 64)
				return json.Number(strconv.FormatInt(i, 10)), nil
			}
			if u, err := strconv.ParseUint(n.Value, 10, 64); err == nil {
				return json.Number(strconv.FormatUint(u, 10)), nil
			}
			return json.Number(n.Value), nil
		case "!!float":
			switch strings.ToLower(n.Value) {
			case ".inf", "+.inf":
				return "Infinity", nil
			case "-.inf":
				return "-Infinity", nil
			case ".nan":
				return "NaN", nil
			}
			return json.Number(n.Value), nil
		}
		return n.Value, nil
	}
	return nil, fmt.Errorf("unsupported yaml node kind %d", n.Kind)
}

// Ptr resolves a JSON pointer inside a value tree.
func Ptr(doc any, ptr string) (any, bool) {
	cur := doc
	if ptr == "" || ptr == "/" {
		return cur, true
	}
	for _, part := range strings.Split(strings.TrimPrefix(ptr, "/"), "/") {
		part = strings.ReplaceAll(strings.ReplaceAll(part, "~1", "/"), "~0", "~")
		switch x := cur.(type) {
		case map[string]any:
			n, ok := x[part]
			if !ok {
				return nil, false
			}
			cur = n
		case []any:
			i, err := strconv.Atoi(part)
			if err != nil || i < 0 || i >= len(x) {
				return nil, false
			}
			cur = x[i]
		default:
			return nil, false
		}
	}
	return cur, true
}

func PtrEscape(s string) string {
	return strings.ReplaceAll(strings.ReplaceAll(s, "~", "~0"), "/", "~1")
}

// Refs lists every $ref string in the tree with the pointer where it occurs.
func Refs(v any, at string, out map[string]string) {
	switch x := v.(type) {
	case map[string]any:
		for k, c := range x {
			if k == "$ref" {
				if s, ok := c.(string); ok {
					out[at] = s
				}
				continue
			}
			// the values of a discriminator mapping are references too (OAS 3.1 Discriminator Object)
			if k == "discriminator" {
				if dm, ok := c.(map[string]any); ok {
					if mp, ok := dm["mapping"].(map[string]any); ok {
						for mk, mv := range mp {
							if s, ok := mv.(string); ok && strings.HasPrefix(s, "#") {
								out[at+"/discriminator/mapping/"+PtrEscape(mk)] = s
							}
						}
					}
				}
			}
			Refs(c, at+"/"+PtrEscape(k), out)
		}
	case []any:
		for i, c := range x {
			Refs(c, fmt.Sprintf("%s/%d", at, i), out)
		}
	}
}

// OASParam is one parameter of an operation.
type OASParam struct {
	Name     string
	In       string
	Required bool
	Schema   any
	Ptr      string
}

// OASOperation is one operation of the document.
type OASOperation struct {
	Path        string
	Verb        string
	OperationID string
	Params      []OASParam
	BodyPtr     string // pointer to the application/json request schema ("" if none)
	BodyRequired bool
	Responses   map[string]string // status -> pointer to application/json schema
	Ptr         string
}

var httpVerbs = []string{"get", "put", "post", "delete", "options", "head", "patch", "trace"}

// Operations extracts the operations of a document.
func Operations(doc any) []OASOperation {
	var out []OASOperation
	paths, _ := doc.(map[string]any)["paths"].(map[string]any)
	var ps []string
	for p := range paths {
		ps = append(ps, p)
	}
	sort.Strings(ps)
	for _, p := range ps {
		item, _ := paths[p].(map[string]any)
		for _, verb := range httpVerbs {
			opv, ok := item[verb].(map[string]any)
			if !ok {
				continue
			}
			op := OASOperation{Path: p, Verb: strings.ToUpper(verb), Responses: map[string]string{}, Ptr: "/paths/" + PtrEscape(p) + "/" + verb}
			op.OperationID, _ = opv["operationId"].(string)
			if params, ok := opv["parameters"].([]any); ok {
				for i, pv := range params {
					pm, _ := pv.(map[string]any)
					prm := OASParam{Ptr: fmt.Sprintf("%s/parameters/%d", op.Ptr, i)}
					prm.Name, _ = pm["name"].(string)
					prm.In, _ = pm["in"].(string)
					prm.Required, _ = pm["required"].(bool)
					prm.Schema = pm["schema"]
					op.Params = append(op.Params, prm)
				}
			}
			if rb, ok := opv["requestBody"].(map[string]any); ok {
				op.BodyRequired, _ = rb["required"].(bool)
				if _, ok := Ptr(rb, "/content/application~1json/schema"); ok {
					op.BodyPtr = op.Ptr + "/requestBody/content/application~1json/schema"
				}
			}
			if rs, ok := opv["responses"].(map[string]any); ok {
				for code, rv := range rs {
					if _, ok := Ptr(rv, "/content/application~1json/schema"); ok {
						op.Responses[code] = op.Ptr + "/responses/" + PtrEscape(code) + "/content/application~1json/schema"
					}
				}
			}
			out = append(out, op)
		}
	}
	return out
}

// PathTemplateVars returns the {variables} of a path template.
func PathTemplateVars(p string) []string {
	var out []string
	for {
		i := strings.Index(p, "{")
		if i < 0 {
			return out
		}
		j := strings.Index(p[i:], "}")
		if j < 0 {
			return out
		}
		out = append(out, p[i+1:i+j])
		p = p[i+j+1:]
	}
}

// ObjectMembers flattens an object schema for inspection: the property schemas and the required names that hold for every
// instance, collected from the schema itself, recursively from the members of its allOf (a $ref is followed inside doc), and
// from its oneOf when every branch agrees (a property is reported when all branches declare it — with that schema when they agree, else as anyOf of the branch schemas without a pointer — a name
// is required when all branches require it): that is how a flattened discriminated oneof publishes the common fields.
// ptrs gives the JSON pointer of each property schema inside doc (for a oneOf, inside its first branch).
func ObjectMembers(doc any, ptr string) (props map[string]any, ptrs map[string]string, required map[string]bool) {
	return objectMembers(doc, ptr, map[string]bool{})
}

func objectMembers(doc any, ptr string, seen map[string]bool) (props map[string]any, ptrs map[string]string, required map[string]bool) {
	props, ptrs, required = map[string]any{}, map[string]string{}, map[string]bool{}
	var walk func(p string)
	walk = func(p string) {
		if seen[p] {
			return
		}
		seen[p] = true
		defer delete(seen, p)
		v, ok := Ptr(doc, p)
		if !ok {
			return
		}
		m, ok := v.(map[string]any)
		if !ok {
			return
		}
		if ref, ok := m["$ref"].(string); ok && strings.HasPrefix(ref, "#/") {
			walk(ref[1:])
		}
		if pm, ok := m["properties"].(map[string]any); ok {
			for k, sv := range pm {
				if _, dup := props[k]; !dup {
					props[k] = sv
					ptrs[k] = p + "/properties/" + PtrEscape(k)
				}
			}
		}
		if rl, ok := m["required"].([]any); ok {
			for _, x := range rl {
				if s, ok := x.(string); ok {
					required[s] = true
				}
			}
		}
		if all, ok := m["allOf"].([]any); ok {
			for i := range all {
				walk(fmt.Sprintf("%s/allOf/%d", p, i))
			}
		}
		if one, ok := m["oneOf"].([]any); ok && len(one) > 0 {
			var bp []map[string]any
			var bptr []map[string]string
			var br []map[string]bool
			for i := range one {
				a, b, c := objectMembers(doc, fmt.Sprintf("%s/oneOf/%d", p, i), seen)
				bp, bptr, br = append(bp, a), append(bptr, b), append(br, c)
			}
			for k, sv := range bp[0] {
				same, everywhere := true, true
				alts := []any{sv}
				want, _ := json.Marshal(sv)
				for _, o := range bp[1:] {
					got, _ := json.Marshal(o[k])
					if _, has := o[k]; !has {
						everywhere = false
					} else if string(got) != string(want) {
						same = false
						alts = append(alts, o[k])
					}
				}
				if _, dup := props[k]; dup || !everywhere {
					continue
				}
				if same {
					props[k] = sv
					ptrs[k] = bptr[0][k]
				} else {
					props[k] = map[string]any{"anyOf": alts} // declared by every branch, differently (e.g. the discriminator): no pointer
				}
			}
			for k := range br[0] {
				all := true
				for _, o := range br[1:] {
					all = all && o[k]
				}
				if all {
					required[k] = true
				}
			}
		}
	}
	walk(ptr)
	return
}
