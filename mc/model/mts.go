package model

import (
	"encoding/json"
	"fmt"
	"regexp"
	"sort"
	"strings"
	"unicode"
)

// M-ts: the subset of TypeScript type declarations the generators emit, and the relation value ∈ type with
// excess-property rejection.

type TSKind int

const (
	TSNamed TSKind = iota
	TSPrim         // string number boolean null unknown any undefined
	TSLit          // string / number / boolean literal
	TSArray
	TSRecord
	TSObject
	TSUnion
	TSInter
)

type TSMember struct {
	Name     string
	Optional bool
	Type     *TSType
}

type TSType struct {
	Kind    TSKind
	Name    string // named / primitive
	Lit     any    // literal value: string, json.Number, bool
	Elem    *TSType
	Members []TSMember
	Alts    []*TSType
}

type TSDecls map[string]*TSType

type tsTok struct {
	kind string // id, str, num, punct, eof
	val  string
}

func tsLex(src string) ([]tsTok, error) {
	var out []tsTok
	rs := []rune(src)
	for i := 0; i < len(rs); {
		c := rs[i]
		switch {
		case unicode.IsSpace(c):
			i++
		case c == '/' && i+1 < len(rs) && rs[i+1] == '/':
			for i < len(rs) && rs[i] != '\n' {
				i++
			}
		case c == '/' && i+1 < len(rs) && rs[i+1] == '*':
			i += 2
			for i+1 < len(rs) && !(rs[i] == '*' && rs[i+1] == '/') {
				i++
			}
			i += 2
		case c == '"' || c == '\'':
			q := c
			j := i + 1
			var b strings.Builder
			for j < len(rs) && rs[j] != q {
				if rs[j] == '\\' && j+1 < len(rs) {
					j++
					switch rs[j] {
					case 'n':
						b.WriteRune('\n')
					case 't':
						b.WriteRune('\t')
					default:
						b.WriteRune(rs[j])
					}
					j++
					continue
				}
				b.WriteRune(rs[j])
				j++
			}
			if j >= len(rs) {
				return nil, fmt.Errorf("unterminated string literal")
			}
			out = append(out, tsTok{"str", b.String()})
			i = j + 1
		case unicode.IsLetter(c) || c == '_' || c == '$':
			j := i
			for j < len(rs) && (unicode.IsLetter(rs[j]) || unicode.IsDigit(rs[j]) || rs[j] == '_' || rs[j] == '$') {
				j++
			}
			out = append(out, tsTok{"id", string(rs[i:j])})
			i = j
		case unicode.IsDigit(c) || (c == '-' && i+1 < len(rs) && unicode.IsDigit(rs[i+1])):
			j := i + 1
			for j < len(rs) && (unicode.IsDigit(rs[j]) || rs[j] == '.' || rs[j] == 'e' || rs[j] == 'E') {
				j++
			}
			out = append(out, tsTok{"num", string(rs[i:j])})
			i = j
		default:
			out = append(out, tsTok{"punct", string(c)})
			i++
		}
	}
	out = append(out, tsTok{"eof", ""})
	return out, nil
}

type tsParser struct {
	toks []tsTok
	pos  int
}

func (p *tsParser) peek() tsTok { return p.toks[p.pos] }
func (p *tsParser) next() tsTok { t := p.toks[p.pos]; p.pos++; return t }
func (p *tsParser) accept(v string) bool {
	if p.peek().kind == "punct" && p.peek().val == v {
		p.pos++
		return true
	}
	return false
}
func (p *tsParser) expect(v string) error {
	if !p.accept(v) {
		return fmt.Errorf("expected %q, found %q", v, p.peek().val)
	}
	return nil
}

func (p *tsParser) parseType() (*TSType, error) {
	p.accept("|")
	first, err := p.parseInter()
	if err != nil {
		return nil, err
	}
	alts := []*TSType{first}
	for p.accept("|") {
		n, err := p.parseInter()
		if err != nil {
			return nil, err
		}
		alts = append(alts, n)
	}
	if len(alts) == 1 {
		return first, nil
	}
	return &TSType{Kind: TSUnion, Alts: alts}, nil
}

func (p *tsParser) parseInter() (*TSType, error) {
	p.accept("&")
	first, err := p.parsePostfix()
	if err != nil {
		return nil, err
	}
	alts := []*TSType{first}
	for p.accept("&") {
		n, err := p.parsePostfix()
		if err != nil {
			return nil, err
		}
		alts = append(alts, n)
	}
	if len(alts) == 1 {
		return first, nil
	}
	return &TSType{Kind: TSInter, Alts: alts}, nil
}

func (p *tsParser) parsePostfix() (*TSType, error) {
	t, err := p.parsePrimary()
	if err != nil {
		return nil, err
	}
	for p.peek().kind == "punct" && p.peek().val == "[" && p.toks[p.pos+1].val == "]" {
		p.pos += 2
		t = &TSType{Kind: TSArray, Elem: t}
	}
	return t, nil
}

var tsPrims = map[string]bool{"string": true, "number": true, "boolean": true, "null": true, "unknown": true, "any": true, "undefined": true, "object": true, "never": true}

func (p *tsParser) parsePrimary() (*TSType, error) {
	t := p.next()
	switch t.kind {
	case "str":
		return &TSType{Kind: TSLit, Lit: t.val}, nil
	case "num":
		return &TSType{Kind: TSLit, Lit: json.Number(t.val)}, nil
	case "id":
		switch {
		case t.val == "true" || t.val == "false":
			return &TSType{Kind: TSLit, Lit: t.val == "true"}, nil
		case tsPrims[t.val]:
			return &TSType{Kind: TSPrim, Name: t.val}, nil
		case (t.val == "Record" || t.val == "Array" || t.val == "Partial" || t.val == "Readonly") && p.accept("<"):
			var args []*TSType
			for {
				a, err := p.parseType()
				if err != nil {
					return nil, err
				}
				args = append(args, a)
				if !p.accept(",") {
					break
				}
			}
			if err := p.expect(">"); err != nil {
				return nil, err
			}
			switch t.val {
			case "Record":
				if len(args) != 2 {
					return nil, fmt.Errorf("Record needs two arguments")
				}
				return &TSType{Kind: TSRecord, Elem: args[1]}, nil
			case "Array":
				return &TSType{Kind: TSArray, Elem: args[0]}, nil
			default:
				return args[0], nil
			}
		}
		return &TSType{Kind: TSNamed, Name: t.val}, nil
	case "punct":
		switch t.val {
		case "(":
			in, err := p.parseType()
			if err != nil {
				return nil, err
			}
			return in, p.expect(")")
		case "{":
			ms, err := p.parseMembers()
			if err != nil {
				return nil, err
			}
			return &TSType{Kind: TSObject, Members: ms}, nil
		}
	}
	return nil, fmt.Errorf("unexpected token %q in type", t.val)
}

// parseMembers parses members up to and including the closing brace.
func (p *tsParser) parseMembers() ([]TSMember, error) {
	var out []TSMember
	for {
		if p.accept("}") {
			return out, nil
		}
		t := p.next()
		if t.kind != "id" && t.kind != "str" {
			return nil, fmt.Errorf("unexpected token %q in object type", t.val)
		}
		if t.kind == "id" && t.val == "readonly" && (p.peek().kind == "id" || p.peek().kind == "str") {
			t = p.next()
		}
		m := TSMember{Name: t.val}
		if p.accept("?") {
			m.Optional = true
		}
		if p.accept("(") {
			// method signature: skip to the end of the member
			depth := 1
			for depth > 0 && p.peek().kind != "eof" {
				x := p.next()
				if x.val == "(" {
					depth++
				} else if x.val == ")" {
					depth--
				}
			}
			if p.accept(":") {
				if _, err := p.parseType(); err != nil {
					return nil, err
				}
			}
			if !p.accept(";") {
				p.accept(",")
			}
			continue
		}
		if err := p.expect(":"); err != nil {
			return nil, err
		}
		ty, err := p.parseType()
		if err != nil {
			return nil, fmt.Errorf("member %s: %w", m.Name, err)
		}
		m.Type = ty
		out = append(out, m)
		if !p.accept(";") {
			p.accept(",")
		}
	}
}

// ParseTSDecls extracts the exported interface and type-alias declarations of a module.
func ParseTSDecls(src string) (TSDecls, error) {
	toks, err := tsLex(src)
	if err != nil {
		return nil, err
	}
	p := &tsParser{toks: toks}
	out := TSDecls{}
	depth := 0
	for p.peek().kind != "eof" {
		t := p.next()
		if t.kind == "punct" && (t.val == "{" || t.val == "(") {
			depth++
			continue
		}
		if t.kind == "punct" && (t.val == "}" || t.val == ")") {
			depth--
			continue
		}
		if depth != 0 || t.kind != "id" || t.val != "export" {
			continue
		}
		switch p.peek().val {
		case "interface":
			p.next()
			name := p.next().val
			var ext []*TSType
			if p.peek().kind == "id" && p.peek().val == "extends" {
				p.next()
				for {
					e, err := p.parsePostfix()
					if err != nil {
						return nil, fmt.Errorf("interface %s: %w", name, err)
					}
					ext = append(ext, e)
					if !p.accept(",") {
						break
					}
				}
			}
			if err := p.expect("{"); err != nil {
				return nil, fmt.Errorf("interface %s: %w", name, err)
			}
			start := p.pos
			ms, err := p.parseMembers()
			if err != nil {
				// outside the modelled subset (function types, typeof ...): such interfaces are not message
				// types; skip the declaration (a message type that cannot be parsed is reported as undeclared)
				p.pos = start
				for depth := 1; depth > 0 && p.peek().kind != "eof"; {
					x := p.next()
					if x.kind == "punct" && x.val == "{" {
						depth++
					} else if x.kind == "punct" && x.val == "}" {
						depth--
					}
				}
				continue
			}
			ty := &TSType{Kind: TSObject, Members: ms}
			if len(ext) > 0 {
				ty = &TSType{Kind: TSInter, Alts: append(ext, ty)}
			}
			out[name] = ty
		case "type":
			p.next()
			name := p.next().val
			if err := p.expect("="); err != nil {
				return nil, fmt.Errorf("type %s: %w", name, err)
			}
			ty, err := p.parseType()
			if err != nil {
				return nil, fmt.Errorf("type %s: %w", name, err)
			}
			p.accept(";")
			out[name] = ty
		}
	}
	return out, nil
}

// TSMethodSig is the declared signature of one RPC method: `async name(req: In, options?: ...): Promise<Out>` in a
// client class, `name(ctx: ServerContext, req: In): Promise<Out>;` in a handler interface of the server module.
type TSMethodSig struct {
	Name    string
	In, Out *TSType
}

var tsMethodHeadRe = regexp.MustCompile(`(?m)^\s*(?:async\s+)?([A-Za-z_$][\w$]*)\((?:ctx:\s*ServerContext,\s*)?req:\s*`)
var tsClassRe = regexp.MustCompile(`(?m)^export\s+(?:class|interface)\s+([A-Za-z_$][\w$]*)`)

// typeUntil returns the type expression starting at src[from:] up to the first of the stop bytes at bracket depth 0.
func typeUntil(src string, from int, stops string) (string, int) {
	depth := 0
	for i := from; i < len(src); i++ {
		c := src[i]
		switch {
		case c == '<' || c == '(' || c == '[' || c == '{':
			depth++
		case (c == '>' || c == ')' || c == ']' || c == '}') && depth > 0:
			depth--
		case depth == 0 && strings.IndexByte(stops, c) >= 0:
			return strings.TrimSpace(src[from:i]), i
		case c == '\n':
			return "", -1
		}
	}
	return "", -1
}

// ParseTSMethodSigs extracts the request and result types the client classes (and the server module's handler
// interfaces) declare for their RPC methods, keyed "<Class or interface>.<method>".
func ParseTSMethodSigs(src string) (map[string]TSMethodSig, error) {
	out := map[string]TSMethodSig{}
	classes := tsClassRe.FindAllStringSubmatchIndex(src, -1)
	for _, ix := range tsMethodHeadRe.FindAllStringSubmatchIndex(src, -1) {
		name := src[ix[2]:ix[3]]
		inSrc, at := typeUntil(src, ix[1], ",)")
		if at < 0 {
			continue
		}
		// skip further parameters up to the closing parenthesis of the parameter list
		for src[at] != ')' {
			_, nx := typeUntil(src, at+1, ",)")
			if nx < 0 {
				break
			}
			at = nx
		}
		rest := src[at:]
		const lead = "): Promise<"
		if !strings.HasPrefix(rest, lead) {
			continue
		}
		outSrc, end := typeUntil(src, at+len(lead), ">")
		if end < 0 {
			continue
		}
		class := ""
		for _, c := range classes {
			if c[0] < ix[0] {
				class = src[c[2]:c[3]]
			}
		}
		in, err := ParseTSTypeExpr(inSrc)
		if err != nil {
			return nil, fmt.Errorf("method %s.%s request type %q: %w", class, name, inSrc, err)
		}
		o, err := ParseTSTypeExpr(outSrc)
		if err != nil {
			return nil, fmt.Errorf("method %s.%s result type %q: %w", class, name, outSrc, err)
		}
		out[class+"."+name] = TSMethodSig{Name: name, In: in, Out: o}
	}
	return out, nil
}

// ParseTSTypeExpr parses one type expression of the modelled subset.
func ParseTSTypeExpr(src string) (*TSType, error) {
	toks, err := tsLex(src)
	if err != nil {
		return nil, err
	}
	p := &tsParser{toks: toks}
	t, err := p.parseType()
	if err != nil {
		return nil, err
	}
	if p.peek().kind != "eof" {
		return nil, fmt.Errorf("trailing input after type: %q", p.peek().val)
	}
	return t, nil
}

// String renders a type canonically (used to compare declaration sets).
func (t *TSType) String() string {
	switch t.Kind {
	case TSNamed, TSPrim:
		return t.Name
	case TSLit:
		b, _ := json.Marshal(t.Lit)
		return string(b)
	case TSArray:
		return "(" + t.Elem.String() + ")[]"
	case TSRecord:
		return "Record<string," + t.Elem.String() + ">"
	case TSObject:
		var ms []string
		for _, m := range t.Members {
			o := ""
			if m.Optional {
				o = "?"
			}
			ms = append(ms, m.Name+o+":"+m.Type.String())
		}
		return "{" + strings.Join(ms, ";") + "}"
	case TSUnion, TSInter:
		var as []string
		for _, a := range t.Alts {
			as = append(as, a.String())
		}
		if t.Kind == TSUnion {
			sort.Strings(as)
			return "(" + strings.Join(as, "|") + ")"
		}
		return "(" + strings.Join(as, "&") + ")"
	}
	return "?"
}

// TSProblem is one reason why a value is not in a type.
type TSProblem struct {
	Path string
	Kind string // missing | excess | type
	Msg  string
}

// objAlt is one object alternative (disjunct) after distributing intersections over unions.
type objAlt struct {
	members map[string]TSMember
	record  *TSType // Record element type (members beyond the declared ones allowed)
	nonObj  []*TSType
}

func (d TSDecls) resolve(t *TSType, depth int) *TSType {
	for t != nil && t.Kind == TSNamed && depth < 32 {
		n, ok := d[t.Name]
		if !ok {
			return t
		}
		t = n
		depth++
	}
	return t
}

// alts expands a type into disjuncts; each disjunct is a list of conjuncts.
func (d TSDecls) dnf(t *TSType, depth int) [][]*TSType {
	t = d.resolve(t, depth)
	if depth > 24 {
		return [][]*TSType{{t}}
	}
	switch t.Kind {
	case TSUnion:
		var out [][]*TSType
		for _, a := range t.Alts {
			out = append(out, d.dnf(a, depth+1)...)
		}
		return out
	case TSInter:
		acc := [][]*TSType{{}}
		for _, a := range t.Alts {
			var next [][]*TSType
			for _, left := range acc {
				for _, right := range d.dnf(a, depth+1) {
					next = append(next, append(append([]*TSType{}, left...), right...))
				}
			}
			acc = next
		}
		return acc
	}
	return [][]*TSType{{t}}
}

// Check returns the problems that keep value v from being a member of type t (empty = member).
func (d TSDecls) Check(v any, t *TSType, path string) []TSProblem {
	return d.check(v, t, path, 0)
}

func (d TSDecls) check(v any, t *TSType, path string, depth int) []TSProblem {
	if depth > 40 {
		return nil
	}
	disj := d.dnf(t, 0)
	var best []TSProblem
	for i, conj := range disj {
		ps := d.checkConj(v, conj, path, depth)
		if len(ps) == 0 {
			return nil
		}
		if i == 0 || score(ps) < score(best) {
			best = ps
		}
	}
	return best
}

func score(ps []TSProblem) int {
	s := 0
	for _, p := range ps {
		if p.Kind == "type" {
			s += 100
		} else {
			s += 10
		}
		s -= len(p.Path) // deeper problems mean a better-matching branch
	}
	return s
}

func jsType(v any) string {
	switch v.(type) {
	case nil:
		return "null"
	case bool:
		return "boolean"
	case json.Number:
		return "number"
	case string:
		return "string"
	case []any:
		return "array"
	case map[string]any:
		return "object"
	}
	return "?"
}

func (d TSDecls) checkConj(v any, conj []*TSType, path string, depth int) []TSProblem {
	// split object-like and other conjuncts
	members := map[string]TSMember{}
	var rec *TSType
	hasObj := false
	var ps []TSProblem
	for _, c := range conj {
		c = d.resolve(c, 0)
		switch c.Kind {
		case TSObject:
			hasObj = true
			for _, m := range c.Members {
				members[m.Name] = m
			}
		case TSRecord:
			hasObj = true
			rec = c.Elem
		default:
			ps = append(ps, d.checkSimple(v, c, path, depth)...)
		}
	}
	if !hasObj {
		return ps
	}
	obj, ok := v.(map[string]any)
	if !ok {
		return append(ps, TSProblem{path, "type", fmt.Sprintf("want object, got %s", jsType(v))})
	}
	names := make([]string, 0, len(members))
	for n := range members {
		names = append(names, n)
	}
	sort.Strings(names)
	for _, n := range names {
		m := members[n]
		val, present := obj[n]
		if !present {
			if !m.Optional {
				ps = append(ps, TSProblem{path + "/" + n, "missing", "required member absent"})
			}
			continue
		}
		ps = append(ps, d.check(val, m.Type, path+"/"+n, depth+1)...)
	}
	var keys []string
	for k := range obj {
		keys = append(keys, k)
	}
	sort.Strings(keys)
	for _, k := range keys {
		if _, declared := members[k]; declared {
			continue
		}
		if rec != nil {
			ps = append(ps, d.check(obj[k], rec, path+"/"+k, depth+1)...)
			continue
		}
		ps = append(ps, TSProblem{path + "/" + k, "excess", "member not declared by the type"})
	}
	return ps
}

func (d TSDecls) checkSimple(v any, t *TSType, path string, depth int) []TSProblem {
	bad := func(want string) []TSProblem {
		return []TSProblem{{path, "type", fmt.Sprintf("want %s, got %s %s", want, jsType(v), short(Marshal(v)))}}
	}
	switch t.Kind {
	case TSPrim:
		switch t.Name {
		case "unknown", "any":
			return nil
		case "string":
			if _, ok := v.(string); !ok {
				return bad("string")
			}
		case "number":
			if _, ok := v.(json.Number); !ok {
				return bad("number")
			}
		case "boolean":
			if _, ok := v.(bool); !ok {
				return bad("boolean")
			}
		case "null":
			if v != nil {
				return bad(t.Name)
			}
		case "undefined":
			return bad("undefined (JSON cannot carry it: the member must be absent)")
		case "object":
			if _, ok := v.(map[string]any); !ok {
				return bad("object")
			}
		case "never":
			return bad("never")
		}
		return nil
	case TSLit:
		switch lit := t.Lit.(type) {
		case string:
			if s, ok := v.(string); !ok || s != lit {
				return bad(fmt.Sprintf("literal %q", lit))
			}
		case json.Number:
			if n, ok := v.(json.Number); !ok || !numEqual(n, lit) {
				return bad("literal " + string(lit))
			}
		case bool:
			if b, ok := v.(bool); !ok || b != lit {
				return bad(fmt.Sprintf("literal %v", lit))
			}
		}
		return nil
	case TSArray:
		arr, ok := v.([]any)
		if !ok {
			return bad("array")
		}
		var ps []TSProblem
		for i, e := range arr {
			ps = append(ps, d.check(e, t.Elem, fmt.Sprintf("%s/%d", path, i), depth+1)...)
		}
		return ps
	case TSNamed:
		return []TSProblem{{path, "type", "undeclared type " + t.Name}}
	}
	return d.check(v, t, path, depth+1)
}
