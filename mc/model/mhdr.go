package model

import (
	"regexp"
	"sort"
	"strconv"
	"strings"
)

// M-hdr: header well-formedness per declared type/format. A reference classifier sorts any text into
// Valid (well-formed per the published OpenAPI type/format: a server must not reject it), Invalid (not well-formed: a
// required header carrying it must be answered 400) or Unjudged (lenient spellings on which the contract is silent).
// The probe sets are not hand-picked: they are every string within a stated edit distance of a valid exemplar over a
// small per-format alphabet (formats), or every string up to a stated length over a token alphabet (integer, number),
// classified by the reference. Whitespace is not in any alphabet: HTTP strips it from the ends of a field value.

type HdrVerdict int

const (
	HdrUnjudged HdrVerdict = iota
	HdrValid
	HdrInvalid
)

var (
	reStrictInt   = regexp.MustCompile(`^-?(0|[1-9][0-9]*)$`)
	reJSONNumber  = regexp.MustCompile(`^-?(0|[1-9][0-9]*)(\.[0-9]+)?([eE][+-]?[0-9]+)?$`)
	reSloppyNum   = regexp.MustCompile(`^[+-]?([0-9]+\.?[0-9]*|\.[0-9]+)([eE][+-]?[0-9]+)?$`)
	reRadixNum    = regexp.MustCompile(`^[+-]?0[xXbBoO][0-9a-fA-F_pP.+-]+$`)
	reNamedNum    = regexp.MustCompile(`(?i)^[+-]?(inf|infinity|nan)$`)
	reUUID        = regexp.MustCompile(`^[0-9a-fA-F]{8}-[0-9a-fA-F]{4}-[0-9a-fA-F]{4}-[0-9a-fA-F]{4}-[0-9a-fA-F]{12}$`)
	reDate        = regexp.MustCompile(`^([0-9]{4})-([0-9]{2})-([0-9]{2})$`)
	reClock       = `([0-9]{2}):([0-9]{2}):([0-9]{2})(\.[0-9]+)?`
	reOffset      = `(Z|[+-]([0-9]{2}):([0-9]{2}))`
	reFullTime    = regexp.MustCompile(`^` + reClock + reOffset + `$`)
	rePartialTime = regexp.MustCompile(`^` + reClock + `$`)
	reDateTime    = regexp.MustCompile(`^([0-9]{4})-([0-9]{2})-([0-9]{2})T` + reClock + reOffset + `$`)
	reDateTimeLax = regexp.MustCompile(`^([0-9]{4})-([0-9]{2})-([0-9]{2})[Tt ]` + reClock + `([Zz]|[+-][0-9]{2}:[0-9]{2})$`)
	reEmailPlain  = regexp.MustCompile(`^[A-Za-z0-9_%+-]+(\.[A-Za-z0-9_%+-]+)*@[A-Za-z0-9]([A-Za-z0-9-]*[A-Za-z0-9])?(\.[A-Za-z0-9]([A-Za-z0-9-]*[A-Za-z0-9])?)+$`)
)

func atoi(s string) int { n, _ := strconv.Atoi(s); return n }

func calendarOK(y, m, d int) bool {
	if m < 1 || m > 12 || d < 1 {
		return false
	}
	leap := (y%4 == 0 && y%100 != 0) || y%400 == 0
	days := []int{31, 28, 31, 30, 31, 30, 31, 31, 30, 31, 30, 31}
	if leap {
		days[1] = 29
	}
	return d <= days[m-1]
}

// clock classifies hh:mm:ss (+ offset hours/minutes when present): Valid, Invalid (a component out of range) or
// Unjudged (second 60: a leap second is well-formed per RFC 3339 but rarely accepted).
func clock(h, m, s string, offH, offM string) HdrVerdict {
	if atoi(h) > 23 || atoi(m) > 59 || atoi(s) > 60 {
		return HdrInvalid
	}
	if offH != "" && (atoi(offH) > 23 || atoi(offM) > 59) {
		return HdrUnjudged // offset out of range: ill-formed, but the range of an offset is rarely checked; not judged
	}
	if atoi(s) == 60 {
		return HdrUnjudged
	}
	return HdrValid
}

// ClassifyHeader is the reference: is v well-formed for a header declared with this type and format?
func ClassifyHeader(typ, format, v string) HdrVerdict {
	if v == "" {
		return HdrInvalid
	}
	switch typ {
	case "integer":
		if reStrictInt.MatchString(v) {
			if len(v) <= 18 {
				return HdrValid
			}
			return HdrUnjudged // beyond 64 bits: an integer for JSON Schema, not for every implementation
		}
		if reSloppyNum.MatchString(v) || reRadixNum.MatchString(v) {
			// +1, 01, 1.0, 1e1 (lenient spellings of an integer), 0x10: not judged — unless the value is plainly fractional
			if f, err := strconv.ParseFloat(v, 64); err == nil && f != float64(int64(f)) && !strings.ContainsAny(v, "xXbBoO") {
				return HdrInvalid
			}
			return HdrUnjudged
		}
		return HdrInvalid
	case "number":
		if reJSONNumber.MatchString(v) {
			if _, err := strconv.ParseFloat(v, 64); err == nil {
				return HdrValid
			}
			return HdrUnjudged // overflows a double
		}
		if reSloppyNum.MatchString(v) || reRadixNum.MatchString(v) || reNamedNum.MatchString(v) {
			return HdrUnjudged
		}
		return HdrInvalid
	case "boolean":
		switch v {
		case "true", "false":
			return HdrValid
		case "1", "0", "t", "f", "T", "F", "TRUE", "True", "FALSE", "False":
			return HdrUnjudged // strconv.ParseBool's spellings
		}
		return HdrInvalid
	case "array":
		return HdrValid // a non-empty comma-separated list; nothing non-empty is malformed
	}
	switch format {
	case "uuid":
		if reUUID.MatchString(v) {
			return HdrValid
		}
		return HdrInvalid
	case "date":
		if g := reDate.FindStringSubmatch(v); g != nil && calendarOK(atoi(g[1]), atoi(g[2]), atoi(g[3])) {
			return HdrValid
		}
		return HdrInvalid
	case "date-time":
		if g := reDateTime.FindStringSubmatch(v); g != nil {
			if !calendarOK(atoi(g[1]), atoi(g[2]), atoi(g[3])) {
				return HdrInvalid
			}
			return clock(g[4], g[5], g[6], g[9], g[10])
		}
		if reDateTimeLax.MatchString(v) {
			return HdrUnjudged // lower-case t/z or a space separator: RFC 3339 allows them by agreement
		}
		return HdrInvalid
	case "time":
		if g := reFullTime.FindStringSubmatch(v); g != nil {
			return clock(g[1], g[2], g[3], g[6], g[7])
		}
		if g := rePartialTime.FindStringSubmatch(v); g != nil {
			if clock(g[1], g[2], g[3], "", "") == HdrInvalid {
				return HdrInvalid
			}
			return HdrUnjudged // partial-time without offset: not an RFC 3339 full-time, accepted by convention
		}
		return HdrInvalid
	case "email":
		if strings.Count(v, "@") != 1 && !strings.Contains(v, `"`) {
			return HdrInvalid
		}
		if strings.HasPrefix(v, "@") || strings.HasSuffix(v, "@") {
			return HdrInvalid
		}
		if strings.ContainsAny(v, " \t\r\n") && !strings.Contains(v, `"`) {
			return HdrInvalid
		}
		if reEmailPlain.MatchString(v) {
			return HdrValid
		}
		return HdrUnjudged
	}
	return HdrValid // plain string: every non-empty text is acceptable, nothing is malformed
}

type hdrSpace struct {
	exemplars []string
	subst     string // substitution alphabet
	insert    string // insertion alphabet
	tokens    string // for token spaces: every string up to maxLen over these
	maxLen    int
	extra     []string
}

func hdrSpaceFor(typ, format string) hdrSpace {
	switch typ {
	case "integer":
		return hdrSpace{tokens: "01-+.ex", maxLen: 3, extra: []string{"42", "-7", "abc", "12x", "1.5", "9223372036854775808", "123456789012345678"}}
	case "number":
		return hdrSpace{tokens: "01-+.ex", maxLen: 3, extra: []string{"1.5", "-2", "1e3", "abc", "1,5", "1.5.2"}}
	case "boolean":
		return hdrSpace{extra: []string{"true", "false", "maybe", "yes", "no", "2", "tru", "truee", "ttrue", "on", "off", "-1", "01", "null", "TRUE", "True", "1", "0", "fals", "falsee", "truefalse", "true,false"}}
	case "array":
		return hdrSpace{extra: []string{"a,b", "a"}}
	}
	switch format {
	case "uuid":
		return hdrSpace{exemplars: []string{"123e4567-e89b-12d3-a456-426614174000", "ABCDEF01-2345-6789-abcd-ef0123456789"}, subst: "-gG0f_", insert: "-0",
			extra: []string{"not-a-uuid", "zzzzzzzz-zzzz-zzzz-zzzz-zzzzzzzzzzzz", "123e4567e89b12d3a456426614174000----", "{123e4567-e89b-12d3-a456-426614174000}"}}
	case "date":
		return hdrSpace{exemplars: []string{"2024-01-15", "1999-12-31", "2024-02-29"}, subst: "0139-/x", insert: "0-",
			extra: []string{"2024-1-5", "15/01/2024", "2024-02-30", "2023-02-29", "2024-00-10", "2024-13-01", "2024-01-00", "2024-01-32"}}
	case "date-time":
		return hdrSpace{exemplars: []string{"2024-01-15T09:30:00Z", "2024-01-15T09:30:00.123+02:00"}, subst: "0369-:.TZ+x", insert: "0:Z",
			extra: []string{"2024-01-15", "yesterday", "2024-13-45T00:00:00Z", "2024-01-15T24:00:00Z", "2024-01-15T09:60:00Z", "2024-01-15T09:30:61Z", "2024-02-30T09:30:00Z", "2024-01-15T09:30:00", "2024-01-15T09:30Z"}}
	case "time":
		return hdrSpace{exemplars: []string{"09:30:00Z", "23:59:59+01:00"}, subst: "0369:.Z+-x", insert: "0:Z",
			extra: []string{"25:00:00Z", "9:30", "noon", "09:60:00Z", "09:30:61Z", "24:00:00Z"}}
	case "email":
		return hdrSpace{exemplars: []string{"user@example.com", "a.b+c@sub.example.org"}, subst: "@x", insert: "@",
			extra: []string{"userexample.com", "@example.com", "user@", "user@@example.com", "us er@example.com", "user@exam ple.com", "a@b@c.org"}}
	}
	return hdrSpace{extra: []string{"value", "x y;z=1"}}
}

// HeaderProbes enumerates the probe space of a declaration: depth 1 = every single substitution / deletion / insertion
// of each exemplar, every pair of substitutions by the first alphabet character (the format's separator) and every token
// string up to maxLen; depth 2 = pairs over the first three alphabet characters and token strings one longer. The result is split by the reference classifier; unjudged probes are returned for crash-freedom only.
func HeaderProbes(typ, format string, depth int) (valid, invalid, unjudged []string) {
	sp := hdrSpaceFor(typ, format)
	seen := map[string]bool{}
	var all []string
	add := func(s string) {
		if s == "" || seen[s] || strings.TrimSpace(s) != s {
			return
		}
		seen[s] = true
		all = append(all, s)
	}
	for _, e := range sp.exemplars {
		add(e)
	}
	for _, e := range sp.extra {
		add(e)
	}
	for _, e := range sp.exemplars {
		b := []byte(e)
		for i := range b {
			for _, c := range []byte(sp.subst) {
				if b[i] != c {
					m := append([]byte{}, b...)
					m[i] = c
					add(string(m))
				}
			}
			add(string(append(append([]byte{}, b[:i]...), b[i+1:]...)))
		}
		for i := 0; i <= len(b); i++ {
			for _, c := range []byte(sp.insert) {
				add(string(append(append(append([]byte{}, b[:i]...), c), b[i:]...)))
			}
		}
		{
			// pairs of substitutions: over the first alphabet character at depth 1, over the first three at depth 2
			two := sp.subst
			if depth < 2 && len(two) > 1 {
				two = two[:1]
			}
			if len(two) > 3 {
				two = two[:3]
			}
			for i := range b {
				for j := i + 1; j < len(b); j++ {
					for _, c := range []byte(two) {
						for _, d := range []byte(two) {
							if b[i] != c && b[j] != d {
								m := append([]byte{}, b...)
								m[i], m[j] = c, d
								add(string(m))
							}
						}
					}
				}
			}
		}
	}
	if sp.tokens != "" {
		maxLen := sp.maxLen
		if depth >= 2 {
			maxLen++
		}
		var rec func(prefix string)
		rec = func(prefix string) {
			if prefix != "" {
				add(prefix)
			}
			if len(prefix) == maxLen {
				return
			}
			for _, c := range sp.tokens {
				rec(prefix + string(c))
			}
		}
		rec("")
	}
	sort.Strings(all)
	for _, s := range all {
		switch ClassifyHeader(typ, format, s) {
		case HdrValid:
			valid = append(valid, s)
		case HdrInvalid:
			invalid = append(invalid, s)
		default:
			unjudged = append(unjudged, s)
		}
	}
	return
}

// MustAccept lists values that are valid per the published OpenAPI type/format (quick depth).
func MustAccept(typ, format string, depth int) []string {
	v, _, _ := HeaderProbes(typ, format, depth)
	if len(v) == 0 {
		return []string{"value", "x y;z=1"}
	}
	return v
}

// MustReject lists values that are not well-formed for the declared type/format (besides absent and empty).
func MustReject(typ, format string, depth int) []string {
	_, inv, _ := HeaderProbes(typ, format, depth)
	return inv
}
