package model

// M-hdr: header well-formedness per declared type/format, in two strengths. Values in neither set are not judged.

// MustAccept lists values that are valid per the published OpenAPI type/format.
func MustAccept(typ, format string) []string {
	switch typ {
	case "integer":
		return []string{"42", "0", "-7"}
	case "number":
		return []string{"1.5", "-2", "1e3", "0"}
	case "boolean":
		return []string{"true", "false"}
	case "array":
		return []string{"a,b", "a"}
	}
	switch format {
	case "uuid":
		return []string{"123e4567-e89b-12d3-a456-426614174000", "123E4567-E89B-12D3-A456-426614174000"}
	case "email":
		return []string{"user@example.com", "a.b+c@sub.example.org"}
	case "date-time":
		return []string{"2024-01-15T09:30:00Z", "2024-01-15T09:30:00.123+02:00"}
	case "date":
		return []string{"2024-01-15", "1999-12-31"}
	case "time":
		return []string{"09:30:00Z", "23:59:59+01:00"}
	}
	return []string{"value", "x y;z=1"}
}

// MustReject lists values that are not well-formed for the declared type/format (besides absent and empty).
func MustReject(typ, format string) []string {
	switch typ {
	case "integer":
		return []string{"abc", "1.5", "12x"}
	case "number":
		return []string{"abc", "1,5"}
	case "boolean":
		return []string{"maybe", "yes", "2"}
	case "array":
		return nil
	}
	switch format {
	case "uuid":
		return []string{"not-a-uuid", "123e4567-e89b-12d3-a456-42661417400", "zzzzzzzz-zzzz-zzzz-zzzz-zzzzzzzzzzzz", "123e4567e89b12d3a456426614174000----"}
	case "email":
		return []string{"userexample.com", "@example.com", "user@"}
	case "date-time":
		return []string{"2024-01-15", "yesterday", "2024-13-45T00:00:00Z"}
	case "date":
		return []string{"2024-1-5", "15/01/2024", "2024-02-30"}
	case "time":
		return []string{"25:00:00Z", "9:30", "noon"}
	}
	return nil
}
