package model

import (
	sebufhttp "github.com/SebastienMelki/sebuf/http"
	"google.golang.org/protobuf/proto"
	"google.golang.org/protobuf/reflect/protoreflect"
)

// Normalise returns a clone of m with the losses that the annotations document applied, so that two
// messages are "equal up to documented losses" iff their normal forms are proto.Equal:
//   - timestamp_format UNIX_SECONDS / UNIX_MILLIS / DATE truncate sub-second / sub-millisecond / time of day
//   - empty_behavior OMIT and NULL, and flatten: a present-but-empty child is indistinguishable from an absent one
//   - map-value unwrap: only the unwrap field of the wrapper travels
func Normalise(m proto.Message) proto.Message {
	c := proto.Clone(m)
	normMsg(c.ProtoReflect(), 0)
	return c
}

func normMsg(m protoreflect.Message, depth int) {
	if depth > 32 {
		return
	}
	fds := m.Descriptor().Fields()
	for i := 0; i < fds.Len(); i++ {
		fd := fds.Get(i)
		switch {
		case fd.IsMap():
			vd := fd.MapValue()
			if vd.Kind() != protoreflect.MessageKind {
				continue
			}
			m.Get(fd).Map().Range(func(k protoreflect.MapKey, v protoreflect.Value) bool {
				if isTimestamp(vd) {
					normTs(v.Message(), extInt(fd, sebufhttp.E_TimestampFormat))
					return true
				}
				if uf := ValueUnwrapField(vd.Message()); uf != nil {
					vm := v.Message()
					ofs := vm.Descriptor().Fields()
					for j := 0; j < ofs.Len(); j++ {
						if ofs.Get(j) != uf {
							vm.Clear(ofs.Get(j))
						}
					}
				}
				normMsg(v.Message(), depth+1)
				return true
			})
		case fd.IsList():
			if fd.Kind() != protoreflect.MessageKind {
				continue
			}
			l := m.Get(fd).List()
			for j := 0; j < l.Len(); j++ {
				if isTimestamp(fd) {
					normTs(l.Get(j).Message(), extInt(fd, sebufhttp.E_TimestampFormat))
				} else {
					normMsg(l.Get(j).Message(), depth+1)
				}
			}
		case fd.Kind() == protoreflect.MessageKind:
			if !m.Has(fd) {
				continue
			}
			child := m.Mutable(fd).Message()
			if isTimestamp(fd) {
				normTs(child, extInt(fd, sebufhttp.E_TimestampFormat))
				continue
			}
			normMsg(child, depth+1)
			if proto.Size(child.Interface()) == 0 {
				eb := sebufhttp.EmptyBehavior(extInt(fd, sebufhttp.E_EmptyBehavior))
				inPlainOneof := fd.ContainingOneof() != nil && !fd.ContainingOneof().IsSynthetic()
				if !inPlainOneof && (IsFlatten(fd) || eb == sebufhttp.EmptyBehavior_EMPTY_BEHAVIOR_OMIT || eb == sebufhttp.EmptyBehavior_EMPTY_BEHAVIOR_NULL) {
					m.Clear(fd)
				}
			}
		}
	}
}

func normTs(m protoreflect.Message, format int32) {
	fs := m.Descriptor().Fields()
	sf, nf := fs.ByName("seconds"), fs.ByName("nanos")
	s, n := m.Get(sf).Int(), m.Get(nf).Int()
	switch sebufhttp.TimestampFormat(format) {
	case sebufhttp.TimestampFormat_TIMESTAMP_FORMAT_UNIX_SECONDS:
		n = 0
	case sebufhttp.TimestampFormat_TIMESTAMP_FORMAT_UNIX_MILLIS:
		n = n / 1e6 * 1e6
	case sebufhttp.TimestampFormat_TIMESTAMP_FORMAT_DATE:
		n = 0
		s = floorDiv(s, 86400) * 86400
	default:
		return
	}
	m.Set(sf, protoreflect.ValueOfInt64(s))
	m.Set(nf, protoreflect.ValueOfInt32(int32(n)))
}

func floorDiv(a, b int64) int64 {
	q := a / b
	if (a%b != 0) && ((a < 0) != (b < 0)) {
		q--
	}
	return q
}
