// Package model holds the reference models (oracles). M-json is the documented JSON mapping: proto3 JSON
// modified only by the sebuf annotations, applied at every depth and in every context.
package model

import (
	"encoding/base64"
	"encoding/hex"
	"encoding/json"
	"fmt"
	"math"
	"sort"
	"strconv"
	"strings"
	"time"

	sebufhttp "github.com/SebastienMelki/sebuf/http"
	"google.golang.org/protobuf/proto"
	"google.golang.org/protobuf/reflect/protoreflect"
	"google.golang.org/protobuf/types/descriptorpb"
)

// JSON value tree: map[string]any, []any, string, json.Number, bool, nil.

type EncOpts struct {
	Explicit bool // also spell out zero values, empty lists and maps (what a TS client / OpenAPI consumer may send)
	// Nulls: every member that is absent from the canonical form because its field is unset (or an empty list / map) is spelled
	// `null` instead - proto3 JSON accepts null for any field and reads it as the default value. Not applied where an annotation
	// gives null a meaning of its own (empty_behavior NULL: the empty message) nor to the members a oneof or a flattened field
	// contributes.
	Nulls bool
}

func fopts(fd protoreflect.FieldDescriptor) *descriptorpb.FieldOptions {
	o, _ := fd.Options().(*descriptorpb.FieldOptions)
	return o
}

func extInt(fd protoreflect.FieldDescriptor, x protoreflect.ExtensionType) int32 {
	o := fopts(fd)
	if o == nil || !proto.HasExtension(o, x) {
		return 0
	}
	switch v := proto.GetExtension(o, x).(type) {
	case sebufhttp.Int64Encoding:
		return int32(v)
	case sebufhttp.EnumEncoding:
		return int32(v)
	case sebufhttp.EmptyBehavior:
		return int32(v)
	case sebufhttp.TimestampFormat:
		return int32(v)
	case sebufhttp.BytesEncoding:
		return int32(v)
	}
	return 0
}

func extBool(fd protoreflect.FieldDescriptor, x protoreflect.ExtensionType) bool {
	o := fopts(fd)
	if o == nil || !proto.HasExtension(o, x) {
		return false
	}
	b, _ := proto.GetExtension(o, x).(bool)
	return b
}

func extStr(fd protoreflect.FieldDescriptor, x protoreflect.ExtensionType) (string, bool) {
	o := fopts(fd)
	if o == nil || !proto.HasExtension(o, x) {
		return "", false
	}
	s, _ := proto.GetExtension(o, x).(string)
	return s, true
}

func IsUnwrap(fd protoreflect.FieldDescriptor) bool  { return extBool(fd, sebufhttp.E_Unwrap) }
func IsFlatten(fd protoreflect.FieldDescriptor) bool { return extBool(fd, sebufhttp.E_Flatten) }
func IsNullable(fd protoreflect.FieldDescriptor) bool {
	return extBool(fd, sebufhttp.E_Nullable)
}

// RootUnwrapField: the message has exactly one field and it carries unwrap.
func RootUnwrapField(md protoreflect.MessageDescriptor) protoreflect.FieldDescriptor {
	if md.Fields().Len() != 1 {
		return nil
	}
	fd := md.Fields().Get(0)
	if IsUnwrap(fd) && (fd.IsList() || fd.IsMap()) {
		return fd
	}
	return nil
}

// ValueUnwrapField: the repeated field with unwrap that replaces the message when it is a map value.
func ValueUnwrapField(md protoreflect.MessageDescriptor) protoreflect.FieldDescriptor {
	for i := 0; i < md.Fields().Len(); i++ {
		fd := md.Fields().Get(i)
		if IsUnwrap(fd) && fd.IsList() {
			return fd
		}
	}
	return nil
}

// OneofCfg returns the discriminator config of a oneof (nil if none).
func OneofCfg(od protoreflect.OneofDescriptor) *sebufhttp.OneofConfig {
	o, _ := od.Options().(*descriptorpb.OneofOptions)
	if o == nil || !proto.HasExtension(o, sebufhttp.E_OneofConfig) {
		return nil
	}
	c, _ := proto.GetExtension(o, sebufhttp.E_OneofConfig).(*sebufhttp.OneofConfig)
	if c == nil || c.GetDiscriminator() == "" {
		return nil
	}
	return c
}

func DiscValue(fd protoreflect.FieldDescriptor) string {
	if v, ok := extStr(fd, sebufhttp.E_OneofValue); ok && v != "" {
		return v
	}
	return string(fd.Name())
}

func enumCustom(ev protoreflect.EnumValueDescriptor) (string, bool) {
	o, _ := ev.Options().(*descriptorpb.EnumValueOptions)
	if o == nil || !proto.HasExtension(o, sebufhttp.E_EnumValue) {
		return "", false
	}
	s, _ := proto.GetExtension(o, sebufhttp.E_EnumValue).(string)
	return s, s != ""
}

const tsFullName = "google.protobuf.Timestamp"

func isTimestamp(fd protoreflect.FieldDescriptor) bool {
	return fd.Kind() == protoreflect.MessageKind && fd.Message().FullName() == tsFullName
}

// Encode returns the documented JSON form of m.
func Encode(m protoreflect.Message, o EncOpts) (any, error) {
	md := m.Descriptor()
	if md.FullName() == tsFullName {
		return encodeTimestamp(m, 0)
	}
	if fd := RootUnwrapField(md); fd != nil {
		return encodeContainer(m, fd, o, true)
	}
	obj := map[string]any{}
	if err := encodeFieldsInto(obj, m, "", o); err != nil {
		return nil, err
	}
	return obj, nil
}

// encodeFieldsInto writes the members of m into obj, each key prefixed.
func encodeFieldsInto(obj map[string]any, m protoreflect.Message, prefix string, o EncOpts) error {
	md := m.Descriptor()
	put := func(k string, v any) error {
		if _, dup := obj[prefix+k]; dup {
			return fmt.Errorf("M-json: duplicate key %q in %s (schema is not encodable without collision)", prefix+k, md.FullName())
		}
		obj[prefix+k] = v
		return nil
	}
	fds := md.Fields()
	for i := 0; i < fds.Len(); i++ {
		fd := fds.Get(i)
		key := fd.JSONName()
		if od := fd.ContainingOneof(); od != nil && !od.IsSynthetic() {
			if cfg := OneofCfg(od); cfg != nil {
				if !m.Has(fd) {
					continue
				}
				if err := put(cfg.GetDiscriminator(), DiscValue(fd)); err != nil {
					return err
				}
				if cfg.GetFlatten() && fd.Kind() == protoreflect.MessageKind && !isTimestamp(fd) {
					if err := encodeFieldsInto(obj, m.Get(fd).Message(), prefix, o); err != nil {
						return err
					}
					continue
				}
				v, err := encodeSingular(fd, m.Get(fd), o)
				if err != nil {
					return err
				}
				if err := put(key, v); err != nil {
					return err
				}
				continue
			}
		}
		switch {
		case fd.IsMap() || fd.IsList():
			n := 0
			if fd.IsMap() {
				n = m.Get(fd).Map().Len()
			} else {
				n = m.Get(fd).List().Len()
			}
			if n == 0 && o.Nulls {
				if err := put(key, nil); err != nil {
					return err
				}
				continue
			}
			if n == 0 && !o.Explicit {
				continue
			}
			v, err := encodeContainer(m, fd, o, false)
			if err != nil {
				return err
			}
			if err := put(key, v); err != nil {
				return err
			}
		case fd.Kind() == protoreflect.MessageKind:
			if IsFlatten(fd) && !isTimestamp(fd) {
				if m.Has(fd) {
					p, _ := extStr(fd, sebufhttp.E_FlattenPrefix)
					if err := encodeFieldsInto(obj, m.Get(fd).Message(), prefix+p, o); err != nil {
						return err
					}
				}
				continue
			}
			if !m.Has(fd) {
				if o.Nulls && extInt(fd, sebufhttp.E_EmptyBehavior) != int32(sebufhttp.EmptyBehavior_EMPTY_BEHAVIOR_NULL) && (fd.ContainingOneof() == nil || fd.ContainingOneof().IsSynthetic()) {
					if err := put(key, nil); err != nil {
						return err
					}
				}
				continue
			}
			child := m.Get(fd).Message()
			if !isTimestamp(fd) && proto.Size(child.Interface()) == 0 {
				switch extInt(fd, sebufhttp.E_EmptyBehavior) {
				case int32(sebufhttp.EmptyBehavior_EMPTY_BEHAVIOR_NULL):
					if err := put(key, nil); err != nil {
						return err
					}
					continue
				case int32(sebufhttp.EmptyBehavior_EMPTY_BEHAVIOR_OMIT):
					continue
				}
			}
			v, err := encodeSingular(fd, m.Get(fd), o)
			if err != nil {
				return err
			}
			if err := put(key, v); err != nil {
				return err
			}
		default:
			if fd.HasPresence() {
				if !m.Has(fd) {
					if IsNullable(fd) || (o.Nulls && fd.ContainingOneof() != nil && fd.ContainingOneof().IsSynthetic()) {
						if err := put(key, nil); err != nil {
							return err
						}
					}
					continue
				}
			} else if !m.Has(fd) && o.Nulls {
				if err := put(key, nil); err != nil {
					return err
				}
				continue
			} else if !m.Has(fd) && !o.Explicit {
				continue
			}
			v, err := encodeSingular(fd, m.Get(fd), o)
			if err != nil {
				return err
			}
			if err := put(key, v); err != nil {
				return err
			}
		}
	}
	return nil
}

func encodeContainer(m protoreflect.Message, fd protoreflect.FieldDescriptor, o EncOpts, root bool) (any, error) {
	if fd.IsMap() {
		out := map[string]any{}
		var err error
		m.Get(fd).Map().Range(func(k protoreflect.MapKey, v protoreflect.Value) bool {
			var ev any
			vd := fd.MapValue()
			if vd.Kind() == protoreflect.MessageKind && !isTimestamp(vd) {
				if uf := ValueUnwrapField(vd.Message()); uf != nil {
					ev, err = encodeContainer(v.Message(), uf, o, false)
				} else {
					ev, err = Encode(v.Message(), o)
				}
			} else {
				ev, err = encodeScalarLike(fd, vd, v, o)
			}
			if err != nil {
				return false
			}
			out[mapKeyString(k, fd.MapKey())] = ev
			return true
		})
		return out, err
	}
	l := m.Get(fd).List()
	out := make([]any, 0, l.Len())
	for i := 0; i < l.Len(); i++ {
		ev, err := encodeSingular(fd, l.Get(i), o)
		if err != nil {
			return nil, err
		}
		out = append(out, ev)
	}
	return out, nil
}

func mapKeyString(k protoreflect.MapKey, kd protoreflect.FieldDescriptor) string {
	switch kd.Kind() {
	case protoreflect.BoolKind:
		return strconv.FormatBool(k.Bool())
	case protoreflect.StringKind:
		return k.String()
	case protoreflect.Uint32Kind, protoreflect.Uint64Kind, protoreflect.Fixed32Kind, protoreflect.Fixed64Kind:
		return strconv.FormatUint(k.Uint(), 10)
	}
	return strconv.FormatInt(k.Int(), 10)
}

// encodeSingular encodes one element of field fd (the field's annotations apply to every element).
func encodeSingular(fd protoreflect.FieldDescriptor, v protoreflect.Value, o EncOpts) (any, error) {
	return encodeScalarLike(fd, fd, v, o)
}

// annFd carries the annotations, kindFd the kind (they differ for map values).
func encodeScalarLike(annFd, kindFd protoreflect.FieldDescriptor, v protoreflect.Value, o EncOpts) (any, error) {
	// The field-level codec annotations are documented as "valid on <kind> fields"; a map field is not a field of its value
	// kind, and none of the generators gives the annotation a meaning there: map values keep the default mapping.
	if annFd.IsMap() {
		annFd = kindFd
	}
	switch kindFd.Kind() {
	case protoreflect.BoolKind:
		return v.Bool(), nil
	case protoreflect.StringKind:
		return v.String(), nil
	case protoreflect.Int32Kind, protoreflect.Sint32Kind, protoreflect.Sfixed32Kind:
		return json.Number(strconv.FormatInt(v.Int(), 10)), nil
	case protoreflect.Uint32Kind, protoreflect.Fixed32Kind:
		return json.Number(strconv.FormatUint(v.Uint(), 10)), nil
	case protoreflect.Int64Kind, protoreflect.Sint64Kind, protoreflect.Sfixed64Kind:
		s := strconv.FormatInt(v.Int(), 10)
		if extInt(annFd, sebufhttp.E_Int64Encoding) == int32(sebufhttp.Int64Encoding_INT64_ENCODING_NUMBER) {
			return json.Number(s), nil
		}
		return s, nil
	case protoreflect.Uint64Kind, protoreflect.Fixed64Kind:
		s := strconv.FormatUint(v.Uint(), 10)
		if extInt(annFd, sebufhttp.E_Int64Encoding) == int32(sebufhttp.Int64Encoding_INT64_ENCODING_NUMBER) {
			return json.Number(s), nil
		}
		return s, nil
	case protoreflect.FloatKind:
		return floatJSON(v.Float(), 32), nil
	case protoreflect.DoubleKind:
		return floatJSON(v.Float(), 64), nil
	case protoreflect.BytesKind:
		b := v.Bytes()
		switch sebufhttp.BytesEncoding(extInt(annFd, sebufhttp.E_BytesEncoding)) {
		case sebufhttp.BytesEncoding_BYTES_ENCODING_HEX:
			return hex.EncodeToString(b), nil
		case sebufhttp.BytesEncoding_BYTES_ENCODING_BASE64_RAW:
			return base64.RawStdEncoding.EncodeToString(b), nil
		case sebufhttp.BytesEncoding_BYTES_ENCODING_BASE64URL:
			return base64.URLEncoding.EncodeToString(b), nil
		case sebufhttp.BytesEncoding_BYTES_ENCODING_BASE64URL_RAW:
			return base64.RawURLEncoding.EncodeToString(b), nil
		}
		return base64.StdEncoding.EncodeToString(b), nil
	case protoreflect.EnumKind:
		n := v.Enum()
		if extInt(annFd, sebufhttp.E_EnumEncoding) == int32(sebufhttp.EnumEncoding_ENUM_ENCODING_NUMBER) {
			return json.Number(strconv.Itoa(int(n))), nil
		}
		ev := kindFd.Enum().Values().ByNumber(n)
		if ev == nil {
			return json.Number(strconv.Itoa(int(n))), nil
		}
		if c, ok := enumCustom(ev); ok {
			return c, nil
		}
		return string(ev.Name()), nil
	case protoreflect.MessageKind, protoreflect.GroupKind:
		if isTimestamp(kindFd) {
			return encodeTimestamp(v.Message(), extInt(annFd, sebufhttp.E_TimestampFormat))
		}
		return Encode(v.Message(), o)
	}
	return nil, fmt.Errorf("M-json: unsupported kind %v", kindFd.Kind())
}

func floatJSON(f float64, bits int) any {
	switch {
	case math.IsNaN(f):
		return "NaN"
	case math.IsInf(f, 1):
		return "Infinity"
	case math.IsInf(f, -1):
		return "-Infinity"
	}
	return json.Number(strconv.FormatFloat(f, 'g', -1, bits))
}

func tsParts(m protoreflect.Message) (int64, int32) {
	var s int64
	var n int32
	fs := m.Descriptor().Fields()
	if f := fs.ByName("seconds"); f != nil {
		s = m.Get(f).Int()
	}
	if f := fs.ByName("nanos"); f != nil {
		n = int32(m.Get(f).Int())
	}
	return s, n
}

func encodeTimestamp(m protoreflect.Message, format int32) (any, error) {
	s, n := tsParts(m)
	switch sebufhttp.TimestampFormat(format) {
	case sebufhttp.TimestampFormat_TIMESTAMP_FORMAT_UNIX_SECONDS:
		return json.Number(strconv.FormatInt(s, 10)), nil
	case sebufhttp.TimestampFormat_TIMESTAMP_FORMAT_UNIX_MILLIS:
		return json.Number(strconv.FormatInt(s*1000+int64(n)/1e6, 10)), nil
	case sebufhttp.TimestampFormat_TIMESTAMP_FORMAT_DATE:
		return time.Unix(s, int64(n)).UTC().Format("2006-01-02"), nil
	}
	t := time.Unix(s, int64(n)).UTC()
	x := t.Format("2006-01-02T15:04:05.000000000")
	x = strings.TrimSuffix(x, "000")
	x = strings.TrimSuffix(x, "000")
	x = strings.TrimSuffix(x, ".000")
	return x + "Z", nil
}

// ---- JSON value utilities -------------------------------------------------

// Parse decodes JSON text into the value tree (numbers kept as json.Number).
func Parse(b []byte) (any, error) {
	dec := json.NewDecoder(strings.NewReader(string(b)))
	dec.UseNumber()
	var v any
	if err := dec.Decode(&v); err != nil {
		return nil, err
	}
	if dec.More() {
		return nil, fmt.Errorf("trailing data after JSON value")
	}
	return v, nil
}

// Marshal renders the value tree deterministically (sorted keys).
func Marshal(v any) []byte {
	var b strings.Builder
	writeJSON(&b, v)
	return []byte(b.String())
}

func writeJSON(b *strings.Builder, v any) {
	switch x := v.(type) {
	case nil:
		b.WriteString("null")
	case bool:
		b.WriteString(strconv.FormatBool(x))
	case json.Number:
		b.WriteString(string(x))
	case string:
		q, _ := json.Marshal(x)
		b.Write(q)
	case []any:
		b.WriteByte('[')
		for i, e := range x {
			if i > 0 {
				b.WriteByte(',')
			}
			writeJSON(b, e)
		}
		b.WriteByte(']')
	case map[string]any:
		keys := make([]string, 0, len(x))
		for k := range x {
			keys = append(keys, k)
		}
		sort.Strings(keys)
		b.WriteByte('{')
		for i, k := range keys {
			if i > 0 {
				b.WriteByte(',')
			}
			q, _ := json.Marshal(k)
			b.Write(q)
			b.WriteByte(':')
			writeJSON(b, x[k])
		}
		b.WriteByte('}')
	default:
		fmt.Fprintf(b, "%q", fmt.Sprint(x))
	}
}

// NumEqual compares two JSON numbers by value (1e3 == 1000, 1.0 == 1).
func NumEqual(a, b json.Number) bool { return numEqual(a, b) }

// numEqual compares two JSON numbers by value (1e3 == 1000, 1.0 == 1).
func numEqual(a, b json.Number) bool {
	if a == b {
		return true
	}
	fa, ea := strconv.ParseFloat(string(a), 64)
	fb, eb := strconv.ParseFloat(string(b), 64)
	if ea != nil || eb != nil {
		return false
	}
	if fa != fb {
		return false
	}
	// integers beyond 2^53 must match digit for digit
	ia, oka := intDigits(string(a))
	ib, okb := intDigits(string(b))
	if oka && okb {
		return ia == ib
	}
	return true
}

func intDigits(s string) (string, bool) {
	if strings.ContainsAny(s, ".eE") {
		return "", false
	}
	if s == "-0" {
		s = "0" // proto.Equal does not distinguish the sign of a zero either
	}
	return s, true
}

// Diff returns "" when the two JSON values are equal, else the JSON pointer and a description of the first difference.
func Diff(want, got any) string { return diff("", want, got) }

func diff(ptr string, want, got any) string {
	switch w := want.(type) {
	case nil:
		if got != nil {
			return fmt.Sprintf("%s: want null, got %s", ptr, short(Marshal(got)))
		}
	case bool:
		g, ok := got.(bool)
		if !ok || g != w {
			return fmt.Sprintf("%s: want %v, got %s", ptr, w, short(Marshal(got)))
		}
	case json.Number:
		g, ok := got.(json.Number)
		if !ok || !numEqual(w, g) {
			return fmt.Sprintf("%s: want number %s, got %s", ptr, w, short(Marshal(got)))
		}
	case string:
		g, ok := got.(string)
		if !ok || g != w {
			return fmt.Sprintf("%s: want %s, got %s", ptr, short(Marshal(w)), short(Marshal(got)))
		}
	case []any:
		g, ok := got.([]any)
		if !ok {
			return fmt.Sprintf("%s: want array, got %s", ptr, short(Marshal(got)))
		}
		if len(g) != len(w) {
			return fmt.Sprintf("%s: want %d elements, got %d (%s vs %s)", ptr, len(w), len(g), short(Marshal(w)), short(Marshal(g)))
		}
		for i := range w {
			if d := diff(fmt.Sprintf("%s/%d", ptr, i), w[i], g[i]); d != "" {
				return d
			}
		}
	case map[string]any:
		g, ok := got.(map[string]any)
		if !ok {
			return fmt.Sprintf("%s: want object, got %s", ptr, short(Marshal(got)))
		}
		keys := map[string]bool{}
		for k := range w {
			keys[k] = true
		}
		for k := range g {
			keys[k] = true
		}
		ks := make([]string, 0, len(keys))
		for k := range keys {
			ks = append(ks, k)
		}
		sort.Strings(ks)
		for _, k := range ks {
			wv, wok := w[k]
			gv, gok := g[k]
			if !wok {
				return fmt.Sprintf("%s/%s: unexpected member %s", ptr, k, short(Marshal(gv)))
			}
			if !gok {
				return fmt.Sprintf("%s/%s: missing member (want %s)", ptr, k, short(Marshal(wv)))
			}
			if d := diff(ptr+"/"+k, wv, gv); d != "" {
				return d
			}
		}
	}
	return ""
}

func short(b []byte) string {
	if len(b) > 160 {
		return string(b[:160]) + "…"
	}
	return string(b)
}
