package rt

import (
	"encoding/json"
	"os"
)

// Job is what the orchestrator hands to a harness driver (JSON file).
type Job struct {
	Thorough bool              `json:"thorough"`
	Mode     string            `json:"mode"`
	Units    []JobUnit         `json:"units"`
	Params   map[string]string `json:"params,omitempty"`
}

type JobUnit struct {
	Name     string       `json:"name"`
	Cell     string       `json:"cell"`
	Package  string       `json:"package"`
	Messages []string     `json:"messages"` // full names, declaration order, map entries excluded
	Services []JobService `json:"services"`
	// FieldExamples: "<message full name>.<field>" -> declared field_examples
	FieldExamples map[string][]string `json:"field_examples,omitempty"`
}

type JobService struct {
	Name    string      `json:"name"`
	Methods []JobMethod `json:"methods"`
}

type JobQuery struct {
	Field    string `json:"field"`
	Name     string `json:"name"`
	Required bool   `json:"required"`
}

type JobHeader struct {
	Name     string `json:"name"`
	Type     string `json:"type"`
	Format   string `json:"format"`
	Required bool   `json:"required"`
	Level    string `json:"level"` // service | method
}

type JobMethod struct {
	Name        string      `json:"name"`
	In          string      `json:"in"`
	Out         string      `json:"out"`
	Verb        string      `json:"verb"` // documented verb (POST when unset)
	Path        string      `json:"path"` // documented full path template
	Config      bool        `json:"config"`
	PathVars    []string    `json:"path_vars"`
	Query       []JobQuery  `json:"query"`
	Headers     []JobHeader `json:"headers"` // effective declarations: service then method (method replaces same name)
	SvcHeaders  []JobHeader `json:"svc_headers"`
	MethHeaders []JobHeader `json:"meth_headers"`
}

func LoadJob(path string) (*Job, error) {
	b, err := os.ReadFile(path)
	if err != nil {
		return nil, err
	}
	j := &Job{}
	if err := json.Unmarshal(b, j); err != nil {
		return nil, err
	}
	return j, nil
}

// HasBody: the verb carries a request body.
func (m *JobMethod) HasBody() bool { return m.Verb == "POST" || m.Verb == "PUT" || m.Verb == "PATCH" }
