package rt

import (
	"context"
	"encoding/json"
	"fmt"
	"net/http"
	"sort"
	"strconv"
	"strings"

	"google.golang.org/protobuf/encoding/protojson"
	"google.golang.org/protobuf/proto"

	"verif/mc/model"
)

func init() {
	Drivers["c11"] = func(a []string) error { return runJob(a, c11Unit) }
}

var c11Alphabet = []byte{'{', '}', '[', ']', '"', ':', ',', '\\', 'a', '1', '-', '.', 'e', 'n', 't', ' ', 0xff}

// keyPaths collects every object-member path of a JSON value ("a.b", arrays transparent).
func keyPaths(v any, prefix string, out map[string]bool, skipNull bool) {
	switch x := v.(type) {
	case map[string]any:
		for k, c := range x {
			if skipNull && isEmptyJSON(c) {
				continue // a null / {} / [] member of the body may legitimately decode to "absent"
			}
			if cm, ok := c.(map[string]any); ok && skipNull && allEmptyJSON(cm) {
				continue // ... and so may an object of nulls: it is the empty message (empty_behavior=OMIT drops it)
			}
			p := prefix + "/" + k
			out[p] = true
			keyPaths(c, p, out, skipNull)
		}
	case []any:
		for _, c := range x {
			keyPaths(c, prefix, out, skipNull)
		}
	}
}

// valueLost compares a dispatched body with the documented (explicit) form of the request the handler saw and returns the
// pointer of the first body value the request does not carry ("" when every value is accounted for). It is lenient where
// proto3 JSON is: null / {} / [] may mean absent, a quoted number equals the number, numbers compare by value, a number
// where the request shows a non-numeric string (an enum given by number) and strings that differ only as alternate
// spellings of a timestamp or of bytes are not judged. Unknown members are the key check's business and are skipped.
func valueLost(ptr string, bv, ev any) string {
	if isEmptyJSON(bv) {
		return ""
	}
	switch b := bv.(type) {
	case map[string]any:
		e, ok := ev.(map[string]any)
		if !ok {
			if ev == nil && allEmptyJSON(b) {
				return "" // {"k":null} is the empty message, which empty_behavior=NULL documents as null
			}
			return ptr + ": an object, the request has " + clip(model.Marshal(ev))
		}
		for k, c := range b {
			if ec, has := e[k]; has {
				if at := valueLost(ptr+"/"+k, c, ec); at != "" {
					return at
				}
			}
		}
		return ""
	case []any:
		e, ok := ev.([]any)
		if !ok || len(e) != len(b) {
			return ptr + ": a list of " + fmt.Sprint(len(b)) + ", the request has " + clip(model.Marshal(ev))
		}
		for i := range b {
			if at := valueLost(fmt.Sprintf("%s/%d", ptr, i), b[i], e[i]); at != "" {
				return at
			}
		}
		return ""
	}
	if model.Diff(ev, bv) == "" {
		return ""
	}
	num := func(v any) (json.Number, bool) {
		switch x := v.(type) {
		case json.Number:
			return x, true
		case string:
			if _, err := strconv.ParseFloat(x, 64); err == nil && strings.TrimSpace(x) == x && x != "" {
				return json.Number(x), true
			}
		}
		return "", false
	}
	bn, bok := num(bv)
	en, eok := num(ev)
	switch {
	case bok && eok:
		if model.NumEqual(bn, en) {
			return ""
		}
		return fmt.Sprintf("%s: body says %s, the request has %s", ptr, clip(model.Marshal(bv)), clip(model.Marshal(ev)))
	case bok && !eok:
		if _, isStr := ev.(string); isStr {
			if _, bodyIsNumber := bv.(json.Number); bodyIsNumber {
				return "" // an enum given by number, shown by name
			}
		}
	}
	if bs, ok := bv.(string); ok {
		if es, ok := ev.(string); ok {
			if es == "" && bs != "" {
				// no spelling of a non-empty timestamp, bytes or enum value documents as the empty string
				return fmt.Sprintf("%s: body says %s, the request has the empty string", ptr, clip(model.Marshal(bv)))
			}
			return "" // alternate spellings of timestamps, bytes, enum names: not judged here (C04/C05 compare them exactly)
		}
	}
	return fmt.Sprintf("%s: body says %s, the request has %s", ptr, clip(model.Marshal(bv)), clip(model.Marshal(ev)))
}

// mutations of a JSON document (single mutation each).
func jsonMutations(doc []byte) [][2]string {
	var out [][2]string
	for i := 0; i < len(doc); i++ {
		out = append(out, [2]string{"truncate", string(doc[:i])})
	}
	v, err := model.Parse(doc)
	if err != nil {
		return out
	}
	longStr := func(r string, n, pad int) string {
		b, _ := json.Marshal(strings.Repeat("p", pad) + strings.Repeat(r, n))
		return string(b)
	}
	repl := []string{longStr("é", 150, 0), longStr("é", 150, 1), longStr("日", 100, 0), longStr("日", 100, 1), longStr("日", 100, 2), longStr("x", 5000, 0),
		// values whose quotation in an error message crosses 1 KiB and 4 KiB at every rune alignment
		longStr("é", 520, 0), longStr("é", 520, 1), longStr("日", 350, 0), longStr("日", 350, 1), longStr("日", 350, 2),
		longStr("é", 2100, 0), longStr("é", 2100, 1), longStr("日", 1400, 0), longStr("日", 1400, 1), longStr("日", 1400, 2),
		`null`, `true`, `0`, `-1`, `1e400`, `"x"`, `[]`, `{}`,
		// number spellings: fractions, exponents, 64-bit overflow, each also quoted (the forms a lenient decoder may half-accept)
		`1.5`, `17e8`, `-0`, `9223372036854775808`, `18446744073709551616`, `"1.5"`, `"17e8"`, `"1e400"`, `"9223372036854775808"`, `"0x10"`, `" 1"`, strings.Repeat("[", 100) + strings.Repeat("]", 100), strings.Repeat(`{"a":`, 100) + `1` + strings.Repeat("}", 100), `"\ud800"`, "\"\xff\""}
	var walk func(node any, rebuild func(sub string) string)
	walk = func(node any, rebuild func(sub string) string) {
		for _, r := range repl {
			out = append(out, [2]string{"replace_node", rebuild(r)})
		}
		switch x := node.(type) {
		case json.Number:
			out = append(out, [2]string{"number_as_string", rebuild(`"` + string(x) + `"`)})
		case string:
			if _, err := json.Number(x).Float64(); err == nil {
				out = append(out, [2]string{"string_as_number", rebuild(x)})
			}
		case map[string]any:
			keys := make([]string, 0, len(x))
			for k := range x {
				keys = append(keys, k)
			}
			sort.Strings(keys)
			render := func(over map[string]string, extra string) string {
				var b strings.Builder
				b.WriteByte('{')
				first := true
				for _, k := range keys {
					if !first {
						b.WriteByte(',')
					}
					first = false
					kb, _ := json.Marshal(k)
					b.Write(kb)
					b.WriteByte(':')
					if o, ok := over[k]; ok {
						b.WriteString(o)
					} else {
						b.Write(model.Marshal(x[k]))
					}
				}
				if extra != "" {
					if !first {
						b.WriteByte(',')
					}
					b.WriteString(extra)
				}
				b.WriteByte('}')
				return b.String()
			}
			out = append(out, [2]string{"unknown_key", rebuild(render(nil, `"zzUnknownKey":1`))})
			// long member names in 1-, 2- and 3-byte runes around power-of-two sizes, with 0..3 bytes of ASCII padding
			// (size- or truncation-sensitive error reporting)
			for _, r := range []string{"k", "é", "日"} {
				for _, n := range []int{64, 128, 150, 256, 300, 342, 512, 700, 1100, 1400, 2100} {
					for pad := 0; pad < 4; pad++ {
						name := strings.Repeat("p", pad) + strings.Repeat(r, n)
						kb, _ := json.Marshal("zzUnknownKey" + name)
						out = append(out, [2]string{"long_unknown_key", rebuild(render(nil, string(kb)+":1"))})
					}
				}
			}
			for _, k := range keys {
				k := k
				kb, _ := json.Marshal(k)
				out = append(out, [2]string{"duplicate_key", rebuild(render(nil, string(kb)+":"+string(model.Marshal(x[k]))))})
				walk(x[k], func(sub string) string { return rebuild(render(map[string]string{k: sub}, "")) })
			}
		case []any:
			for i := range x {
				i := i
				walk(x[i], func(sub string) string {
					parts := make([]string, len(x))
					for j := range x {
						parts[j] = string(model.Marshal(x[j]))
					}
					parts[i] = sub
					return rebuild("[" + strings.Join(parts, ",") + "]")
				})
			}
		}
	}
	walk(v, func(sub string) string { return sub })
	return out
}

func c11Unit(j *Job, u *JobUnit) error {
	t := newTally()
	defer t.flush()
	f, err := newFixture(u.Name, nil)
	if err != nil {
		return err
	}
	maxL := 4
	maxB := 2
	if j.Thorough {
		maxL = 5
	}
	if v := j.Params["maxB"]; v != "" {
		fmt.Sscanf(v, "%d", &maxB)
	}
	if v := j.Params["maxL"]; v != "" {
		fmt.Sscanf(v, "%d", &maxL)
	}
	for _, js := range u.Services {
		for mi := range js.Methods {
			m := &js.Methods[mi]
			if !isEchoRoute(m) {
				continue
			}
			probe, err := NewMessage(m.In)
			if err != nil {
				return err
			}
			_, custom := probe.(json.Unmarshaler)
			outDefault, _ := NewMessage(m.Out)
			f.handler = func(context.Context, string, proto.Message) (proto.Message, error) { return outDefault, nil }
			cellBase := fmt.Sprintf("%s,rpc=%s.%s,decoder=%s", u.Cell, js.Name, m.Name, map[bool]string{true: "generated", false: "protojson"}[custom])
			var judgeF func(ct, class string, body []byte, chunked bool)
			judge := func(ct, class string, body []byte) {
				judgeF(ct, class, body, false)
				// the same body with unknown length (chunked transfer): small strings and all mutations
				if strings.HasPrefix(class, "mut_") || strings.HasPrefix(class, "pb_") || (strings.HasPrefix(class, "tokens_len") && len(body) <= 2) || (strings.HasPrefix(class, "bytes_len") && len(body) <= 1) {
					judgeF(ct, class, body, true)
					if ct == "application/x-protobuf" {
						judgeF("application/octet-stream", class, body, true)
					}
				}
			}
			judgeF = func(ct, class string, body []byte, chunked bool) {
				f.reset()
				send := f.wire.Do
				framing := ""
				if chunked {
					send, framing = f.wire.DoChunked, ",framing=chunked"
				}
				ex, err := send(m.Verb, m.Path, http.Header{"Content-Type": {ct}}, body)
				cell := cellBase + ",ct=" + map[string]string{"application/json": "json", "application/x-protobuf": "proto", "application/octet-stream": "octet", "text/plain": "other"}[ct] + framing + "#" + class
				if err != nil {
					t.viol(cell, "no_response", err.Error(), nil)
					return
				}
				show := fmt.Sprintf("body=%q -> %d %s", clip(body), ex.Status, clip(ex.RespBody))
				bad := func(sym string) {
					t.viol(cell, sym, show, nil)
					t.hit(cellBase, sym, true)
				}
				dispatched := len(f.calls) > 0
				switch {
				case ex.Panic != "":
					t.viol(cell, "panic", show+" | "+clipS(ex.Panic), nil)
					t.hit(cellBase, "panic", true)
					return
				case ex.Status >= 500:
					bad("status_5xx")
					return
				case len(f.calls) > 1:
					bad("handler_ran_twice")
					return
				case !dispatched && ex.Status != 400:
					bad("not_400")
					return
				}
				if !dispatched {
					ve, derr := decodeViolations(ex.RespBody, ct)
					if derr != nil || len(ve.GetViolations()) == 0 {
						bad("malformed_400_body")
						return
					}
					t.hit(cellBase, "rejected_400", true)
					return
				}
				// dispatched: the body must have been fully decodable
				if len(body) == 0 {
					t.hit(cellBase, "dispatched_empty_body", false)
					return
				}
				if ct == "application/x-protobuf" || ct == "application/octet-stream" {
					ref := probe.ProtoReflect().New().Interface()
					if err := proto.Unmarshal(body, ref); err != nil {
						bad("undecodable_dispatched")
						return
					}
					if !proto.Equal(ref, f.seen[0]) {
						bad("partially_decoded_dispatched")
						return
					}
					t.hit(cellBase, "dispatched_decoded", true)
					return
				}
				if !json.Valid(body) {
					bad("undecodable_dispatched")
					return
				}
				if !custom {
					ref := probe.ProtoReflect().New().Interface()
					if err := protojson.Unmarshal(body, ref); err != nil {
						bad("undecodable_dispatched")
						return
					}
					if !proto.Equal(ref, f.seen[0]) {
						bad("partially_decoded_dispatched")
						return
					}
					t.hit(cellBase, "dispatched_decoded", true)
					return
				}
				// generated decoder: every member of the body must be accounted for by the request the handler saw
				bv, _ := model.Parse(body)
				ev, eerr := model.Encode(f.seen[0].ProtoReflect(), model.EncOpts{Explicit: true})
				if eerr == nil {
					have, want := map[string]bool{}, map[string]bool{}
					keyPaths(bv, "", have, true)
					keyPaths(ev, "", want, false)
					for k := range have {
						if !want[k] && !strings.Contains(k, "zzUnknownKey") {
							// map keys are data, not schema: only judge when the parent is not a map in the explicit form
							if mapLike(ev, k) {
								continue
							}
							bad("partially_decoded_dispatched")
							return
						}
						if strings.Contains(k, "zzUnknownKey") && !want[k] {
							// (a message that IS a map - root map unwrap - takes the unknown member as an entry: delivered, not dropped)
							bad("partially_decoded_dispatched")
							return
						}
					}
				}
				// ... and every value of the body by the value the handler saw at that place (the documented form of the request,
				// spelled out, must say the same thing as the body wherever the body says something)
				if eerr == nil {
					if at := valueLost("", bv, ev); at != "" {
						t.viol(cell, "partially_decoded_dispatched", show+" | value not delivered: "+at+" | handler saw "+clip(model.Marshal(ev)), nil)
						t.hit(cellBase, "partially_decoded_dispatched", true)
						return
					}
				}
				t.hit(cellBase, "dispatched_decoded", true)
			}
			// (a) every string of length <= L over the token alphabet, JSON content type
			buf := make([]byte, 0, maxL)
			var rec func(l int)
			rec = func(l int) {
				judge("application/json", fmt.Sprintf("tokens_len%d", len(buf)), buf)
				if l == maxL {
					return
				}
				for _, c := range c11Alphabet {
					buf = append(buf, c)
					rec(l + 1)
					buf = buf[:len(buf)-1]
				}
			}
			rec(0)
			// (b) every byte string of length <= maxB as protobuf
			bb := make([]byte, 0, maxB)
			var recB func(l int)
			recB = func(l int) {
				judge("application/x-protobuf", fmt.Sprintf("bytes_len%d", len(bb)), bb)
				if l == maxB {
					return
				}
				for c := 0; c < 256; c++ {
					bb = append(bb, byte(c))
					recB(l + 1)
					bb = bb[:len(bb)-1]
				}
			}
			recB(0)
			// (c) single mutations of valid bodies (full value and witness)
			dims := Dims(probe.ProtoReflect().Descriptor(), ValueOpts{})
			var docs [][]byte
			for _, pick := range []int{1, 2} {
				msg, _ := NewMessage(m.In)
				for _, d := range dims {
					if len(d.Alts) > pick {
						d.Alts[pick].Set(msg.ProtoReflect())
					} else if len(d.Alts) > 1 {
						d.Alts[1].Set(msg.ProtoReflect())
					}
				}
				if violatesRules(msg) {
					continue
				}
				if v, err := model.Encode(msg.ProtoReflect(), model.EncOpts{}); err == nil {
					docs = append(docs, model.Marshal(v))
				}
				if pick == 1 {
					if pb, err := proto.Marshal(msg); err == nil {
						for i := 0; i < len(pb); i++ {
							judge("application/x-protobuf", "pb_truncate", pb[:i])
							for _, x := range []byte{0x01, 0x80, 0xff} {
								mut := append([]byte(nil), pb...)
								mut[i] ^= x
								judge("application/x-protobuf", "pb_flip", mut)
							}
						}
					}
				}
			}
			// (d) size family: a valid body padded with insignificant whitespace beyond each size, and the same prefix cut at the
			// size and followed by garbage - a server that buffers only part of a body must not take the part for the whole
			if len(docs) > 0 && j.Params["maxL"] == "" {
				doc := docs[0]
				if len(doc) > 1 && doc[len(doc)-1] == '}' {
					for _, size := range []int{1 << 20, 1 << 22, 1 << 23} {
						pad := make([]byte, 0, size+64)
						pad = append(pad, doc[:len(doc)-1]...)
						for len(pad) < size {
							pad = append(pad, ' ')
						}
						valid := append(append([]byte{}, pad...), []byte("          }")...)
						judgeF("application/json", fmt.Sprintf("size_padded_valid_%dMiB", size>>20), valid, false)
						garbage := append(append([]byte{}, doc...), pad[len(doc)-1:]...) // the whole valid document, then padding up to the size
						garbage = append(garbage[:size], []byte("}]garbage")...)
						judgeF("application/json", fmt.Sprintf("size_garbage_after_%dMiB", size>>20), garbage, false)
					}
				}
			}
			for _, doc := range docs {
				for _, mu := range jsonMutations(doc) {
					judge("application/json", "mut_"+mu[0], []byte(mu[1]))
					judge("text/plain", "mut_"+mu[0], []byte(mu[1]))
				}
			}
		}
	}
	return nil
}

// mapLike: the parent of the last path element is an object whose members are map entries in the explicit
// encoding (i.e. the explicit encoding has no fixed member set there). Approximated: the parent exists in ev
// as an object with zero or only dynamic members -> we cannot distinguish; treat objects whose parent path is
// absent from the schema-derived encoding as data.
func mapLike(ev any, path string) bool {
	parts := strings.Split(strings.TrimPrefix(path, "/"), "/")
	cur := ev
	for i := 0; i < len(parts)-1; i++ {
		switch x := cur.(type) {
		case map[string]any:
			n, ok := x[parts[i]]
			if !ok {
				return true
			}
			cur = n
		case []any:
			if len(x) == 0 {
				return true
			}
			cur = x[0]
			i--
		default:
			return true
		}
	}
	return false
}

// allEmptyJSON: an object all of whose members are (recursively) empty - as a message it is the empty message.
func allEmptyJSON(m map[string]any) bool {
	for _, c := range m {
		if isEmptyJSON(c) {
			continue
		}
		if cm, ok := c.(map[string]any); ok && allEmptyJSON(cm) {
			continue
		}
		return false
	}
	return true
}

func isEmptyJSON(v any) bool {
	switch x := v.(type) {
	case nil:
		return true
	case map[string]any:
		return len(x) == 0
	case []any:
		return len(x) == 0
	}
	return false
}
