// Package rt is linked into generated harness binaries: a registry of generated units, an in-process
// wire transport, value enumerators and the per-property drivers.
package rt

import (
	"context"
	"net/http"
	"sort"
	"sync"

	"google.golang.org/protobuf/proto"
)

type Handler func(ctx context.Context, method string, req proto.Message) (proto.Message, error)
type Hook func(w http.ResponseWriter, r *http.Request, err error) proto.Message

type KV struct{ K, V string }

type ClientOpts struct {
	ContentType    string
	DefaultHeaders []KV
	Helpers        []KV // helper func name -> value (client-level typed header helpers)
	// SharedCallOptions: per-call header option VALUES built once when the client is made and handed to every call that names
	// them in CallOpts.Shared - the caller who keeps `auth := WithXHeader(k, v)` in a variable and passes it to many calls
	SharedCallOptions []KV
}

type CallOpts struct {
	ContentType string
	Headers     []KV
	Helpers     []KV // call-level typed header helpers
	Shared      []KV // option values of ClientOpts.SharedCallOptions, passed first
}

type Client interface {
	Call(ctx context.Context, method string, req proto.Message, o CallOpts) (proto.Message, error)
}

type Method struct {
	Name string
	In   string // full proto name
	Out  string
}

type Service struct {
	Unit          string
	Name          string // proto service name (not qualified)
	Methods       []Method
	Register      func(h Handler, mux *http.ServeMux, hook Hook) error
	NewClient     func(base string, hc *http.Client, o ClientOpts) Client
	ClientHelpers []string // names of client-level helper funcs taking one string
	CallHelpers   []string
	NewMock       func() Handler
}

var (
	mu       sync.Mutex
	services = map[string]*Service{} // key unit/Service
)

func RegisterService(s *Service) {
	mu.Lock()
	defer mu.Unlock()
	services[s.Unit+"/"+s.Name] = s
}

func Services(unit string) []*Service {
	mu.Lock()
	defer mu.Unlock()
	var out []*Service
	for _, s := range services {
		if s.Unit == unit {
			out = append(out, s)
		}
	}
	sort.Slice(out, func(i, j int) bool { return out[i].Name < out[j].Name })
	return out
}

func FindService(unit, name string) *Service {
	mu.Lock()
	defer mu.Unlock()
	return services[unit+"/"+name]
}
