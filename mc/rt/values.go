package rt

import (
	"fmt"
	"math"

	"google.golang.org/protobuf/proto"
	"google.golang.org/protobuf/reflect/protoreflect"
	"google.golang.org/protobuf/reflect/protoregistry"
)

// NewMessage instantiates a generated message by full name.
func NewMessage(full string) (proto.Message, error) {
	mt, err := protoregistry.GlobalTypes.FindMessageByName(protoreflect.FullName(full))
	if err != nil {
		return nil, fmt.Errorf("message %s not linked into the harness: %w", full, err)
	}
	return mt.New().Interface(), nil
}

// Alt is one alternative of a dimension: a label and a setter.
type Alt struct {
	Label string
	Set   func(m protoreflect.Message)
}

// Dim is one dimension of a message's value space; Alts[0] is the default (field left unset).
type Dim struct {
	Name string
	Alts []Alt
}

// NoUnknownEnum leaves the undeclared enum number 99 and non-finite floats out of the value domains
// (drivers whose oracle is a published schema set it: such values have no schema-describable JSON form).
var SchemaDescribableOnly bool

type ValueOpts struct {
	Thorough bool
	PathSafe map[string]bool // field names bound to path variables: only non-empty values
	Depth    int
}

func scalarValues(fd protoreflect.FieldDescriptor, thorough bool) []protoreflect.Value {
	if c := ruleCandidates(fd); len(c) > 0 {
		return append(c, plainScalarValues(fd, thorough)...)
	}
	return plainScalarValues(fd, thorough)
}

func plainScalarValues(fd protoreflect.FieldDescriptor, thorough bool) []protoreflect.Value {
	switch fd.Kind() {
	case protoreflect.StringKind:
		vs := []string{"a", "héllo ✓", "a b/c?d=e&f#g%2F+", "\"\\\n"}
		if thorough {
			vs = append(vs, ".", "..", "%", "ＡＢ x", "0", "null")
		}
		var out []protoreflect.Value
		for _, s := range vs {
			out = append(out, protoreflect.ValueOfString(s))
		}
		return out
	case protoreflect.Int32Kind, protoreflect.Sint32Kind, protoreflect.Sfixed32Kind:
		return []protoreflect.Value{protoreflect.ValueOfInt32(-1), protoreflect.ValueOfInt32(math.MaxInt32), protoreflect.ValueOfInt32(math.MinInt32), protoreflect.ValueOfInt32(1)}
	case protoreflect.Int64Kind, protoreflect.Sint64Kind, protoreflect.Sfixed64Kind:
		return []protoreflect.Value{protoreflect.ValueOfInt64(-1), protoreflect.ValueOfInt64(math.MaxInt64), protoreflect.ValueOfInt64(1<<53 + 1), protoreflect.ValueOfInt64(math.MinInt64), protoreflect.ValueOfInt64(1)}
	case protoreflect.Uint32Kind, protoreflect.Fixed32Kind:
		return []protoreflect.Value{protoreflect.ValueOfUint32(1), protoreflect.ValueOfUint32(math.MaxUint32)}
	case protoreflect.Uint64Kind, protoreflect.Fixed64Kind:
		return []protoreflect.Value{protoreflect.ValueOfUint64(1), protoreflect.ValueOfUint64(math.MaxUint64), protoreflect.ValueOfUint64(1<<53 + 1)}
	case protoreflect.BoolKind:
		return []protoreflect.Value{protoreflect.ValueOfBool(true)}
	case protoreflect.FloatKind:
		return []protoreflect.Value{protoreflect.ValueOfFloat32(1.5), protoreflect.ValueOfFloat32(float32(math.Copysign(0, -1))), protoreflect.ValueOfFloat32(math.MaxFloat32),
			protoreflect.ValueOfFloat32(float32(math.NaN())), protoreflect.ValueOfFloat32(float32(math.Inf(1))), protoreflect.ValueOfFloat32(0.1)}
	case protoreflect.DoubleKind:
		return []protoreflect.Value{protoreflect.ValueOfFloat64(0.1), protoreflect.ValueOfFloat64(1e-7), protoreflect.ValueOfFloat64(1e21), protoreflect.ValueOfFloat64(math.MaxFloat64),
			protoreflect.ValueOfFloat64(math.NaN()), protoreflect.ValueOfFloat64(math.Inf(-1))}
	case protoreflect.BytesKind:
		return []protoreflect.Value{protoreflect.ValueOfBytes([]byte{0}), protoreflect.ValueOfBytes([]byte{0xff, 0xfe, 0xfd}), protoreflect.ValueOfBytes([]byte("hello>?")), protoreflect.ValueOfBytes([]byte{0xfb, 0xff})}
	case protoreflect.EnumKind:
		vals := fd.Enum().Values()
		var out []protoreflect.Value
		seen := map[protoreflect.EnumNumber]bool{0: true}
		for i := 0; i < vals.Len(); i++ {
			n := vals.Get(i).Number()
			if !seen[n] {
				seen[n] = true
				out = append(out, protoreflect.ValueOfEnum(n))
			}
		}
		if !SchemaDescribableOnly {
			out = append(out, protoreflect.ValueOfEnum(99))
		}
		return out
	}
	return nil
}

func zeroValue(fd protoreflect.FieldDescriptor) protoreflect.Value {
	switch fd.Kind() {
	case protoreflect.StringKind:
		return protoreflect.ValueOfString("")
	case protoreflect.BytesKind:
		return protoreflect.ValueOfBytes(nil)
	case protoreflect.BoolKind:
		return protoreflect.ValueOfBool(false)
	case protoreflect.EnumKind:
		return protoreflect.ValueOfEnum(0)
	case protoreflect.Int32Kind, protoreflect.Sint32Kind, protoreflect.Sfixed32Kind:
		return protoreflect.ValueOfInt32(0)
	case protoreflect.Int64Kind, protoreflect.Sint64Kind, protoreflect.Sfixed64Kind:
		return protoreflect.ValueOfInt64(0)
	case protoreflect.Uint32Kind, protoreflect.Fixed32Kind:
		return protoreflect.ValueOfUint32(0)
	case protoreflect.Uint64Kind, protoreflect.Fixed64Kind:
		return protoreflect.ValueOfUint64(0)
	case protoreflect.FloatKind:
		return protoreflect.ValueOfFloat32(0)
	case protoreflect.DoubleKind:
		return protoreflect.ValueOfFloat64(0)
	}
	return protoreflect.Value{}
}

func label(fd protoreflect.FieldDescriptor, v protoreflect.Value) string {
	switch fd.Kind() {
	case protoreflect.BytesKind:
		return fmt.Sprintf("%x", v.Bytes())
	case protoreflect.StringKind:
		return fmt.Sprintf("%q", v.String())
	}
	return v.String()
}

type tsVal struct {
	label string
	s     int64
	n     int32
}

var timestamps = []tsVal{
	{"2024-01-15T09:30:00Z", 1705311000, 0},
	{"frac.123456789", 1705311000, 123456789},
	{"epoch0", 0, 0},
	{"pre-epoch.9995", -1, 999500000},  // before the epoch with a sub-millisecond fraction: floor and truncation differ for seconds and millis
	{"max", 253402300799, 999999999},   // 9999-12-31T23:59:59.999999999Z, the largest Timestamp
	{"min", -62135596800, 0},           // 0001-01-01T00:00:00Z, the smallest Timestamp (Go's zero time)
	{"int64ns.max+1s", 9223372037, 0},  // one second past what an int64 of nanoseconds can hold (2262-04-11)
	{"int64ns.min-1s", -9223372038, 0}, // one second before the lower nanosecond limit (1677-09-21)
	{"pre-epoch.5", -1, 500000000},
}

func setTs(m protoreflect.Message, t tsVal) {
	fs := m.Descriptor().Fields()
	m.Set(fs.ByName("seconds"), protoreflect.ValueOfInt64(t.s))
	m.Set(fs.ByName("nanos"), protoreflect.ValueOfInt32(t.n))
}

// messageValues returns setters producing interesting values of a message-typed slot: empty, then populated ones.
func messageValues(md protoreflect.MessageDescriptor, o ValueOpts) []Alt {
	if md.FullName() == "google.protobuf.Timestamp" {
		var out []Alt
		for _, t := range timestamps {
			t := t
			out = append(out, Alt{Label: "ts:" + t.label, Set: func(m protoreflect.Message) { setTs(m, t) }})
		}
		if !o.Thorough {
			out = out[:6]
		}
		return out
	}
	out := []Alt{{Label: "{}", Set: func(m protoreflect.Message) {}}}
	if o.Depth >= 3 {
		return out
	}
	dims := Dims(md, ValueOpts{Thorough: o.Thorough, Depth: o.Depth + 1})
	// fully populated with each dimension's first non-default alternative
	out = append(out, Alt{Label: "full", Set: func(m protoreflect.Message) {
		for _, d := range dims {
			if len(d.Alts) > 1 {
				d.Alts[1].Set(m)
			}
		}
	}})
	// one deviation at a time with the later alternatives (bounded)
	limit := 6
	if o.Thorough {
		limit = 24
	}
	n := 0
	for _, d := range dims {
		for ai := 2; ai < len(d.Alts) && n < limit; ai++ {
			a := d.Alts[ai]
			out = append(out, Alt{Label: d.Name + "=" + a.Label, Set: a.Set})
			n++
		}
	}
	return out
}

// Dims returns the dimensions of a message's value space.
func Dims(md protoreflect.MessageDescriptor, o ValueOpts) []Dim {
	var dims []Dim
	fds := md.Fields()
	doneOneof := map[string]bool{}
	for i := 0; i < fds.Len(); i++ {
		fd := fds.Get(i)
		if od := fd.ContainingOneof(); od != nil && !od.IsSynthetic() {
			if doneOneof[string(od.Name())] {
				continue
			}
			doneOneof[string(od.Name())] = true
			d := Dim{Name: string(od.Name()), Alts: []Alt{{Label: "unset", Set: func(protoreflect.Message) {}}}}
			for j := 0; j < od.Fields().Len(); j++ {
				mf := od.Fields().Get(j)
				for _, a := range singularAlts(mf, o, true) {
					a := a
					d.Alts = append(d.Alts, Alt{Label: string(mf.Name()) + ":" + a.Label, Set: a.Set})
				}
			}
			dims = append(dims, d)
			continue
		}
		d := Dim{Name: string(fd.Name()), Alts: []Alt{{Label: "unset", Set: func(protoreflect.Message) {}}}}
		if o.PathSafe[string(fd.Name())] && fd.IsList() && fd.Kind() != protoreflect.MessageKind {
			// a required repeated query parameter always has at least one occurrence
			d.Alts = listAlts(fd, o)
			dims = append(dims, d)
			continue
		}
		if o.PathSafe[string(fd.Name())] && !fd.IsList() && !fd.IsMap() && fd.Kind() != protoreflect.MessageKind {
			// URL-bound (path variable / required query parameter): the field always carries a non-empty value
			d.Alts = nil
			vals := scalarValues(fd, o.Thorough)
			if fd.Kind() == protoreflect.StringKind {
				vals = append(vals, urlPunctuationStrings()...)
			}
			for _, v := range vals {
				v := v
				d.Alts = append(d.Alts, Alt{Label: label(fd, v), Set: func(m protoreflect.Message) { m.Set(fd, v) }})
			}
			dims = append(dims, d)
			continue
		}
		switch {
		case fd.IsMap():
			d.Alts = append(d.Alts, mapAlts(fd, o)...)
		case fd.IsList():
			d.Alts = append(d.Alts, listAlts(fd, o)...)
		default:
			d.Alts = append(d.Alts, singularAlts(fd, o, fd.HasPresence())...)
		}
		dims = append(dims, d)
	}
	return dims
}

// urlPunctuationStrings is the punctuation family for URL-bound strings: every printable ASCII punctuation character alone
// between two letters, doubled, and followed by each of the characters that give it a meaning somewhere on the way (percent
// escapes, JavaScript replacement patterns $$ $& $' $`, dot segments are excluded: they are a separate class).
func urlPunctuationStrings() []protoreflect.Value {
	var out []protoreflect.Value
	punct := "!\"#$%&'()*+,-/:;<=>?@[\\]^_`{|}~ "
	for _, c := range punct {
		out = append(out, protoreflect.ValueOfString("a"+string(c)+"b"), protoreflect.ValueOfString("a"+string(c)+string(c)+"b"))
	}
	for _, s := range []string{"a$&b", "a$'b", "a$`b", "a$1b", "a%2b", "a%zzb", "a%25b", "a+%20b", "$&", "%41"} {
		out = append(out, protoreflect.ValueOfString(s))
	}
	return out
}

func singularAlts(fd protoreflect.FieldDescriptor, o ValueOpts, withZero bool) []Alt {
	var out []Alt
	if fd.Kind() == protoreflect.MessageKind || fd.Kind() == protoreflect.GroupKind {
		for _, a := range messageValues(fd.Message(), o) {
			a := a
			out = append(out, Alt{Label: a.Label, Set: func(m protoreflect.Message) { a.Set(m.Mutable(fd).Message()) }})
		}
		return out
	}
	pathSafe := o.PathSafe[string(fd.Name())]
	if withZero && !pathSafe {
		z := zeroValue(fd)
		out = append(out, Alt{Label: "zero", Set: func(m protoreflect.Message) { m.Set(fd, z) }})
	}
	for _, v := range scalarValues(fd, o.Thorough) {
		v := v
		out = append(out, Alt{Label: label(fd, v), Set: func(m protoreflect.Message) { m.Set(fd, v) }})
	}
	return out
}

func listAlts(fd protoreflect.FieldDescriptor, o ValueOpts) []Alt {
	var out []Alt
	if fd.Kind() == protoreflect.MessageKind {
		mv := messageValues(fd.Message(), o)
		for k, a := range mv {
			a := a
			if k >= 4 && !o.Thorough {
				break
			}
			out = append(out, Alt{Label: "[" + a.Label + "]", Set: func(m protoreflect.Message) {
				l := m.Mutable(fd).List()
				e := l.NewElement()
				a.Set(e.Message())
				l.Append(e)
			}})
		}
		if len(mv) > 1 {
			a, b := mv[1], mv[0]
			out = append(out, Alt{Label: "[" + a.Label + "," + b.Label + "]", Set: func(m protoreflect.Message) {
				l := m.Mutable(fd).List()
				e := l.NewElement()
				a.Set(e.Message())
				l.Append(e)
				e2 := l.NewElement()
				b.Set(e2.Message())
				l.Append(e2)
			}})
		}
		if len(mv) > 3 {
			// three elements, each populated differently (the last three values of the element domain)
			pick := []Alt{mv[len(mv)-1], mv[len(mv)-2], mv[len(mv)-3]}
			out = append(out, Alt{Label: "[3 distinct]", Set: func(m protoreflect.Message) {
				l := m.Mutable(fd).List()
				for _, a := range pick {
					e := l.NewElement()
					a.Set(e.Message())
					l.Append(e)
				}
			}})
		}
		return out
	}
	vals := scalarValues(fd, o.Thorough)
	for _, v := range vals {
		v := v
		out = append(out, Alt{Label: "[" + label(fd, v) + "]", Set: func(m protoreflect.Message) { m.Mutable(fd).List().Append(v) }})
	}
	if len(vals) > 0 {
		v, z := vals[0], zeroValue(fd)
		out = append(out, Alt{Label: "[" + label(fd, v) + ",zero]", Set: func(m protoreflect.Message) {
			l := m.Mutable(fd).List()
			l.Append(v)
			l.Append(z)
		}})
	}
	if len(vals) > 2 {
		// three distinct non-default elements
		a, b, c := vals[len(vals)-1], vals[len(vals)-2], vals[0]
		out = append(out, Alt{Label: "[3 distinct]", Set: func(m protoreflect.Message) {
			l := m.Mutable(fd).List()
			l.Append(a)
			l.Append(b)
			l.Append(c)
		}})
	}
	return out
}

func mapKeys(kd protoreflect.FieldDescriptor) []protoreflect.MapKey {
	switch kd.Kind() {
	case protoreflect.StringKind:
		return []protoreflect.MapKey{protoreflect.ValueOfString("k").MapKey(), protoreflect.ValueOfString("").MapKey(), protoreflect.ValueOfString("k/é").MapKey()}
	case protoreflect.BoolKind:
		return []protoreflect.MapKey{protoreflect.ValueOfBool(true).MapKey(), protoreflect.ValueOfBool(false).MapKey()}
	case protoreflect.Int32Kind, protoreflect.Sint32Kind, protoreflect.Sfixed32Kind:
		return []protoreflect.MapKey{protoreflect.ValueOfInt32(7).MapKey(), protoreflect.ValueOfInt32(0).MapKey(), protoreflect.ValueOfInt32(-1).MapKey()}
	case protoreflect.Int64Kind, protoreflect.Sint64Kind, protoreflect.Sfixed64Kind:
		return []protoreflect.MapKey{protoreflect.ValueOfInt64(7).MapKey(), protoreflect.ValueOfInt64(0).MapKey(), protoreflect.ValueOfInt64(math.MaxInt64).MapKey()}
	case protoreflect.Uint32Kind, protoreflect.Fixed32Kind:
		return []protoreflect.MapKey{protoreflect.ValueOfUint32(7).MapKey(), protoreflect.ValueOfUint32(0).MapKey()}
	case protoreflect.Uint64Kind, protoreflect.Fixed64Kind:
		return []protoreflect.MapKey{protoreflect.ValueOfUint64(7).MapKey(), protoreflect.ValueOfUint64(0).MapKey()}
	}
	return nil
}

func mapAlts(fd protoreflect.FieldDescriptor, o ValueOpts) []Alt {
	var out []Alt
	keys := mapKeys(fd.MapKey())
	vd := fd.MapValue()
	if vd.Kind() == protoreflect.MessageKind {
		mv := messageValues(vd.Message(), o)
		for k, a := range mv {
			a := a
			if k >= 4 && !o.Thorough {
				break
			}
			out = append(out, Alt{Label: "{k:" + a.Label + "}", Set: func(m protoreflect.Message) {
				mp := m.Mutable(fd).Map()
				e := mp.NewValue()
				a.Set(e.Message())
				mp.Set(keys[0], e)
			}})
		}
		if len(mv) > 1 && len(keys) > 2 {
			a, b := mv[1], mv[0]
			out = append(out, Alt{Label: "{:" + b.Label + ",k/é:" + a.Label + "}", Set: func(m protoreflect.Message) {
				mp := m.Mutable(fd).Map()
				e := mp.NewValue()
				b.Set(e.Message())
				mp.Set(keys[1], e)
				e2 := mp.NewValue()
				a.Set(e2.Message())
				mp.Set(keys[2], e2)
			}})
		}
		if len(mv) > 3 && len(keys) > 2 {
			// three entries, each populated differently (values that share nothing: different lengths, different contents)
			pick := []Alt{mv[len(mv)-1], mv[len(mv)-2], mv[len(mv)-3]}
			out = append(out, Alt{Label: "{3 distinct}", Set: func(m protoreflect.Message) {
				mp := m.Mutable(fd).Map()
				for i, a := range pick {
					e := mp.NewValue()
					a.Set(e.Message())
					mp.Set(keys[i], e)
				}
			}})
		}
		return out
	}
	vals := scalarValues(vd, o.Thorough)
	for _, v := range vals {
		v := v
		out = append(out, Alt{Label: "{k:" + label(vd, v) + "}", Set: func(m protoreflect.Message) { m.Mutable(fd).Map().Set(keys[0], v) }})
	}
	if len(vals) > 2 && len(keys) > 2 {
		a, b, c := vals[len(vals)-1], vals[len(vals)-2], vals[0]
		out = append(out, Alt{Label: "{3 distinct}", Set: func(m protoreflect.Message) {
			mp := m.Mutable(fd).Map()
			mp.Set(keys[0], a)
			mp.Set(keys[1], b)
			mp.Set(keys[2], c)
		}})
	}
	if len(vals) > 0 && len(keys) > 1 {
		v, z := vals[0], zeroValue(vd)
		out = append(out, Alt{Label: "{k2:zero,k3:" + label(vd, v) + "}", Set: func(m protoreflect.Message) {
			mp := m.Mutable(fd).Map()
			mp.Set(keys[1], z)
			mp.Set(keys[len(keys)-1], v)
		}})
	}
	return out
}

// Point is one enumerated value with the labels of its non-default coordinates.
type Point struct {
	Msg     proto.Message
	Labels  []string
	Deviate int
}

// Enumerate yields every point of the value space with at most maxDev non-default coordinates
// (maxDev<0: full product), in canonical simplest-first order.
func Enumerate(full string, dims []Dim, maxDev int, yield func(p Point) bool) error {
	idx := make([]int, len(dims))
	build := func() (Point, error) {
		msg, err := NewMessage(full)
		if err != nil {
			return Point{}, err
		}
		p := Point{Msg: msg}
		for i, d := range dims {
			d.Alts[idx[i]].Set(msg.ProtoReflect())
			if idx[i] != 0 {
				p.Labels = append(p.Labels, d.Name+"="+d.Alts[idx[i]].Label)
				p.Deviate++
			}
		}
		return p, nil
	}
	var rec func(start, left int) (bool, error)
	rec = func(start, left int) (bool, error) {
		p, err := build()
		if err != nil {
			return false, err
		}
		if !yield(p) {
			return false, nil
		}
		if left == 0 {
			return true, nil
		}
		for i := start; i < len(dims); i++ {
			for a := 1; a < len(dims[i].Alts); a++ {
				idx[i] = a
				ok, err := rec(i+1, left-1)
				if err != nil || !ok {
					idx[i] = 0
					return ok, err
				}
			}
			idx[i] = 0
		}
		return true, nil
	}
	if maxDev < 0 {
		maxDev = len(dims)
	}
	ok, err := rec(0, maxDev)
	if err != nil || !ok {
		return err
	}
	// a bounded enumeration from the default value never reaches the fully populated values: add that family
	varying := 0
	for _, d := range dims {
		if len(d.Alts) > 1 {
			varying++
		}
	}
	if maxDev < varying {
		return EnumerateFull(full, dims, yield)
	}
	return nil
}

// SpaceSize is the number of points with at most maxDev deviations (capped at 1<<40).
func SpaceSize(dims []Dim, maxDev int) int64 {
	if maxDev < 0 || maxDev > len(dims) {
		maxDev = len(dims)
	}
	// e[k] = elementary symmetric polynomial of (|alts|-1)
	e := make([]int64, maxDev+1)
	e[0] = 1
	for _, d := range dims {
		n := int64(len(d.Alts) - 1)
		for k := maxDev; k >= 1; k-- {
			e[k] += e[k-1] * n
			if e[k] > 1<<40 {
				e[k] = 1 << 40
			}
		}
	}
	var t int64
	for _, x := range e {
		t += x
	}
	return t
}

// EnumerateFull yields the fully populated values of a message: every dimension at its first non-default alternative,
// and one dimension in turn at each of its other alternatives (so every member of every oneof is the selected one once,
// beside everything else being set). These are the values a bounded-deviation enumeration from the default value does not
// reach, and the only ones that satisfy several `required` rules at once.
func EnumerateFull(full string, dims []Dim, yield func(p Point) bool) error {
	build := func(vary, alt int) (Point, error) {
		msg, err := NewMessage(full)
		if err != nil {
			return Point{}, err
		}
		p := Point{Msg: msg}
		for i, d := range dims {
			a := 0
			if len(d.Alts) > 1 {
				a = 1
			}
			if i == vary {
				a = alt
			}
			d.Alts[a].Set(msg.ProtoReflect())
			if a != 0 {
				p.Deviate++
			}
		}
		p.Labels = []string{"full"}
		if vary >= 0 {
			p.Labels = append(p.Labels, dims[vary].Name+"="+dims[vary].Alts[alt].Label)
		}
		return p, nil
	}
	p, err := build(-1, 0)
	if err != nil {
		return err
	}
	if !yield(p) {
		return nil
	}
	for i, d := range dims {
		for a := 2; a < len(d.Alts); a++ {
			p, err := build(i, a)
			if err != nil {
				return err
			}
			if !yield(p) {
				return nil
			}
		}
	}
	return nil
}
