package rt

import (
	"context"
	"encoding/base64"
	"fmt"
	"net/http"
	"sort"
	"strings"

	sebufhttp "github.com/SebastienMelki/sebuf/http"
	"google.golang.org/protobuf/encoding/protojson"
	"google.golang.org/protobuf/proto"

	"verif/mc/model"
)

func init() {
	Drivers["c09"] = func(a []string) error { return runJob(a, c09Unit) }
}

// decodeViolations parses a 400 body as ValidationError under the given content type.
func decodeViolations(body []byte, ct string) (*sebufhttp.ValidationError, error) {
	ve := &sebufhttp.ValidationError{}
	if ct == "application/x-protobuf" || ct == "application/octet-stream" {
		return ve, proto.Unmarshal(body, ve)
	}
	return ve, protojson.Unmarshal(body, ve)
}

func violationFields(ve *sebufhttp.ValidationError) []string {
	set := map[string]bool{}
	for _, v := range ve.GetViolations() {
		set[v.GetField()] = true
	}
	var out []string
	for k := range set {
		out = append(out, k)
	}
	sort.Strings(out)
	return out
}

// validRequest builds (target, body) of a request that satisfies path, query, body and rules for the method.
func validRequest(m *JobMethod) (target string, body []byte, msg proto.Message, err error) {
	probe, err := NewMessage(m.In)
	if err != nil {
		return "", nil, nil, err
	}
	dims := Dims(probe.ProtoReflect().Descriptor(), ValueOpts{PathSafe: urlBound(m)})
	req := Witness(m.In, dims)
	if req == nil {
		return "", nil, nil, fmt.Errorf("no rule-satisfying request found for %s", m.Name)
	}
	target, body = RenderRequest(m, req)
	return target, body, req, nil
}

// RenderRequest renders a request message the documented way: path variables substituted (escaped), query
// parameters for annotated fields that are set, the rest as documented JSON body for body verbs.
func RenderRequest(m *JobMethod, req proto.Message) (string, []byte) {
	r := req.ProtoReflect()
	fds := r.Descriptor().Fields()
	target := m.Path
	for _, pv := range m.PathVars {
		fd := fds.ByName(protoName(pv))
		val := ""
		if fd != nil {
			val = scalarString(fd, r.Get(fd))
		}
		target = strings.Replace(target, "{"+pv+"}", pathEscape(val), 1)
	}
	var qs []string
	for _, q := range m.Query {
		fd := fds.ByName(protoName(q.Field))
		if fd == nil || !r.Has(fd) {
			continue
		}
		if fd.IsList() {
			l := r.Get(fd).List()
			for i := 0; i < l.Len(); i++ {
				qs = append(qs, queryEscape(q.Name)+"="+queryEscape(scalarString(fd, l.Get(i))))
			}
			continue
		}
		qs = append(qs, queryEscape(q.Name)+"="+queryEscape(scalarString(fd, r.Get(fd))))
	}
	if len(qs) > 0 {
		target += "?" + strings.Join(qs, "&")
	}
	var body []byte
	if m.HasBody() {
		if v, err := model.Encode(r, model.EncOpts{}); err == nil {
			body = model.Marshal(v)
		}
	}
	return target, body
}

// HdrCase is one request of the header-gate exploration: a valid request for the RPC whose header set is
// either entirely acceptable (Kind "accept" / "noheaders") or has a non-empty subset of required headers made bad.
type HdrCase struct {
	K        string            `json:"k"`
	ID       string            `json:"id"`
	Unit     string            `json:"unit"`
	Svc      string            `json:"svc"`
	RPC      string            `json:"rpc"`
	CellBase string            `json:"cell_base"`
	Cell     string            `json:"cell"`
	Kind     string            `json:"kind"` // accept | noheaders | reject
	Verb     string            `json:"verb"`
	Target   string            `json:"target"`
	Headers  map[string]string `json:"headers"` // exact spelling as declared; absent headers are absent
	Body     []byte            `json:"body"`
	BodyKind string            `json:"body_kind"`
	Hdr      string            `json:"hdr,omitempty"`    // accept: the header under test
	Val      string            `json:"val,omitempty"`    // accept: its value
	Type     string            `json:"type,omitempty"`   // accept: published type
	Format   string            `json:"format,omitempty"` // accept: published format
	Want     []string          `json:"want,omitempty"`   // reject: header names that must be listed
	// EmptyPlain: members of Want sent with an empty value whose declaration is a plain string (no format) or array:
	// whether "present but empty" satisfies such a header is not decided by the contract (the Go server treats it as missing)
	EmptyPlain []string `json:"empty_plain,omitempty"`
	Labels     []string `json:"labels,omitempty"`
}

// hdrDepth is the edit-distance / length bound of the header probe space (1 quick, 2 thorough).
var hdrDepth = 1

// c09Cases enumerates the header-gate cases of one RPC, in a fixed order.
func c09Cases(u *JobUnit, js *JobService, m *JobMethod, yield func(*HdrCase) error) error {
	var req []JobHeader
	for _, h := range m.Headers {
		if h.Required {
			req = append(req, h)
		}
	}
	cellBase := fmt.Sprintf("%s,rpc=%s.%s", u.Cell, js.Name, m.Name)
	target, body, _, err := validRequest(m)
	if err != nil {
		return err
	}
	n := 0
	mk := func(kind, cell string, hv map[string]*string, b []byte, bodyKind string) *HdrCase {
		hc := &HdrCase{K: "hdrcase", ID: fmt.Sprintf("%s|%s|%s|%05d", u.Name, js.Name, m.Name, n), Unit: u.Name, Svc: js.Name, RPC: m.Name, CellBase: cellBase, Cell: cell,
			Kind: kind, Verb: m.Verb, Target: target, Headers: map[string]string{}, Body: b, BodyKind: bodyKind}
		n++
		for k, v := range hv {
			if v != nil {
				hc.Headers[k] = *v
			}
		}
		return hc
	}
	good := map[string]*string{}
	for _, h := range req {
		v := ValidHeaderValue(h)
		good[h.Name] = &v
	}
	// (1) all required headers valid, one header at a time through every must-accept exemplar
	for _, h := range req {
		for _, val := range model.MustAccept(h.Type, h.Format, hdrDepth) {
			val := val
			hv := cloneHV(good)
			hv[h.Name] = &val
			hc := mk("accept", fmt.Sprintf("%s,hdr=%s,type=%s,format=%s#accept", cellBase, h.Name, orNone(h.Type), orNone(h.Format)), hv, body, "valid")
			hc.Hdr, hc.Val, hc.Type, hc.Format = h.Name, val, h.Type, h.Format
			if err := yield(hc); err != nil {
				return err
			}
		}
	}
	if len(req) == 0 {
		return yield(mk("noheaders", cellBase+"#noheaders", good, body, "valid"))
	}
	// (2) every non-empty subset of the required headers made bad, each in every way, x body valid/invalid
	type badWay struct {
		label string
		val   *string
	}
	ways := func(h JobHeader) []badWay {
		empty := ""
		out := []badWay{{"absent", nil}, {"empty", &empty}}
		for _, v := range model.MustReject(h.Type, h.Format, hdrDepth) {
			v := v
			out = append(out, badWay{"malformed:" + v, &v})
		}
		if h.Type == "" || h.Type == "string" {
			// a string header whose bytes are not valid UTF-8 is no string of the published type, whatever its format (Go server
			// only: the value cannot travel through the JSON records the TypeScript half is fed from)
			nu := ValidHeaderValue(h)
			if len(nu) > 1 {
				nu = nu[:1] + "\xff" + nu[1:]
				out = append(out, badWay{"malformed:non_utf8", &nu})
			}
		}
		return out
	}
	// (1b) spellings the reference does not judge (lenient forms): whatever the verdict, it must be a clean one
	for _, h := range req {
		_, _, un := model.HeaderProbes(h.Type, h.Format, hdrDepth)
		for _, val := range un {
			val := val
			hv := cloneHV(good)
			hv[h.Name] = &val
			hc := mk("unjudged", fmt.Sprintf("%s,hdr=%s,type=%s,format=%s#unjudged", cellBase, h.Name, orNone(h.Type), orNone(h.Format)), hv, body, "valid")
			hc.Hdr, hc.Val, hc.Type, hc.Format = h.Name, val, h.Type, h.Format
			if err := yield(hc); err != nil {
				return err
			}
		}
	}
	nr := len(req)
	if nr > 4 {
		nr = 4
	}
	for mask := 1; mask < 1<<nr; mask++ {
		var subset []JobHeader
		for b := 0; b < nr; b++ {
			if mask&(1<<b) != 0 {
				subset = append(subset, req[b])
			}
		}
		// product over ways for singletons; first two ways for larger subsets (absent / empty) plus all-malformed
		var combos [][]badWay
		if len(subset) == 1 {
			for _, w := range ways(subset[0]) {
				combos = append(combos, []badWay{w})
			}
		} else {
			for wi := 0; wi < 3; wi++ {
				var c []badWay
				for _, h := range subset {
					ws := ways(h)
					k := wi
					if k >= len(ws) {
						k = 0
					}
					c = append(c, ws[k])
				}
				combos = append(combos, c)
			}
		}
		for ci, combo := range combos {
			for _, bodyKind := range []string{"valid", "malformed"} {
				if bodyKind == "malformed" && len(subset) == 1 && ci > 2 {
					continue // the probe space of malformed values is run with a valid body; the first three ways with both
				}
				hv := cloneHV(good)
				var want, labels, emptyPlain []string
				for i, h := range subset {
					if combo[i].label == "empty" && h.Format == "" && (h.Type == "" || h.Type == "string" || h.Type == "array") {
						emptyPlain = append(emptyPlain, h.Name)
					}
					hv[h.Name] = combo[i].val
					if combo[i].val == nil {
						delete(hv, h.Name)
					}
					want = append(want, h.Name)
					labels = append(labels, h.Name+"="+combo[i].label)
				}
				sort.Strings(want)
				b := body
				if bodyKind == "malformed" {
					if !m.HasBody() {
						continue
					}
					b = []byte(`{"unterminated`)
				}
				cls := "absent_or_empty"
				for _, w := range combo {
					if strings.HasPrefix(w.label, "malformed") {
						cls = "malformed"
					}
				}
				hc := mk("reject", fmt.Sprintf("%s,bad=%s,body=%s#%s", cellBase, hdrKey(subset), bodyKind, cls), hv, b, bodyKind)
				hc.Want, hc.Labels, hc.EmptyPlain = want, labels, emptyPlain
				if err := yield(hc); err != nil {
					return err
				}
			}
		}
	}
	return nil
}

// c09TSCases emits the cases for the TS server stage (the check forwards them to the node bridge).
func c09TSCases(j *Job, u *JobUnit) error {
	for si := range u.Services {
		js := &u.Services[si]
		for mi := range js.Methods {
			if err := c09Cases(u, js, &js.Methods[mi], func(hc *HdrCase) error { Emit(hc); return nil }); err != nil {
				return err
			}
		}
	}
	return nil
}

func c09Unit(j *Job, u *JobUnit) error {
	if j.Thorough {
		hdrDepth = 2
	}
	if j.Params["stage"] == "tscases" {
		return c09TSCases(j, u)
	}
	t := newTally()
	defer t.flush()
	f, err := newFixture(u.Name, nil)
	if err != nil {
		return err
	}
	for si := range u.Services {
		js := &u.Services[si]
		for mi := range js.Methods {
			m := &js.Methods[mi]
			outDefault, _ := NewMessage(m.Out)
			f.handler = func(context.Context, string, proto.Message) (proto.Message, error) { return outDefault, nil }
			err := c09Cases(u, js, m, func(hc *HdrCase) error {
				hdr := http.Header{"Content-Type": {"application/json"}}
				for k, v := range hc.Headers {
					hdr[k] = []string{v} // exact spelling as declared
				}
				f.reset()
				ex, err := f.wire.Do(hc.Verb, hc.Target, hdr, hc.Body)
				if err != nil {
					return err
				}
				cell, cellBase, labels := hc.Cell, hc.CellBase, hc.Labels
				switch hc.Kind {
				case "accept":
					rejected := false
					if ex.Status == 400 {
						if ve, derr := decodeViolations(ex.RespBody, "application/json"); derr == nil {
							for _, fl := range violationFields(ve) {
								if strings.EqualFold(fl, hc.Hdr) {
									rejected = true
								}
							}
						}
					}
					switch {
					case ex.Panic != "":
						t.viol(cell, "panic", clipS(ex.Panic), []string{hc.Val})
					case rejected:
						t.viol(cell, "good_header_rejected", fmt.Sprintf("%s: %q (valid per published type=%s format=%s) -> %d %s", hc.Hdr, hc.Val, hc.Type, hc.Format, ex.Status, clip(ex.RespBody)), []string{hc.Val})
						t.hit(cellBase, "good_header_rejected", true)
					case len(f.calls) != 1:
						t.viol(cell, "valid_request_not_dispatched", fmt.Sprintf("status=%d %s", ex.Status, clip(ex.RespBody)), []string{hc.Val})
						t.hit(cellBase, "valid_request_not_dispatched", true)
					default:
						t.hit(cellBase, "accepted", true)
					}
				case "unjudged":
					switch {
					case ex.Panic != "":
						t.viol(cell, "panic", clipS(ex.Panic), []string{hc.Val})
					case ex.Status >= 500:
						t.viol(cell, "not_400", fmt.Sprintf("%s: %q -> %d %s", hc.Hdr, hc.Val, ex.Status, clip(ex.RespBody)), []string{hc.Val})
					case len(f.calls) == 1:
						t.hit(cellBase, "lenient_spelling_accepted", true)
					default:
						t.hit(cellBase, "lenient_spelling_rejected", true)
					}
				case "noheaders":
					if len(f.calls) != 1 {
						t.viol(cell, "valid_request_not_dispatched", fmt.Sprintf("status=%d %s", ex.Status, clip(ex.RespBody)), nil)
					} else {
						t.hit(cellBase, "accepted", false)
					}
				default:
					want := hc.Want
					switch {
					case ex.Panic != "":
						t.viol(cell, "panic", clipS(ex.Panic), labels)
					case len(f.calls) > 0:
						t.viol(cell, "bad_header_dispatched", fmt.Sprintf("%v -> %d, handler ran", labels, ex.Status), labels)
						t.hit(cellBase, "bad_header_dispatched", true)
					case ex.Status != 400:
						t.viol(cell, "not_400", fmt.Sprintf("%v -> %d %s", labels, ex.Status, clip(ex.RespBody)), labels)
						t.hit(cellBase, "not_400", true)
					default:
						ve, derr := decodeViolations(ex.RespBody, "application/json")
						got := violationFields(ve)
						switch {
						case derr != nil:
							t.viol(cell, "malformed_400_body", derr.Error()+" "+clip(ex.RespBody), labels)
							t.hit(cellBase, "malformed_400_body", true)
						case strings.Join(got, ",") != strings.Join(want, ","):
							t.viol(cell, "violation_set_differs", fmt.Sprintf("%v: want violations for %v, got %v", labels, want, got), labels)
							t.hit(cellBase, "violation_set_differs", true)
						case ex.BodyReadsBeforeCommit != 0:
							t.viol(cell, "body_read_before_header_verdict", fmt.Sprintf("%d body reads before the 400 was written", ex.BodyReadsBeforeCommit), labels)
							t.hit(cellBase, "body_read_before_header_verdict", true)
						default:
							t.hit(cellBase, "rejected_400_exact_set", true)
						}
					}
				}
				return nil
			})
			if err != nil {
				return err
			}
		}
	}
	return nil
}

func cloneHV(m map[string]*string) map[string]*string {
	out := map[string]*string{}
	for k, v := range m {
		out[k] = v
	}
	return out
}

func orNone(s string) string {
	if s == "" {
		return "unset"
	}
	return s
}

func hdrKey(hs []JobHeader) string {
	var n []string
	for _, h := range hs {
		n = append(n, h.Name)
	}
	return strings.Join(n, "+")
}

// ValidRequestFor renders a rule-satisfying request for the method as a bridge request object (JSON transport).
func ValidRequestFor(m *JobMethod) map[string]any {
	target, body, _, err := validRequest(m)
	if err != nil {
		return nil
	}
	hdrs := map[string]string{"Content-Type": "application/json"}
	for _, h := range m.Headers {
		if h.Required {
			hdrs[h.Name] = ValidHeaderValue(h)
		}
	}
	req := map[string]any{"method": m.Verb, "url": target, "headers": hdrs}
	if body != nil {
		req["bodyB64"] = base64.StdEncoding.EncodeToString(body)
	}
	return req
}
