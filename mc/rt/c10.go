package rt

import (
	"bufio"
	"bytes"
	"context"
	"encoding/json"
	"errors"
	"fmt"
	"io"
	"net/http"
	"sort"
	"strings"

	protovalidate "buf.build/go/protovalidate"
	sebufhttp "github.com/SebastienMelki/sebuf/http"
	"google.golang.org/protobuf/encoding/protojson"
	"google.golang.org/protobuf/proto"
	"google.golang.org/protobuf/reflect/protoreflect"

	"verif/mc/model"
)

func init() {
	Drivers["c10"] = func(a []string) error { return runJob(a, c10Unit) }
}

// hookCfg is one error-hook behaviour: a subset of {setHeader, writeHeader, returnMsg, writeBody}, or none / nil-returning.
type hookCfg struct {
	installed                                    bool
	setHeader, writeHeader, returnMsg, writeBody bool
}

func (h hookCfg) key() string {
	if !h.installed {
		return "none"
	}
	var p []string
	if h.setHeader {
		p = append(p, "hdr")
	}
	if h.writeHeader {
		p = append(p, "status")
	}
	if h.returnMsg {
		p = append(p, "msg")
	}
	if h.writeBody {
		p = append(p, "body")
	}
	if len(p) == 0 {
		return "noop"
	}
	return strings.Join(p, "+")
}

func allHooks() []hookCfg {
	out := []hookCfg{{installed: false}}
	for mask := 0; mask < 16; mask++ {
		out = append(out, hookCfg{installed: true, setHeader: mask&1 != 0, writeHeader: mask&2 != 0, returnMsg: mask&4 != 0, writeBody: mask&8 != 0})
	}
	return out
}

// errSource is one way to make the pipeline produce an error response.
type errSource struct {
	key         string
	hdr         http.Header   // extra/overriding request headers (nil value = remove)
	drop        []string      // headers to drop
	target      string        // request target override ("" = valid)
	body        []byte        // body override (nil = valid)
	rawBody     bool          // body is sent as-is under every content type
	reqMsg      proto.Message // request message to send instead of the valid one (rule violations)
	handler     func() (proto.Message, error)
	status      int           // default status expected
	fields      []string      // expected violation field set (nil = not a validation error)
	message     string        // expected Error.message
	custom      proto.Message // expected custom error body
	customAlt   bool          // wrapped custom: Error{message} form also accepted
	handlerRuns bool
}

func dropSubscripts(vs []*protovalidate.Violation) []string {
	set := map[string]bool{}
	for _, v := range vs {
		var parts []string
		for _, e := range v.Proto.GetField().GetElements() {
			parts = append(parts, e.GetFieldName())
		}
		set[strings.Join(parts, ".")] = true
	}
	var out []string
	for k := range set {
		out = append(out, k)
	}
	sort.Strings(out)
	return out
}

type wrapErr struct{ inner error }

func (w wrapErr) Error() string { return "wrapped: " + w.inner.Error() }
func (w wrapErr) Unwrap() error { return w.inner }

// ErrResp is an un-hooked JSON error response of the Go server, replayed into the TS client by the check.
type ErrResp struct {
	K         string            `json:"k"`
	ID        string            `json:"id"`
	Unit      string            `json:"unit"`
	Svc       string            `json:"svc"`
	RPC       string            `json:"rpc"`
	Cell      string            `json:"cell"`
	CellBase  string            `json:"cell_base"`
	Status    int               `json:"status"`
	Headers   map[string]string `json:"headers"`
	Body      []byte            `json:"body"`
	HasFields bool              `json:"has_fields"`
	Message   string            `json:"message"`
	ReqObj    json.RawMessage   `json:"req_obj"`
	ValidReq  map[string]any    `json:"valid_req"` // a valid request for the RPC as a bridge request object
}

func c10Unit(j *Job, u *JobUnit) error {
	errRespN := 0
	t := newTally()
	defer t.flush()
	var cur hookCfg
	hookMsg := &sebufhttp.Error{Message: "from-hook"}
	hook := func(w http.ResponseWriter, r *http.Request, err error) proto.Message {
		if cur.setHeader {
			w.Header().Set("X-Hook", "1")
		}
		if cur.writeHeader {
			w.WriteHeader(418)
		}
		if cur.writeBody {
			w.Write([]byte("hook-body"))
		}
		if cur.returnMsg {
			return hookMsg
		}
		return nil
	}
	fHook, err := newFixture(u.Name, hook)
	if err != nil {
		return err
	}
	fPlain, err := newFixture(u.Name, nil)
	if err != nil {
		return err
	}
	// custom error messages of the unit
	var customs []proto.Message
	for _, full := range u.Messages {
		if !strings.HasSuffix(full, "Error") {
			continue
		}
		m, err := NewMessage(full)
		if err != nil {
			continue
		}
		if _, ok := m.(error); !ok {
			continue
		}
		for _, d := range Dims(m.ProtoReflect().Descriptor(), ValueOpts{}) {
			if len(d.Alts) > 1 {
				d.Alts[1].Set(m.ProtoReflect())
			}
		}
		// string members get values that cannot occur in an error text by accident (the client-side oracle looks for them)
		mfs := m.ProtoReflect().Descriptor().Fields()
		for i := 0; i < mfs.Len(); i++ {
			if fd := mfs.Get(i); fd.Kind() == protoreflect.StringKind && !fd.IsList() && !fd.IsMap() && fd.ContainingOneof() == nil {
				m.ProtoReflect().Set(fd, protoreflect.ValueOfString("zq7~"+string(fd.Name())+"~é"))
			}
		}
		customs = append(customs, m)
	}
	for _, js := range u.Services {
		svc := FindService(u.Name, js.Name)
		for mi := range js.Methods {
			m := &js.Methods[mi]
			probe, err := NewMessage(m.In)
			if err != nil {
				return err
			}
			md := probe.ProtoReflect().Descriptor()
			dims := Dims(md, ValueOpts{PathSafe: urlBound(m)})
			valid, widx := WitnessIdx(m.In, dims)
			if valid == nil {
				return fmt.Errorf("no witness for %s", m.Name)
			}
			validTarget, _ := RenderRequest(m, valid)
			outDefault, _ := NewMessage(m.Out)
			okHandler := func() (proto.Message, error) { return outDefault, nil }
			var sources []errSource
			// 1. header violation
			var reqH []JobHeader
			for _, h := range m.Headers {
				if h.Required {
					reqH = append(reqH, h)
				}
			}
			if len(reqH) > 0 {
				sources = append(sources, errSource{key: "header_missing", drop: []string{reqH[0].Name}, handler: okHandler, status: 400, fields: []string{reqH[0].Name}})
			}
			// 2. URL binding violation
			for _, pv := range m.PathVars {
				if fd := md.Fields().ByName(protoName(pv)); fd != nil && fd.Kind() != protoreflect.StringKind {
					sources = append(sources, errSource{key: "path_unconvertible", target: renderWithSlot(m, valid, pv, []string{"abc"}), handler: okHandler, status: 400, fields: []string{pv}})
					break
				}
			}
			// every query parameter with an unconvertible value (singular and repeated, renamed or not)
			for _, q := range m.Query {
				fd := md.Fields().ByName(protoName(q.Field))
				if fd == nil || fd.Kind() == protoreflect.StringKind || fd.Kind() == protoreflect.EnumKind || fd.Kind() == protoreflect.BytesKind {
					continue
				}
				tg := validTarget
				sep := "?"
				if strings.Contains(tg, "?") {
					sep = "&"
				}
				// for a repeated parameter the bad element comes after a good one
				if fd.IsList() {
					tg += sep + queryEscape(q.Name) + "=" + queryEscape(scalarString(fd, zeroValue(fd))) + "&" + queryEscape(q.Name) + "=zz"
				} else {
					// drop an existing occurrence of the parameter, then add the bad one
					if i := strings.Index(tg, "?"); i >= 0 {
						var keep []string
						for _, kv := range strings.Split(tg[i+1:], "&") {
							if !strings.HasPrefix(kv, queryEscape(q.Name)+"=") {
								keep = append(keep, kv)
							}
						}
						tg = tg[:i]
						if len(keep) > 0 {
							tg += "?" + strings.Join(keep, "&")
						}
						sep = "?"
						if len(keep) > 0 {
							sep = "&"
						}
					}
					tg += sep + queryEscape(q.Name) + "=zz"
				}
				sources = append(sources, errSource{key: "query_unconvertible(" + q.Field + ")", target: tg, handler: okHandler, status: 400, fields: []string{q.Field}})
			}
			for _, q := range m.Query {
				if q.Required {
					c := proto.Clone(valid)
					c.ProtoReflect().Clear(md.Fields().ByName(protoName(q.Field)))
					tg, _ := RenderRequest(m, c)
					sources = append(sources, errSource{key: "query_missing_required", target: tg, handler: okHandler, status: 400, fields: []string{q.Field}})
					break
				}
			}
			// 3. malformed body
			if m.HasBody() {
				sources = append(sources, errSource{key: "malformed_body", body: []byte(`{"unterminated`), rawBody: true, handler: okHandler, status: 400, fields: []string{"body"}})
			}
			// 4. rule violations: every single deviation from the witness that violates a rule
			if m.HasBody() {
				seenSets := map[string]bool{}
				for di, d := range dims {
					for ai := range d.Alts {
						if ai == widx[di] {
							continue
						}
						msg, _ := NewMessage(m.In)
						for k, dd := range dims {
							a := widx[k]
							if k == di {
								a = ai
							}
							dd.Alts[a].Set(msg.ProtoReflect())
						}
						vs := protovalidate.Check(msg)
						if len(vs) == 0 {
							continue
						}
						fields := dropSubscripts(vs)
						k := strings.Join(fields, ",")
						if seenSets[k] && !j.Thorough {
							continue
						}
						seenSets[k] = true
						sources = append(sources, errSource{key: "rule_violation(" + k + ")", reqMsg: msg, handler: okHandler, status: 400, fields: fields})
					}
				}
			}
			// 5. handler errors
			sources = append(sources,
				errSource{key: "handler_plain_error", handler: func() (proto.Message, error) { return nil, errors.New("boom: plain") }, status: 500, message: "boom: plain", handlerRuns: true},
				errSource{key: "handler_sebuf_error", handler: func() (proto.Message, error) { return nil, &sebufhttp.Error{Message: "boom: sebuf"} }, status: 500, message: "boom: sebuf", handlerRuns: true},
				errSource{key: "handler_validation_error", handler: func() (proto.Message, error) {
					return nil, &sebufhttp.ValidationError{Violations: []*sebufhttp.FieldViolation{{Field: "custom.field", Description: "from handler"}}}
				}, status: 400, fields: []string{"custom.field"}, handlerRuns: true},
			)
			// a plain Go error that WRAPS one of the built-in error types is still a plain handler error: 500, carrying its own
			// (the wrapper's) message
			wrappedSebuf := wrapErr{&sebufhttp.Error{Message: "boom: inner"}}
			wrappedVE := wrapErr{&sebufhttp.ValidationError{Violations: []*sebufhttp.FieldViolation{{Field: "inner.field", Description: "from inner"}}}}
			sources = append(sources,
				errSource{key: "handler_wrapped_sebuf_error", handler: func() (proto.Message, error) { return nil, wrappedSebuf }, status: 500, message: wrappedSebuf.Error(), handlerRuns: true},
				errSource{key: "handler_wrapped_validation_error", handler: func() (proto.Message, error) { return nil, wrappedVE }, status: 500, message: wrappedVE.Error(), handlerRuns: true},
			)
			// size family: an error whose message / violation list is larger than 1 MiB on the wire must arrive whole
			largeText := "large:" + strings.Repeat("L", 1<<20+4096)
			var manyViolations []*sebufhttp.FieldViolation
			var manyFields []string
			for i := 0; i < 20000; i++ {
				fn := fmt.Sprintf("items[%d].name", i)
				manyViolations = append(manyViolations, &sebufhttp.FieldViolation{Field: fn, Description: "value length must be at least 3 characters, as required for every item of the list"})
				manyFields = append(manyFields, fn)
			}
			sources = append(sources,
				errSource{key: "handler_plain_error_large", handler: func() (proto.Message, error) { return nil, errors.New(largeText) }, status: 500, message: largeText, handlerRuns: true},
				errSource{key: "handler_validation_error_large", handler: func() (proto.Message, error) {
					return nil, &sebufhttp.ValidationError{Violations: manyViolations}
				}, status: 400, fields: manyFields, handlerRuns: true},
			)
			for _, ce := range customs {
				ce := ce
				sources = append(sources,
					errSource{key: "handler_custom_error", handler: func() (proto.Message, error) { return nil, ce.(error) }, status: 500, custom: ce, handlerRuns: true},
					errSource{key: "handler_wrapped_custom_error", handler: func() (proto.Message, error) { return nil, wrapErr{ce.(error)} }, status: 500, custom: ce, customAlt: true, message: wrapErr{ce.(error)}.Error(), handlerRuns: true},
				)
			}
			for _, src := range sources {
				// each media type bare and with a parameter (the encoding is decided by the media type, whatever parameters follow)
				for _, ct := range []string{"application/json", "application/x-protobuf", "application/octet-stream",
					"application/json; charset=utf-8", `application/x-protobuf; messageType="verif.Req"`, "application/octet-stream; charset=binary"} {
					ctKey := map[string]string{"application/json": "json", "application/x-protobuf": "proto", "application/octet-stream": "octet"}[strings.SplitN(ct, ";", 2)[0]]
					binary := ctKey != "json"
					if strings.Contains(ct, ";") {
						ctKey += "+param"
					}
					if src.key == "malformed_body" && binary {
						src.body = []byte{0xff, 0xff, 0xff}
					} else if src.key == "malformed_body" {
						src.body = []byte(`{"unterminated`)
					}
					for _, hk := range allHooks() {
						if strings.HasSuffix(src.key, "_large") && (hk.installed || mi != 0) {
							continue // the size family: first RPC of each service, no hook (the hooks do not look at sizes)
						}
						cur = hk
						f := fPlain
						if hk.installed {
							f = fHook
						}
						f.reset()
						f.handler = func(context.Context, string, proto.Message) (proto.Message, error) { return src.handler() }
						// assemble request
						reqMsg := valid
						if src.reqMsg != nil {
							reqMsg = src.reqMsg
						}
						target := validTarget
						if src.target != "" {
							target = src.target
						} else if src.reqMsg != nil {
							target, _ = RenderRequest(m, reqMsg)
						}
						var body []byte
						if m.HasBody() {
							if src.rawBody {
								body = src.body
							} else if binary {
								body, _ = proto.Marshal(reqMsg)
							} else {
								_, body = RenderRequest(m, reqMsg)
							}
						}
						hdr := http.Header{"Content-Type": {ct}}
						for _, h := range reqH {
							hdr[h.Name] = []string{ValidHeaderValue(h)}
						}
						for _, d := range src.drop {
							delete(hdr, d)
						}
						ex, err := f.wire.Do(m.Verb, target, hdr, body)
						if err != nil {
							return err
						}
						cellBase := fmt.Sprintf("%s,rpc=%s.%s,src=%s,ct=%s", u.Cell, js.Name, m.Name, strings.SplitN(src.key, "(", 2)[0], ctKey)
						cell := cellBase + "#hook=" + hk.key()
						line := fmt.Sprintf("%s %s [%s] hook=%s -> %d ct=%q %s", m.Verb, target, ct, hk.key(), ex.Status, ex.RespHeader.Get("Content-Type"), clip(ex.RespBody))
						fail := func(sym, detail string) {
							t.viol(cell, sym, detail+" | "+line, []string{src.key})
							t.hit(cellBase, sym, true)
						}
						if ex.Panic != "" {
							fail("panic", clipS(ex.Panic))
							continue
						}
						if (len(f.calls) > 0) != src.handlerRuns {
							fail("handler_ran_mismatch", fmt.Sprintf("handler ran %d times, expected ran=%v", len(f.calls), src.handlerRuns))
							continue
						}
						// ---- M-err expectation ----
						wantStatus := src.status
						if hk.installed && hk.writeHeader {
							wantStatus = 418
						}
						if hk.installed && hk.writeBody {
							if !hk.writeHeader {
								wantStatus = 200
							}
							switch {
							case string(ex.RespBody) != "hook-body":
								fail("hook_body_overwritten", "the hook wrote the body itself")
							case ex.Status != wantStatus:
								fail("hook_status_ignored", fmt.Sprintf("want status %d", wantStatus))
							case hk.setHeader && ex.RespHeader.Get("X-Hook") != "1":
								fail("hook_header_lost", "X-Hook missing")
							default:
								t.hit(cellBase, "hook_wrote_response", true)
							}
							continue
						}
						if ex.Status != wantStatus {
							if hk.installed && hk.writeHeader {
								fail("hook_status_ignored", fmt.Sprintf("want status %d", wantStatus))
							} else {
								fail("status_differs", fmt.Sprintf("want status %d", wantStatus))
							}
							continue
						}
						if hk.installed && hk.setHeader && ex.RespHeader.Get("X-Hook") != "1" {
							fail("hook_header_lost", "X-Hook missing")
							continue
						}
						if !(hk.installed && hk.writeHeader) {
							wantCT := "application/json"
							if binary {
								wantCT = "application/x-protobuf"
							}
							if got := ex.RespHeader.Get("Content-Type"); !strings.HasPrefix(got, wantCT) {
								fail("wrong_encoding", fmt.Sprintf("want Content-Type %s, got %q", wantCT, got))
								continue
							}
						}
						decode := func(into proto.Message) error {
							if binary {
								return proto.Unmarshal(ex.RespBody, into)
							}
							return protojson.Unmarshal(ex.RespBody, into)
						}
						okBody := false
						detail := ""
						switch {
						case hk.installed && hk.returnMsg:
							got := &sebufhttp.Error{}
							if err := decode(got); err != nil || got.GetMessage() != "from-hook" {
								detail = fmt.Sprintf("want the message returned by the hook (Error{from-hook}), decode err=%v got=%v", err, got)
								fail("hook_msg_ignored", detail)
								continue
							}
							okBody = true
						case src.fields != nil:
							ve := &sebufhttp.ValidationError{}
							if err := decode(ve); err != nil {
								fail("wrong_encoding", "ValidationError does not decode under the request's content type: "+err.Error())
								continue
							}
							got := violationFields(ve)
							want := append([]string(nil), src.fields...)
							sort.Strings(want)
							if src.key == "header_missing" || strings.HasPrefix(src.key, "path_") || strings.HasPrefix(src.key, "query_") || src.key == "malformed_body" {
								// M-pipe: non-empty subset of the offending names
								okBody = len(got) > 0 && subset(got, want)
							} else {
								okBody = strings.Join(got, ",") == strings.Join(want, ",")
							}
							if !okBody {
								sym := "violations_differ"
								if strings.HasPrefix(src.key, "rule_violation") {
									sym = "field_path_differs"
								}
								fail(sym, fmt.Sprintf("want violation fields %v, got %v", want, got))
								continue
							}
						case src.custom != nil:
							got := src.custom.ProtoReflect().New().Interface()
							if err := decode(got); err == nil && proto.Equal(got, src.custom) {
								okBody = true
							} else if src.customAlt {
								ge := &sebufhttp.Error{}
								if err2 := decode(ge); err2 == nil && ge.GetMessage() == src.message {
									okBody = true
								}
							}
							if !okBody {
								fail("body_differs", fmt.Sprintf("want the custom error message with all its fields: %s", protoText(src.custom)))
								continue
							}
						default:
							ge := &sebufhttp.Error{}
							if err := decode(ge); err != nil {
								fail("wrong_encoding", "Error does not decode under the request's content type: "+err.Error())
								continue
							}
							if ge.GetMessage() != src.message {
								fail("body_differs", fmt.Sprintf("want Error.message %q, got %q", src.message, ge.GetMessage()))
								continue
							}
							okBody = true
						}
						t.hit(cellBase, "error_response_as_documented", true)
						// ---- client continuation (no hook only: the default contract) ----
						if !hk.installed && svc != nil && svc.NewClient != nil && ctKey != "octet" && !strings.Contains(ct, ";") { // the client API offers the two bare media types only
							c10Client(t, cellBase, cell, svc, m, valid, ct, ex, src)
						}
						if !hk.installed && ct == "application/json" && j.Params["stage"] == "tsclient" && !strings.HasSuffix(src.key, "_large") { // (the MiB-sized bodies go to the Go client only: the staged bridge reads its whole input as one string)
							// the same error response is handed to the generated TS client by the check (node bridge)
							var reqObj json.RawMessage
							if v, err := model.Encode(valid.ProtoReflect(), model.EncOpts{}); err == nil {
								reqObj = model.Marshal(v)
							}
							hs := map[string]string{}
							for k, vs := range ex.RespHeader {
								if len(vs) > 0 {
									hs[k] = vs[0]
								}
							}
							errRespN++
							Emit(&ErrResp{K: "errresp", ID: fmt.Sprintf("%s|%s|%s|%05d", u.Name, js.Name, m.Name, errRespN), Unit: u.Name, Svc: js.Name, RPC: m.Name, Cell: cell, CellBase: cellBase,
								Status: ex.Status, Headers: hs, Body: ex.RespBody, HasFields: src.fields != nil, Message: src.message, ReqObj: reqObj, ValidReq: ValidRequestFor(m)})
						}
					}
				}
			}
		}
	}
	return nil
}

func subset(a, b []string) bool {
	set := map[string]bool{}
	for _, x := range b {
		set[x] = true
	}
	for _, x := range a {
		if !set[x] {
			return false
		}
	}
	return true
}

type cannedTransport struct{ ex *Exchange }

func (c cannedTransport) RoundTrip(req *http.Request) (*http.Response, error) {
	if req.Body != nil {
		io.Copy(io.Discard, req.Body)
	}
	resp := &http.Response{StatusCode: c.ex.Status, ProtoMajor: 1, ProtoMinor: 1, Header: c.ex.RespHeader.Clone(),
		Body: io.NopCloser(bytes.NewReader(c.ex.RespBody)), ContentLength: int64(len(c.ex.RespBody))}
	var buf bytes.Buffer
	if err := resp.Write(&buf); err != nil {
		return nil, err
	}
	return http.ReadResponse(bufio.NewReader(&buf), req)
}

// c10Client feeds the produced error response to the generated Go client.
func c10Client(t *tally, cellBase, cell string, svc *Service, m *JobMethod, valid proto.Message, ct string, ex *Exchange, src errSource) {
	// the content type is chosen once for the client, and once per call over a client whose default is the other one
	c10ClientMode(t, cellBase, cell, svc, m, valid, ct, ex, src, false)
	c10ClientMode(t, cellBase, cell, svc, m, valid, ct, ex, src, true)
}

func c10ClientMode(t *tally, cellBase, cell string, svc *Service, m *JobMethod, valid proto.Message, ct string, ex *Exchange, src errSource, perCall bool) {
	co, ko, side := ClientOpts{ContentType: ct}, CallOpts{}, ",side=client"
	if perCall {
		other := "application/json"
		if ct == other {
			other = "application/x-protobuf"
		}
		co, ko, side = ClientOpts{ContentType: other}, CallOpts{ContentType: ct}, ",side=client,ctopt=call"
	}
	client := svc.NewClient("http://verif.test", &http.Client{Transport: cannedTransport{ex}}, co)
	var cerr error
	var got proto.Message
	var pan any
	func() {
		defer func() { pan = recover() }()
		got, cerr = client.Call(context.Background(), m.Name, valid, ko)
	}()
	ccell := strings.Replace(cell, "#hook=none", side+"#hook=none", 1)
	switch {
	case pan != nil:
		t.viol(ccell, "client_panic", fmt.Sprint(pan), nil)
	case cerr == nil:
		t.viol(ccell, "client_error_type", fmt.Sprintf("status %d produced no error (result %v)", ex.Status, got), nil)
		t.hit(cellBase+side, "client_error_type", true)
	case src.fields != nil:
		var ve *sebufhttp.ValidationError
		if !errors.As(cerr, &ve) {
			t.viol(ccell, "client_error_type", fmt.Sprintf("400 with violations became %T: %v", cerr, cerr), nil)
			t.hit(cellBase+side, "client_error_type", true)
			return
		}
		sv := &sebufhttp.ValidationError{}
		if ct == "application/json" {
			protojson.Unmarshal(ex.RespBody, sv)
		} else {
			proto.Unmarshal(ex.RespBody, sv)
		}
		if !proto.Equal(sv, ve) {
			t.viol(ccell, "client_error_content", fmt.Sprintf("violations differ: server %v client %v", sv, ve), nil)
			t.hit(cellBase+side, "client_error_content", true)
			return
		}
		t.hit(cellBase+side, "client_validation_error", true)
	default:
		// any other failure: the status and the message or body must be recoverable from the error
		text := cerr.Error()
		var ge *sebufhttp.Error
		okMsg := false
		if errors.As(cerr, &ge) && src.message != "" && ge.GetMessage() == src.message {
			okMsg = true
		}
		if src.message != "" && strings.Contains(text, src.message) {
			okMsg = true
		}
		if src.custom != nil {
			// body recoverable: every string field value of the custom error appears in the error text
			okMsg = true
			src.custom.ProtoReflect().Range(func(fd protoreflect.FieldDescriptor, v protoreflect.Value) bool {
				if fd.Kind() == protoreflect.StringKind && !fd.IsList() && !strings.Contains(text, v.String()) {
					okMsg = false
				}
				return true
			})
			if src.customAlt && strings.Contains(text, src.message) {
				okMsg = true
			}
		}
		if !okMsg {
			t.viol(ccell, "client_error_content", fmt.Sprintf("error %T %q does not carry the server's message/body", cerr, clipS(text)), nil)
			t.hit(cellBase+side, "client_error_content", true)
			return
		}
		t.hit(cellBase+side, "client_error_carries_message", true)
	}
}

var _ = model.Marshal
