package rt

import (
	"context"
	"encoding/json"
	"errors"
	"fmt"
	"net/http"
	"sort"
	"strings"
	"sync"

	"google.golang.org/protobuf/encoding/protojson"
	"google.golang.org/protobuf/proto"
	"google.golang.org/protobuf/reflect/protoreflect"

	"verif/mc/model"
)

func init() {
	Drivers["c04"] = func(a []string) error { return runJob(a, c04Unit) }
	Drivers["c05"] = func(a []string) error { return runJob(a, c05Unit) }
	Drivers["c01"] = func(a []string) error { return runJob(a, c01Unit) }
}

func runJob(args []string, fn func(j *Job, u *JobUnit) error) error {
	if len(args) < 1 {
		return errors.New("usage: harness <driver> <job.json>")
	}
	j, err := LoadJob(args[0])
	if err != nil {
		return err
	}
	for i := range j.Units {
		if err := fn(j, &j.Units[i]); err != nil {
			var rp *RegisterPanic
			if errors.As(err, &rp) {
				// the generated Register<Service>Server itself panics: a fact about the code under test, not about the harness
				Emit(&Rec{K: "viol", Cell: j.Units[i].Cell + ",service=" + rp.Service, Symptom: "server_registration_panics", Detail: clipS(rp.Msg)})
				continue
			}
			return fmt.Errorf("unit %s: %w", j.Units[i].Name, err)
		}
	}
	return nil
}

// RegisterPanic reports that the generated server registration function panicked (e.g. net/http refusing a pattern).
type RegisterPanic struct{ Service, Msg string }

func (e *RegisterPanic) Error() string {
	return "Register" + e.Service + "Server panicked: " + e.Msg
}

// Rec is one JSONL record sent to the orchestrator.
type Rec struct {
	K       string   `json:"k"` // stat | viol
	Cell    string   `json:"cell"`
	Outcome string   `json:"outcome,omitempty"`
	N       int      `json:"n,omitempty"`
	NonTriv bool     `json:"nontrivial,omitempty"`
	Symptom string   `json:"symptom,omitempty"`
	Detail  string   `json:"detail,omitempty"`
	Labels  []string `json:"labels,omitempty"`
	Sample  any      `json:"sample,omitempty"`
}

// tally accumulates per-(cell,outcome) counts and deduplicates violations per (cell,symptom).
type tally struct {
	counts map[string]*Rec
	viols  map[string]bool
}

func newTally() *tally { return &tally{counts: map[string]*Rec{}, viols: map[string]bool{}} }

func (t *tally) hit(cell, outcome string, nontrivial bool) {
	k := cell + "|" + outcome
	r := t.counts[k]
	if r == nil {
		r = &Rec{K: "stat", Cell: cell, Outcome: outcome}
		t.counts[k] = r
	}
	r.N++
	if nontrivial {
		r.NonTriv = true
	}
}

func (t *tally) viol(cell, symptom, detail string, labels []string) {
	k := cell + "|" + symptom
	if t.viols[k] {
		return
	}
	t.viols[k] = true
	Emit(&Rec{K: "viol", Cell: cell, Symptom: symptom, Detail: detail, Labels: labels})
}

func (t *tally) flush() {
	keys := make([]string, 0, len(t.counts))
	for k := range t.counts {
		keys = append(keys, k)
	}
	sort.Strings(keys)
	for _, k := range keys {
		Emit(t.counts[k])
	}
}

func entryMarshal(m proto.Message) ([]byte, error) {
	if jm, ok := m.(json.Marshaler); ok {
		return jm.MarshalJSON()
	}
	return protojson.Marshal(m)
}

func entryUnmarshal(b []byte, m proto.Message) error {
	if ju, ok := m.(json.Unmarshaler); ok {
		return ju.UnmarshalJSON(b)
	}
	return protojson.Unmarshal(b, m)
}

func equalNorm(a, b proto.Message) bool {
	return proto.Equal(model.Normalise(a), model.Normalise(b))
}

func devClass(p Point) string {
	if len(p.Labels) == 0 {
		return "default"
	}
	var names []string
	for _, l := range p.Labels {
		names = append(names, strings.SplitN(l, "=", 2)[0])
	}
	return strings.Join(names, "+")
}

func maxDevFor(j *Job, dims []Dim) int {
	full := SpaceSize(dims, -1)
	limit := int64(3000)
	if j.Thorough {
		limit = 40000
	}
	if full <= limit {
		return -1
	}
	for d := len(dims); d >= 1; d-- {
		if SpaceSize(dims, d) <= limit {
			return d
		}
	}
	return 1
}

func shortName(full string) string {
	if i := strings.Index(full, "."); i >= 0 {
		return full[i+1:]
	}
	return full
}

func protoText(m proto.Message) string {
	b, err := protojson.MarshalOptions{EmitUnpopulated: false}.Marshal(m)
	if err != nil {
		return "<" + err.Error() + ">"
	}
	s := string(b)
	if len(s) > 400 {
		s = s[:400] + "…"
	}
	return s
}

// ---- C04: codecs round-trip ------------------------------------------------

func c04Unit(j *Job, u *JobUnit) error {
	t := newTally()
	defer t.flush()
	for _, full := range u.Messages {
		probe, err := NewMessage(full)
		if err != nil {
			return err
		}
		dims := Dims(probe.ProtoReflect().Descriptor(), ValueOpts{Thorough: j.Thorough})
		maxDev := maxDevFor(j, dims)
		cellBase := fmt.Sprintf("%s,msg=%s", u.Cell, shortName(full))
		_, custom := probe.(json.Marshaler)
		Emit(&Rec{K: "space", Cell: cellBase, N: int(SpaceSize(dims, maxDev)), Detail: fmt.Sprintf("dims=%d maxdev=%d custom_codec=%v", len(dims), maxDev, custom)})
		err = Enumerate(full, dims, maxDev, func(p Point) bool {
			cell := cellBase + "#" + devClass(p)
			nontriv := p.Deviate > 0
			bad := func(sym, detail string) {
				t.viol(cell, sym, detail+" | value="+protoText(p.Msg), p.Labels)
				t.hit(cellBase, sym, nontriv)
			}
			ok := true
			// (a) own output
			data, err := entryMarshal(p.Msg)
			if err != nil {
				bad("encode_fails", err.Error())
				ok = false
			} else {
				back, _ := NewMessage(full)
				if err := entryUnmarshal(data, back); err != nil {
					bad("decode_of_own_output_fails", fmt.Sprintf("%v | json=%s", err, clip(data)))
					ok = false
				} else if !equalNorm(p.Msg, back) {
					bad("roundtrip_differs", fmt.Sprintf("json=%s | got=%s", clip(data), protoText(back)))
					ok = false
				}
			}
			canonicalOK := false
			// (b) canonical, (c) explicit and (d) nulls form (unset members spelled null: proto3 JSON reads null as the default value) produced by another party
			for _, form := range []struct {
				name string
				o    model.EncOpts
			}{{"canonical", model.EncOpts{}}, {"explicit", model.EncOpts{Explicit: true}}, {"nulls", model.EncOpts{Nulls: true}}} {
				if form.name == "nulls" && !canonicalOK {
					continue // the nulls form says something new only where the canonical form is read correctly
				}
				v, err := model.Encode(p.Msg.ProtoReflect(), form.o)
				if err != nil {
					return true // schema not encodable by the model (collision): not judged
				}
				data := model.Marshal(v)
				back, _ := NewMessage(full)
				if err := entryUnmarshal(data, back); err != nil {
					bad(form.name+"_rejected", fmt.Sprintf("%v | json=%s", err, clip(data)))
					ok = false
				} else if !equalNorm(p.Msg, back) {
					bad(form.name+"_differs", fmt.Sprintf("json=%s | got=%s", clip(data), protoText(back)))
					ok = false
				} else if form.name == "canonical" {
					canonicalOK = true
				}
			}
			if ok {
				t.hit(cellBase, "roundtrips", nontriv)
			}
			return true
		})
		if err != nil {
			return err
		}
	}
	return nil
}

func clip(b []byte) string {
	if len(b) > 300 {
		return string(b[:300]) + "…"
	}
	return string(b)
}

// ---- shared server fixture ---------------------------------------------------

type fixture struct {
	mu      sync.Mutex
	mux     *http.ServeMux
	wire    *Wire
	handler func(ctx context.Context, method string, req proto.Message) (proto.Message, error)
	calls   []string
	seen    []proto.Message
}

func newFixture(unit string, hook Hook) (*fixture, error) {
	return newFixtureSel(unit, func(int, string) Hook { return hook })
}

// newFixtureSel registers every service of the unit on one mux, the i-th service with the error hook hookFor(i, name)
// (nil: no hook option at all) - servers of one package registered with different options.
func newFixtureSel(unit string, hookFor func(i int, svc string) Hook) (*fixture, error) {
	f := &fixture{mux: http.NewServeMux()}
	f.wire = &Wire{Handler: f.mux, Keep: true}
	for si, s := range Services(unit) {
		hook := hookFor(si, s.Name)
		if s.Register == nil {
			continue
		}
		var pan any
		err := func() (err error) {
			defer func() { pan = recover() }()
			return s.Register(func(ctx context.Context, method string, req proto.Message) (proto.Message, error) {
				f.mu.Lock()
				f.calls = append(f.calls, method)
				f.seen = append(f.seen, proto.Clone(req))
				h := f.handler
				f.mu.Unlock()
				return h(ctx, method, req)
			}, f.mux, hook)
		}()
		if pan != nil {
			return nil, &RegisterPanic{Service: s.Name, Msg: fmt.Sprint(pan)}
		}
		if err != nil {
			return nil, fmt.Errorf("register %s: %w", s.Name, err)
		}
	}
	return f, nil
}

func (f *fixture) reset() {
	f.calls, f.seen = nil, nil
	f.wire.Reset()
}

// ---- C05: server JSON equals the documented mapping --------------------------

func isEchoRoute(m *JobMethod) bool {
	if !m.HasBody() || len(m.PathVars) > 0 || len(m.Query) > 0 {
		return false
	}
	for _, h := range m.Headers {
		if h.Required {
			return false
		}
	}
	return true
}

func c05Unit(j *Job, u *JobUnit) error {
	t := newTally()
	defer t.flush()
	f, err := newFixture(u.Name, nil)
	if err != nil {
		return err
	}
	for _, s := range u.Services {
		for mi := range s.Methods {
			m := &s.Methods[mi]
			if !isEchoRoute(m) {
				continue
			}
			cellBase := fmt.Sprintf("%s,rpc=%s.%s", u.Cell, s.Name, m.Name)
			hdr := http.Header{"Content-Type": {"application/json"}}
			// content types under which the server answers JSON: the default plus spellings it does not single out;
			// for those the answer is judged only when it is a JSON answer (the mapping is what is being checked, not the negotiation)
			type ctAlt struct {
				key string
				hdr http.Header
			}
			alts := []ctAlt{{"", hdr}, {"json_charset", http.Header{"Content-Type": {"application/json; charset=utf-8"}}}, {"absent", http.Header{}},
				{"text_plain", http.Header{"Content-Type": {"text/plain"}}}, {"json_upper", http.Header{"Content-Type": {"Application/JSON"}}}, {"vnd_json", http.Header{"Content-Type": {"application/vnd.api+json"}}}}
			// response direction: every value of the output type
			outProbe, err := NewMessage(m.Out)
			if err != nil {
				return err
			}
			inDefault, _ := NewMessage(m.In)
			dv, derr := model.Encode(inDefault.ProtoReflect(), model.EncOpts{})
			if derr != nil {
				continue
			}
			defaultBody := model.Marshal(dv)
			dims := Dims(outProbe.ProtoReflect().Descriptor(), ValueOpts{Thorough: j.Thorough})
			maxDev := maxDevFor(j, dims)
			err = Enumerate(m.Out, dims, maxDev, func(p Point) bool {
				want, err := model.Encode(p.Msg.ProtoReflect(), model.EncOpts{})
				if err != nil {
					return true
				}
				for _, alt := range alts {
					cell := cellBase + ",dir=response#" + devClass(p)
					if alt.key != "" {
						cell = cellBase + ",dir=response,ct=" + alt.key + "#" + devClass(p)
					}
					f.reset()
					f.handler = func(context.Context, string, proto.Message) (proto.Message, error) { return p.Msg, nil }
					ex, err := f.wire.Do(m.Verb, m.Path, alt.hdr, defaultBody)
					if err != nil {
						t.viol(cell, "no_response", err.Error(), p.Labels)
						continue
					}
					if alt.key != "" && (len(f.calls) != 1 || ex.Status != 200 || !strings.HasPrefix(ex.RespHeader.Get("Content-Type"), "application/json")) {
						if ex.Panic != "" {
							t.viol(cell, "panic", clipS(ex.Panic), p.Labels)
						} else {
							t.hit(cellBase+",ct="+alt.key, "not_a_json_answer_unjudged", false)
						}
						continue
					}
					switch {
					case ex.Panic != "":
						t.viol(cell, "panic", clipS(ex.Panic), p.Labels)
						t.hit(cellBase, "panic", true)
					case len(f.calls) != 1:
						t.viol(cell, "default_request_not_dispatched", fmt.Sprintf("status=%d body=%s (request body %s)", ex.Status, clip(ex.RespBody), defaultBody), p.Labels)
						t.hit(cellBase, "not_dispatched", true)
					case ex.Status != 200:
						t.viol(cell, "response_not_200", fmt.Sprintf("status=%d body=%s value=%s", ex.Status, clip(ex.RespBody), protoText(p.Msg)), p.Labels)
						t.hit(cellBase, "response_not_200", true)
					default:
						got, perr := model.Parse(ex.RespBody)
						if perr != nil {
							t.viol(cell, "response_not_json", perr.Error()+" | "+clip(ex.RespBody), p.Labels)
							t.hit(cellBase, "response_not_json", true)
						} else if d := model.Diff(want, got); d != "" {
							t.viol(cell, "response_json_differs", fmt.Sprintf("%s | want=%s | got=%s", d, clip(model.Marshal(want)), clip(ex.RespBody)), p.Labels)
							t.hit(cellBase, "response_json_differs", true)
						} else {
							t.hit(cellBase, "response_matches_model", p.Deviate > 0)
						}
					}
				}
				return true
			})
			if err != nil {
				return err
			}
			// request direction: every value of the input type in documented form
			inProbe, _ := NewMessage(m.In)
			dims = Dims(inProbe.ProtoReflect().Descriptor(), ValueOpts{Thorough: j.Thorough})
			maxDev = maxDevFor(j, dims)
			outDefault, _ := NewMessage(m.Out)
			err = Enumerate(m.In, dims, maxDev, func(p Point) bool {
				v, err := model.Encode(p.Msg.ProtoReflect(), model.EncOpts{})
				if err != nil {
					return true
				}
				if violatesRules(p.Msg) {
					return true
				}
				body := model.Marshal(v)
				// the same value with every unset member spelled null (proto3 JSON: null is the default value), sent as one more
				// spelling under the plain content type
				reqAlts := alts
				var nullBody []byte
				if vn, err := model.Encode(p.Msg.ProtoReflect(), model.EncOpts{Nulls: true}); err == nil {
					if nb := model.Marshal(vn); string(nb) != string(body) {
						reqAlts = append(append(reqAlts[:0:0], alts...), ctAlt{"nulls", hdr})
						nullBody = nb
					}
				}
				for _, alt := range reqAlts {
					cell := cellBase + ",dir=request#" + devClass(p)
					if alt.key != "" {
						cell = cellBase + ",dir=request,ct=" + alt.key + "#" + devClass(p)
					}
					body := body
					if alt.key == "nulls" {
						body = nullBody
					}
					f.reset()
					f.handler = func(context.Context, string, proto.Message) (proto.Message, error) { return outDefault, nil }
					ex, err := f.wire.Do(m.Verb, m.Path, alt.hdr, body)
					if err != nil {
						t.viol(cell, "no_response", err.Error(), p.Labels)
						continue
					}
					if alt.key != "" && alt.key != "nulls" && len(f.calls) == 0 && ex.Panic == "" {
						t.hit(cellBase+",ct="+alt.key, "not_dispatched_unjudged", false)
						continue
					}
					switch {
					case ex.Panic != "":
						t.viol(cell, "panic", clipS(ex.Panic), p.Labels)
						t.hit(cellBase, "panic", true)
					case len(f.calls) == 0:
						t.viol(cell, "documented_form_rejected", fmt.Sprintf("status=%d resp=%s | body=%s", ex.Status, clip(ex.RespBody), clip(body)), p.Labels)
						t.hit(cellBase, "documented_form_rejected", true)
					case !equalNorm(p.Msg, f.seen[0]):
						t.viol(cell, "request_decoded_differs", fmt.Sprintf("body=%s | handler saw=%s | want=%s", clip(body), protoText(f.seen[0]), protoText(p.Msg)), p.Labels)
						t.hit(cellBase, "request_decoded_differs", true)
					default:
						t.hit(cellBase, "request_matches_model", p.Deviate > 0)
					}
				}
				return true
			})
			if err != nil {
				return err
			}
		}
	}
	return nil
}

func clipS(s string) string {
	if len(s) > 600 {
		return s[:600] + "…"
	}
	return s
}

var _ = protoreflect.FullName("")
