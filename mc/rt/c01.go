package rt

import (
	"bytes"
	"context"
	"fmt"
	"net/http"
	"strings"

	protovalidate "buf.build/go/protovalidate"
	"google.golang.org/protobuf/proto"
	"google.golang.org/protobuf/reflect/protoreflect"
)

func violatesRules(m proto.Message) bool { return len(protovalidate.Check(m)) > 0 }

// ValidHeaderValue returns a value that is well-formed for the declared type and format.
func ValidHeaderValue(h JobHeader) string {
	switch h.Type {
	case "integer":
		return "42"
	case "number":
		return "1.5"
	case "boolean":
		return "true"
	case "array":
		return "a,b"
	}
	switch h.Format {
	case "uuid":
		return "123e4567-e89b-12d3-a456-426614174000"
	case "email":
		return "user@example.com"
	case "date-time":
		return "2024-01-15T09:30:00Z"
	case "date":
		return "2024-01-15"
	case "time":
		return "09:30:00"
	}
	return "value"
}

func requiredHeaderKVs(m *JobMethod) []KV {
	var out []KV
	for _, h := range m.Headers {
		if h.Required {
			out = append(out, KV{h.Name, ValidHeaderValue(h)})
		}
	}
	return out
}

func urlBound(m *JobMethod) (pathSafe map[string]bool) {
	pathSafe = map[string]bool{}
	for _, v := range m.PathVars {
		pathSafe[v] = true
	}
	for _, q := range m.Query {
		if q.Required {
			pathSafe[q.Field] = true
		}
	}
	return
}

// ---- C01: Go client -> Go server delivers the exact request and response ----

func c01Unit(j *Job, u *JobUnit) error {
	t := newTally()
	defer t.flush()
	f, err := newFixture(u.Name, nil)
	if err != nil {
		return err
	}
	hc := &http.Client{Transport: f.wire}
	for _, js := range u.Services {
		svc := FindService(u.Name, js.Name)
		if svc == nil || svc.NewClient == nil || svc.Register == nil {
			return fmt.Errorf("service %s not registered with client and server", js.Name)
		}
		for mi := range js.Methods {
			m := &js.Methods[mi]
			want := js.Name + "." + m.Name
			cellBase := fmt.Sprintf("%s,rpc=%s.%s,verb=%s", u.Cell, js.Name, m.Name, m.Verb)
			inProbe, err := NewMessage(m.In)
			if err != nil {
				return err
			}
			outProbe, err := NewMessage(m.Out)
			if err != nil {
				return err
			}
			inDims := Dims(inProbe.ProtoReflect().Descriptor(), ValueOpts{Thorough: j.Thorough, PathSafe: urlBound(m)})
			outDims := Dims(outProbe.ProtoReflect().Descriptor(), ValueOpts{Thorough: j.Thorough})
			fullOut, _ := NewMessage(m.Out)
			for _, d := range outDims {
				if len(d.Alts) > 1 {
					d.Alts[1].Set(fullOut.ProtoReflect())
				}
			}
			for _, mode := range []struct {
				ct      string
				perCall bool
			}{{"application/json", false}, {"application/x-protobuf", false}, {"application/json", true}, {"application/x-protobuf", true}} {
				ct := mode.ct
				ctKey := map[string]string{"application/json": "json", "application/x-protobuf": "proto"}[ct]
				client := svc.NewClient("http://verif.test", hc, ClientOpts{ContentType: ct, DefaultHeaders: requiredHeaderKVs(m)})
				callOpts, ctOpt := CallOpts{}, ""
				if mode.perCall {
					ctOpt = ",ctopt=call"
					// the content type is chosen per call over a client whose default is the other one
					other := map[string]string{"application/json": "application/x-protobuf", "application/x-protobuf": "application/json"}[ct]
					client = svc.NewClient("http://verif.test", hc, ClientOpts{ContentType: other, DefaultHeaders: requiredHeaderKVs(m)})
					callOpts = CallOpts{ContentType: ct}
				}
				eq := func(a, b proto.Message) bool { return equalNorm(dropNegZero(a), dropNegZero(b)) }
				if ctKey == "proto" {
					eq = func(a, b proto.Message) bool { return proto.Equal(dropNegZero(a), dropNegZero(b)) }
				}
				call := func(cell string, p Point, req, resp proto.Message) {
					f.reset()
					f.handler = func(context.Context, string, proto.Message) (proto.Message, error) { return resp, nil }
					var got proto.Message
					var cerr error
					var pan any
					func() {
						defer func() { pan = recover() }()
						got, cerr = client.Call(context.Background(), m.Name, req, callOpts)
					}()
					ex := f.wire.Last()
					line := ""
					if ex != nil {
						line = fmt.Sprintf("%s %s -> %d %s", ex.Method, ex.Target, ex.Status, clip(ex.RespBody))
					}
					nontriv := p.Deviate > 0
					switch {
					case pan != nil:
						t.viol(cell, "client_panic", fmt.Sprint(pan), p.Labels)
						t.hit(cellBase+",ct="+ctKey+ctOpt, "client_panic", true)
					case ex != nil && ex.Panic != "":
						t.viol(cell, "panic", clipS(ex.Panic), p.Labels)
						t.hit(cellBase+",ct="+ctKey+ctOpt, "panic", true)
					case len(f.calls) == 0:
						sym := "no_route_or_rejected"
						if ex != nil {
							sym = fmt.Sprintf("not_dispatched(%d)", ex.Status)
						}
						t.viol(cell, sym, fmt.Sprintf("%s | err=%v | req=%s", line, cerr, protoText(req)), p.Labels)
						t.hit(cellBase+",ct="+ctKey+ctOpt, sym, true)
					case len(f.calls) > 1:
						t.viol(cell, "handler_ran_twice", line, p.Labels)
					case f.calls[0] != want:
						t.viol(cell, "wrong_rpc", fmt.Sprintf("want %s, handler %s ran | %s", want, f.calls[0], line), p.Labels)
						t.hit(cellBase+",ct="+ctKey+ctOpt, "wrong_rpc", true)
					case !eq(req, f.seen[0]):
						t.viol(cell, "request_differs", fmt.Sprintf("%s | body=%s | sent=%s | handler saw=%s", line, clip(ex.ReqBody), protoText(req), protoText(f.seen[0])), p.Labels)
						t.hit(cellBase+",ct="+ctKey+ctOpt, "request_differs", true)
					case cerr != nil:
						t.viol(cell, "client_error", fmt.Sprintf("%v | %s", cerr, line), p.Labels)
						t.hit(cellBase+",ct="+ctKey+ctOpt, "client_error", true)
					case got == nil || !eq(resp, got):
						t.viol(cell, "response_differs", fmt.Sprintf("%s | returned=%s | caller got=%s", line, protoText(resp), protoText(got)), p.Labels)
						t.hit(cellBase+",ct="+ctKey+ctOpt, "response_differs", true)
					default:
						t.hit(cellBase+",ct="+ctKey+ctOpt, "delivered", nontriv)
					}
				}
				// all request values, fixed populated response
				err = Enumerate(m.In, inDims, maxDevFor(j, inDims), func(p Point) bool {
					if violatesRules(p.Msg) {
						return true
					}
					cls := devClass(p)
					for _, pv := range m.PathVars {
						if fd := p.Msg.ProtoReflect().Descriptor().Fields().ByName(protoName(pv)); fd != nil && fd.Kind() == protoreflect.StringKind {
							if v := p.Msg.ProtoReflect().Get(fd).String(); v == "." || v == ".." {
								cls = "dotsegment"
							}
						}
					}
					call(cellBase+",ct="+ctKey+ctOpt+",dir=request#"+cls, p, p.Msg, fullOut)
					return true
				})
				if err != nil {
					return err
				}
				// all response values, base request
				baseReq := Witness(m.In, inDims)
				if baseReq == nil {
					continue
				}
				err = Enumerate(m.Out, outDims, maxDevFor(j, outDims), func(p Point) bool {
					call(cellBase+",ct="+ctKey+ctOpt+",dir=response#"+devClass(p), p, baseReq, p.Msg)
					return true
				})
				if err != nil {
					return err
				}
				// size family: the first body-carried string (or bytes) member of the request resp. of the response holding 40 KiB,
				// 1 MiB + 1 and 5 MiB (a cap on what either side buffers must not cut or refuse a legitimate message)
				inURL := map[string]bool{}
				for _, v := range m.PathVars {
					inURL[v] = true
				}
				for _, q := range m.Query {
					inURL[q.Field] = true
				}
				bigIn := func(msg proto.Message, skipURL bool, n int) bool {
					r := msg.ProtoReflect()
					fds := r.Descriptor().Fields()
					for i := 0; i < fds.Len(); i++ {
						fd := fds.Get(i)
						if fd.IsList() || fd.IsMap() || fd.ContainingOneof() != nil || fieldRulesOf(fd) != nil {
							continue
						}
						if skipURL && inURL[string(fd.Name())] {
							continue
						}
						switch fd.Kind() {
						case protoreflect.StringKind:
							r.Set(fd, protoreflect.ValueOfString(strings.Repeat("s", n)))
							return true
						case protoreflect.BytesKind:
							r.Set(fd, protoreflect.ValueOfBytes(bytes.Repeat([]byte{0x5a}, n)))
							return true
						}
					}
					return false
				}
				for _, n := range []int{40 << 10, 1<<20 + 1, 5 << 20} {
					label := fmt.Sprintf("size_%dKiB", n>>10)
					if m.HasBody() {
						big := proto.Clone(baseReq)
						if bigIn(big, true, n) && !violatesRules(big) {
							call(cellBase+",ct="+ctKey+ctOpt+",dir=request#"+label, Point{Msg: big, Labels: []string{label}, Deviate: 1}, big, fullOut)
						}
					}
					bigOut := proto.Clone(fullOut)
					if bigIn(bigOut, false, n) {
						call(cellBase+",ct="+ctKey+ctOpt+",dir=response#"+label, Point{Msg: bigOut, Labels: []string{label}, Deviate: 1}, baseReq, bigOut)
					}
				}
			}
		}
	}
	return nil
}

// dropNegZero returns a clone in which top-level singular float fields holding -0 hold +0: a URL cannot
// distinguish them after the documented "zero values are not sent" rule, and the property text does not ask for it.
func dropNegZero(m proto.Message) proto.Message {
	c := proto.Clone(m)
	r := c.ProtoReflect()
	fds := r.Descriptor().Fields()
	for i := 0; i < fds.Len(); i++ {
		fd := fds.Get(i)
		if fd.IsList() || fd.IsMap() || !r.Has(fd) {
			continue
		}
		if (fd.Kind() == protoreflect.FloatKind || fd.Kind() == protoreflect.DoubleKind) && r.Get(fd).Float() == 0 {
			if fd.HasPresence() {
				if fd.Kind() == protoreflect.FloatKind {
					r.Set(fd, protoreflect.ValueOfFloat32(0))
				} else {
					r.Set(fd, protoreflect.ValueOfFloat64(0))
				}
			} else {
				r.Clear(fd)
			}
		}
	}
	return c
}
