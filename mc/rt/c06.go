package rt

import (
	"context"
	"errors"
	"fmt"
	sebufhttp "github.com/SebastienMelki/sebuf/http"
	"net/http"
	"sort"
	"strings"

	"verif/mc/model"

	"google.golang.org/protobuf/proto"
	"google.golang.org/protobuf/reflect/protoreflect"
)

func init() {
	Drivers["c06"] = func(a []string) error { return runJob(a, c06Unit) }
}

// Inst is one wire instance handed to the orchestrator for schema validation.
type Inst struct {
	K       string            `json:"k"` // inst
	Unit    string            `json:"unit"`
	Cell    string            `json:"cell"`
	Svc     string            `json:"svc"`
	RPC     string            `json:"rpc"`
	Kind    string            `json:"kind"` // request | response_200 | response_400 | response_default
	Body    string            `json:"body,omitempty"`
	Verb    string            `json:"verb,omitempty"`
	Target  string            `json:"target,omitempty"`
	Headers map[string]string `json:"headers,omitempty"`
	Class   string            `json:"class"`
	Want    string            `json:"want,omitempty"` // response_200: the documented (M-json canonical) form of the value the handler returned
}

func c06Unit(j *Job, u *JobUnit) error {
	SchemaDescribableOnly = true
	f, err := newFixture(u.Name, nil)
	if err != nil {
		return err
	}
	hc := &http.Client{Transport: f.wire}
	seen := map[string]bool{}
	emit := func(i *Inst) {
		k := i.Svc + "|" + i.RPC + "|" + i.Kind + "|" + i.Body + "|" + i.Target
		if seen[k] {
			return
		}
		seen[k] = true
		i.K, i.Unit, i.Cell = "inst", u.Name, u.Cell
		Emit(i)
	}
	limit := int64(400)
	if j.Thorough {
		limit = 4000
	}
	devFor := func(dims []Dim) int {
		if SpaceSize(dims, -1) <= limit {
			return -1
		}
		for d := len(dims); d >= 1; d-- {
			if SpaceSize(dims, d) <= limit {
				return d
			}
		}
		return 1
	}
	for _, js := range u.Services {
		svc := FindService(u.Name, js.Name)
		if svc == nil || svc.NewClient == nil {
			continue
		}
		for mi := range js.Methods {
			m := &js.Methods[mi]
			inProbe, err := NewMessage(m.In)
			if err != nil {
				return err
			}
			outProbe, _ := NewMessage(m.Out)
			inDims := Dims(inProbe.ProtoReflect().Descriptor(), ValueOpts{Thorough: j.Thorough, PathSafe: urlBound(m)})
			outDims := Dims(outProbe.ProtoReflect().Descriptor(), ValueOpts{Thorough: j.Thorough})
			fullOut, _ := NewMessage(m.Out)
			for _, d := range outDims {
				if len(d.Alts) > 1 {
					d.Alts[1].Set(fullOut.ProtoReflect())
				}
			}
			client := svc.NewClient("http://verif.test", hc, ClientOpts{ContentType: "application/json", DefaultHeaders: requiredHeaderKVs(m)})
			record := func(class string, req, resp proto.Message, herr error) {
				if hasNonFinite(req) || (resp != nil && hasNonFinite(resp)) {
					class = "nonfinite"
				}
				f.reset()
				f.handler = func(context.Context, string, proto.Message) (proto.Message, error) { return resp, herr }
				func() {
					defer func() { recover() }()
					client.Call(context.Background(), m.Name, req, CallOpts{})
				}()
				ex := f.wire.Last()
				if ex == nil || ex.Panic != "" {
					return
				}
				hdrs := map[string]string{}
				for _, h := range m.Headers {
					if v := ex.ReqHeader.Get(h.Name); v != "" {
						hdrs[h.Name] = v
					}
				}
				if class != "rule_violation" {
					emit(&Inst{Svc: js.Name, RPC: m.Name, Kind: "request", Body: string(ex.ReqBody), Verb: ex.Method, Target: ex.Target, Headers: hdrs, Class: class})
				}
				kind := "response_default"
				switch {
				case ex.Status == 200:
					kind = "response_200"
				case ex.Status == 400:
					kind = "response_400"
				}
				if len(f.calls) > 0 || ex.Status != 404 {
					want := ""
					if kind == "response_200" && resp != nil {
						if v, err := model.Encode(resp.ProtoReflect(), model.EncOpts{}); err == nil {
							want = string(model.Marshal(v))
						}
					}
					emit(&Inst{Svc: js.Name, RPC: m.Name, Kind: kind, Body: string(ex.RespBody), Class: class, Want: want})
				}
			}
			Enumerate(m.In, inDims, devFor(inDims), func(p Point) bool {
				for _, pv := range m.PathVars {
					if fd := p.Msg.ProtoReflect().Descriptor().Fields().ByName(protoName(pv)); fd != nil && fd.Kind() == protoreflect.StringKind {
						if v := p.Msg.ProtoReflect().Get(fd).String(); v == "." || v == ".." {
							return true // dot segments never reach the route (C01-dot-segment-path-values); nothing to validate
						}
					}
				}
				if !violatesRules(p.Msg) {
					record("req:"+devClass(p), p.Msg, fullOut, nil)
				} else {
					record("rule_violation", p.Msg, fullOut, nil)
				}
				return true
			})
			base := Witness(m.In, inDims)
			if base == nil {
				continue
			}
			Enumerate(m.Out, outDims, devFor(outDims), func(p Point) bool {
				record("resp:"+devClass(p), base, p.Msg, nil)
				return true
			})

			// the handler-error family: the text an error may carry (ordinary, empty, non-ASCII with quotes and a newline, long) and
			// the built-in error message returned as such, filled and empty
			record("handler_error", base, nil, errors.New("boom"))
			record("handler_error_empty_text", base, nil, errors.New(""))
			record("handler_error_special_text", base, nil, errors.New("héllo \"quoted\"\nline2 ✓"))
			record("handler_error_long_text", base, nil, errors.New(strings.Repeat("long text ", 300)))
			record("handler_error_message", base, nil, &sebufhttp.Error{Message: "typed boom"})
			record("handler_error_message_empty", base, nil, &sebufhttp.Error{})
		}
	}
	// every message of the unit: default and fully populated value in documented form
	for _, full := range u.Messages {
		msg, err := NewMessage(full)
		if err != nil {
			continue
		}
		_ = msg
	}
	_ = sort.Strings
	_ = fmt.Sprint
	return nil
}

// hasNonFinite: some float field (at any depth) holds NaN or +-Inf.
func hasNonFinite(m proto.Message) bool {
	found := false
	var walk func(r protoreflect.Message)
	walk = func(r protoreflect.Message) {
		r.Range(func(fd protoreflect.FieldDescriptor, v protoreflect.Value) bool {
			chk := func(v protoreflect.Value) {
				switch fd.Kind() {
				case protoreflect.FloatKind, protoreflect.DoubleKind:
					if f := v.Float(); f != f || f > 1.7976931348623157e308 || f < -1.7976931348623157e308 {
						found = true
					}
				case protoreflect.MessageKind, protoreflect.GroupKind:
					walk(v.Message())
				}
			}
			switch {
			case fd.IsList():
				for i := 0; i < v.List().Len(); i++ {
					chk(v.List().Get(i))
				}
			case fd.IsMap():
				if fd.MapValue().Kind() == protoreflect.MessageKind {
					v.Map().Range(func(_ protoreflect.MapKey, mv protoreflect.Value) bool { walk(mv.Message()); return true })
				}
			default:
				chk(v)
			}
			return !found
		})
	}
	walk(m.ProtoReflect())
	return found
}
