package rt

import (
	"bufio"
	"encoding/json"
	"fmt"
	"os"
	"sync"
)

// Drivers are the per-property programs linked into the harness: harness <driver> [args...]
var Drivers = map[string]func(args []string) error{}

var (
	outMu sync.Mutex
	out   *bufio.Writer
)

// Emit writes one JSONL record to stdout.
func Emit(rec any) {
	outMu.Lock()
	defer outMu.Unlock()
	b, err := json.Marshal(rec)
	if err != nil {
		b, _ = json.Marshal(map[string]string{"k": "error", "msg": "unencodable record: " + err.Error()})
	}
	out.Write(b)
	out.WriteByte('\n')
}

func Main() {
	out = bufio.NewWriterSize(os.Stdout, 1<<20)
	defer out.Flush()
	if len(os.Args) < 2 {
		fmt.Fprintln(os.Stderr, "usage: harness <driver> [args]")
		os.Exit(2)
	}
	d, ok := Drivers[os.Args[1]]
	if !ok {
		fmt.Fprintln(os.Stderr, "unknown driver", os.Args[1])
		os.Exit(2)
	}
	if err := d(os.Args[2:]); err != nil {
		out.Flush()
		fmt.Fprintln(os.Stderr, "driver error:", err)
		os.Exit(2)
	}
}
