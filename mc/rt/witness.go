package rt

import (
	"strings"

	"buf.build/gen/go/bufbuild/protovalidate/protocolbuffers/go/buf/validate"
	protovalidate "buf.build/go/protovalidate"
	"google.golang.org/protobuf/proto"
	"google.golang.org/protobuf/reflect/protoreflect"
	"google.golang.org/protobuf/types/descriptorpb"
)

func fieldRulesOf(fd protoreflect.FieldDescriptor) *validate.FieldRules {
	o, _ := fd.Options().(*descriptorpb.FieldOptions)
	if o == nil || !proto.HasExtension(o, validate.E_Field) {
		return nil
	}
	r, _ := proto.GetExtension(o, validate.E_Field).(*validate.FieldRules)
	return r
}

var stringCandidates = []string{"user@example.com", "123e4567-e89b-12d3-a456-426614174000", "12345", "abc", "ab", "A1", "2024-01-15", "example.com",
	"https://example.com/x", "192.168.0.1", "::1", "aaaaaaaaaaaa", "x"}

// ruleCandidates proposes values likely to satisfy the field's buf.validate rules (tried first).
func ruleCandidates(fd protoreflect.FieldDescriptor) []protoreflect.Value {
	fr := fieldRulesOf(fd)
	if fr == nil {
		return nil
	}
	if fd.IsList() && fr.GetRepeated().GetItems() != nil {
		fr = fr.GetRepeated().GetItems()
	}
	var out []protoreflect.Value
	try := func(v protoreflect.Value) {
		if len(protovalidate.Scalar(fd, fr, v)) == 0 {
			out = append(out, v)
		}
	}
	switch fd.Kind() {
	case protoreflect.StringKind:
		if r := fr.GetString(); r != nil {
			if r.Const != nil {
				try(protoreflect.ValueOfString(r.GetConst()))
			}
			for _, s := range r.GetIn() {
				try(protoreflect.ValueOfString(s))
			}
			for _, s := range stringCandidates {
				try(protoreflect.ValueOfString(s))
			}
			if r.MinLen != nil {
				try(protoreflect.ValueOfString(strings.Repeat("a", int(r.GetMinLen()))))
			}
			// affix rules: the literals themselves, joined, joined around a filler, and every overlap of prefix and suffix
			// (a value may end its prefix where its suffix starts: "/" for prefix "/" suffix "/", "abc" for "ab" .. "bc")
			pre, suf, con := r.GetPrefix(), r.GetSuffix(), r.GetContains()
			if pre != "" || suf != "" || con != "" {
				pad := ""
				if r.MinLen != nil {
					pad = strings.Repeat("x", int(r.GetMinLen()))
				}
				for _, mid := range []string{con, con + "x", "x" + con + "y", con + pad} {
					try(protoreflect.ValueOfString(pre + mid + suf))
				}
				for k := 1; k <= len(pre) && k <= len(suf); k++ {
					if strings.HasSuffix(pre, suf[:k]) {
						try(protoreflect.ValueOfString(pre + suf[k:]))
					}
				}
			}
		}
	case protoreflect.BytesKind:
		if r := fr.GetBytes(); r != nil {
			// lengths at and next to every bound (not multiples of 3 included: unpadded encodings differ there), bytes that
			// encode to the characters on which the base64 alphabets differ
			mk := func(n uint64) protoreflect.Value {
				b := make([]byte, n)
				for i := range b {
					b[i] = byte(0xf8 + i%8)
				}
				return protoreflect.ValueOfBytes(b)
			}
			var lens []uint64
			for _, b := range []*uint64{r.Len, r.MinLen, r.MaxLen} {
				if b != nil {
					lens = append(lens, *b, *b+1, *b+2)
					if *b > 0 {
						lens = append(lens, *b-1)
					}
				}
			}
			for _, n := range lens {
				if n <= 64 {
					try(mk(n))
				}
			}
		}
	case protoreflect.MessageKind, protoreflect.GroupKind, protoreflect.BoolKind, protoreflect.EnumKind:
	default:
		// numeric: probe a small lattice around every bound mentioned by the rules
		frm := fr.ProtoReflect()
		tf := frm.WhichOneof(frm.Descriptor().Oneofs().ByName("type"))
		if tf == nil {
			return nil
		}
		rm := frm.Get(tf).Message()
		var seeds []protoreflect.Value
		rm.Range(func(f protoreflect.FieldDescriptor, v protoreflect.Value) bool {
			if f.IsList() {
				for i := 0; i < v.List().Len(); i++ {
					seeds = append(seeds, v.List().Get(i))
				}
			} else if f.Kind() == fd.Kind() {
				seeds = append(seeds, v)
			}
			return true
		})
		for _, s := range seeds {
			for _, d := range []int64{0, 1, -1} {
				try(addTo(fd.Kind(), s, d))
			}
		}
	}
	if len(out) > 3 && fd.Kind() != protoreflect.BytesKind {
		out = out[:3]
	}
	return out
}

func addTo(k protoreflect.Kind, v protoreflect.Value, d int64) protoreflect.Value {
	switch k {
	case protoreflect.Int32Kind, protoreflect.Sint32Kind, protoreflect.Sfixed32Kind:
		return protoreflect.ValueOfInt32(int32(v.Int() + d))
	case protoreflect.Int64Kind, protoreflect.Sint64Kind, protoreflect.Sfixed64Kind:
		return protoreflect.ValueOfInt64(v.Int() + d)
	case protoreflect.Uint32Kind, protoreflect.Fixed32Kind:
		return protoreflect.ValueOfUint32(uint32(int64(v.Uint()) + d))
	case protoreflect.Uint64Kind, protoreflect.Fixed64Kind:
		return protoreflect.ValueOfUint64(uint64(int64(v.Uint()) + d))
	case protoreflect.FloatKind:
		return protoreflect.ValueOfFloat32(float32(v.Float() + float64(d)))
	case protoreflect.DoubleKind:
		return protoreflect.ValueOfFloat64(v.Float() + float64(d))
	}
	return v
}

// Witness builds the simplest request of type full that satisfies the declared rules, with URL-bound
// fields non-empty: start from the default point and repair violating top-level fields greedily.
func Witness(full string, dims []Dim) proto.Message {
	m, _ := WitnessIdx(full, dims)
	return m
}

// WitnessIdx also returns the chosen alternative per dimension.
func WitnessIdx(full string, dims []Dim) (proto.Message, []int) {
	idx := make([]int, len(dims))
	build := func() proto.Message {
		m, err := NewMessage(full)
		if err != nil {
			return nil
		}
		for i, d := range dims {
			d.Alts[idx[i]].Set(m.ProtoReflect())
		}
		return m
	}
	for iter := 0; iter < 4*len(dims)+4; iter++ {
		m := build()
		if m == nil {
			return nil, nil
		}
		viols := protovalidate.Check(m)
		if len(viols) == 0 {
			return m, idx
		}
		fixed := false
		for _, v := range viols {
			els := v.Proto.GetField().GetElements()
			if len(els) == 0 {
				continue
			}
			name := els[0].GetFieldName()
			for i, d := range dims {
				if d.Name != name {
					continue
				}
				for a := 0; a < len(d.Alts); a++ {
					if a == idx[i] {
						continue
					}
					old := idx[i]
					idx[i] = a
					still := false
					for _, v2 := range protovalidate.Check(build()) {
						e2 := v2.Proto.GetField().GetElements()
						if len(e2) > 0 && e2[0].GetFieldName() == name {
							still = true
						}
					}
					if !still {
						fixed = true
						break
					}
					idx[i] = old
				}
			}
			if fixed {
				break
			}
		}
		if !fixed {
			return nil, nil
		}
	}
	return nil, nil
}
