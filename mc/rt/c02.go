package rt

import (
	"context"
	"encoding/json"
	"fmt"
	"math"
	"net/http"
	"strconv"
	"strings"

	"google.golang.org/protobuf/proto"
	"google.golang.org/protobuf/reflect/protoreflect"

	"verif/mc/model"
)

func init() {
	Drivers["c02"] = func(a []string) error { return runJob(a, c02Unit) }
}

// URLCase is one raw request of the URL-binding exploration as handed to the TS half (stage "tscases").
type URLCase struct {
	K        string            `json:"k"`
	ID       string            `json:"id"`
	Unit     string            `json:"unit"`
	Svc      string            `json:"svc"`
	RPC      string            `json:"rpc"`
	CellBase string            `json:"cell_base"`
	Cell     string            `json:"cell"`
	Kind     string            `json:"kind"` // valid | bad | unjudged
	Label    string            `json:"label"`
	Verb     string            `json:"verb"`
	Target   string            `json:"target"`
	Headers  map[string]string `json:"headers"`
	Body     []byte            `json:"body"`
	HasBody  bool              `json:"has_body"`
	Loc      string            `json:"loc"`       // path | query
	Field    string            `json:"field"`     // proto name of the slot under test
	JSONName string            `json:"json_name"` // its JSON name
	// Want: for valid cases the documented JSON form (explicit: defaults spelled out) of every URL-bound field of the request
	Want json.RawMessage `json:"want,omitempty"`
}

type urlCase struct {
	label string
	raw   []string                                                      // raw (unescaped) occurrences; nil = parameter absent
	bad   bool                                                          // not convertible to the field's kind
	want  func(m protoreflect.Message, fd protoreflect.FieldDescriptor) // sets the expected value
}

func urlCases(fd protoreflect.FieldDescriptor, thorough bool, isPath bool) []urlCase {
	var out []urlCase
	for _, v := range plainScalarValues(fd, thorough) {
		v := v
		s := scalarString(fd, v)
		if isPath && (s == "" || s == "." || s == "..") {
			continue
		}
		if fd.IsList() {
			out = append(out, urlCase{label: "valid:" + label(fd, v), raw: []string{s}, want: func(m protoreflect.Message, fd protoreflect.FieldDescriptor) { m.Mutable(fd).List().Append(v) }})
			continue
		}
		out = append(out, urlCase{label: "valid:" + label(fd, v), raw: []string{s}, want: func(m protoreflect.Message, fd protoreflect.FieldDescriptor) { m.Set(fd, v) }})
	}
	if !fd.IsList() && fd.Kind() != protoreflect.StringKind {
		z := zeroValue(fd)
		out = append(out, urlCase{label: "valid:zero", raw: []string{scalarString(fd, z)}, want: func(m protoreflect.Message, fd protoreflect.FieldDescriptor) {
			if fd.HasPresence() {
				m.Set(fd, z)
			}
		}})
	}
	// a decimal integer may carry leading zeros ("08" is eight, not octal and not malformed)
	switch fd.Kind() {
	case protoreflect.Int32Kind, protoreflect.Sint32Kind, protoreflect.Sfixed32Kind:
		lz := protoreflect.ValueOfInt32(8)
		out = append(out, urlCase{label: "valid:leading_zero", raw: []string{"08"}, want: func(m protoreflect.Message, fd protoreflect.FieldDescriptor) { setOrAppend(m, fd, lz) }})
	case protoreflect.Int64Kind, protoreflect.Sint64Kind, protoreflect.Sfixed64Kind:
		lz := protoreflect.ValueOfInt64(10)
		out = append(out, urlCase{label: "valid:leading_zero", raw: []string{"010"}, want: func(m protoreflect.Message, fd protoreflect.FieldDescriptor) { setOrAppend(m, fd, lz) }})
	case protoreflect.Uint32Kind, protoreflect.Fixed32Kind:
		lz := protoreflect.ValueOfUint32(9)
		out = append(out, urlCase{label: "valid:leading_zero", raw: []string{"009"}, want: func(m protoreflect.Message, fd protoreflect.FieldDescriptor) { setOrAppend(m, fd, lz) }})
	case protoreflect.Uint64Kind, protoreflect.Fixed64Kind:
		lz := protoreflect.ValueOfUint64(755)
		out = append(out, urlCase{label: "valid:leading_zero", raw: []string{"0755"}, want: func(m protoreflect.Message, fd protoreflect.FieldDescriptor) { setOrAppend(m, fd, lz) }})
	}
	var bads []string
	switch fd.Kind() {
	case protoreflect.Int32Kind, protoreflect.Sint32Kind, protoreflect.Sfixed32Kind:
		bads = []string{"abc", "2147483648", "-2147483649", "1.5", "0x10", "1e3", "0b11", "1_000", "+-1"}
	case protoreflect.Int64Kind, protoreflect.Sint64Kind, protoreflect.Sfixed64Kind:
		bads = []string{"abc", "9223372036854775808", "-9223372036854775809", "1.5", "0x1f", "0o17", "1_000"}
	case protoreflect.Uint32Kind, protoreflect.Fixed32Kind:
		bads = []string{"abc", "-1", "4294967296", "0x10", "1_0"}
	case protoreflect.Uint64Kind, protoreflect.Fixed64Kind:
		bads = []string{"abc", "-1", "18446744073709551616", "0x10", "1_0"}
	case protoreflect.BoolKind:
		bads = []string{"maybe", "2", "yes"}
	case protoreflect.FloatKind:
		// not a number, and numbers beyond the range of the 32-bit kind
		bads = []string{"abc", "1,5", "--1", "1e39", "-3.5e38", "4e38", "1e400", "0x1p200"}
	case protoreflect.DoubleKind:
		bads = []string{"abc", "1,5", "--1", "1e400", "-1e309"}
	}
	// exponent and fraction spellings of representable values
	switch fd.Kind() {
	case protoreflect.FloatKind:
		for _, sp := range [][2]string{{"1e3", "1000"}, {"3.4e38", "3.4e38"}, {"1E-5", "0.00001"}, {".5", "0.5"}, {"-0.25", "-0.25"}} {
			f, _ := strconv.ParseFloat(sp[1], 32)
			v := protoreflect.ValueOfFloat32(float32(f))
			out = append(out, urlCase{label: "valid:spelling:" + sp[0], raw: []string{sp[0]}, want: func(m protoreflect.Message, fd protoreflect.FieldDescriptor) { setOrAppend(m, fd, v) }})
		}
	case protoreflect.DoubleKind:
		for _, sp := range [][2]string{{"1e3", "1000"}, {"1.7e308", "1.7e308"}, {"1E-5", "0.00001"}, {".5", "0.5"}, {"1e39", "1e39"}} {
			f, _ := strconv.ParseFloat(sp[1], 64)
			v := protoreflect.ValueOfFloat64(f)
			out = append(out, urlCase{label: "valid:spelling:" + sp[0], raw: []string{sp[0]}, want: func(m protoreflect.Message, fd protoreflect.FieldDescriptor) { setOrAppend(m, fd, v) }})
		}
	}
	for _, b := range bads {
		out = append(out, urlCase{label: "malformed:" + b, raw: []string{b}, bad: true})
	}
	if len(bads) > 0 && !isPath {
		// an empty occurrence ("ids=") is not a value of a non-string kind
		out = append(out, urlCase{label: "malformed:empty", raw: []string{""}, bad: true})
	}
	if fd.IsList() {
		vals := plainScalarValues(fd, false)
		if len(vals) >= 2 {
			a, b := vals[0], vals[1]
			if fd.Kind() == protoreflect.StringKind {
				e := protoreflect.ValueOfString("")
				out = append(out, urlCase{label: "empty_occurrences", raw: []string{"", scalarString(fd, a), ""}, want: func(m protoreflect.Message, fd protoreflect.FieldDescriptor) {
					m.Mutable(fd).List().Append(e)
					m.Mutable(fd).List().Append(a)
					m.Mutable(fd).List().Append(e)
				}})
			} else if len(bads) > 0 {
				out = append(out, urlCase{label: "malformed:empty_between", raw: []string{scalarString(fd, a), "", scalarString(fd, b)}, bad: true})
			}
			out = append(out, urlCase{label: "repeated_occurrence", raw: []string{scalarString(fd, a), scalarString(fd, b)}, want: func(m protoreflect.Message, fd protoreflect.FieldDescriptor) {
				m.Mutable(fd).List().Append(a)
				m.Mutable(fd).List().Append(b)
			}})
		}
	}
	return out
}

func setOrAppend(m protoreflect.Message, fd protoreflect.FieldDescriptor, v protoreflect.Value) {
	if fd.IsList() {
		m.Mutable(fd).List().Append(v)
		return
	}
	m.Set(fd, v)
}

var _ = math.MaxInt32

func c02Unit(j *Job, u *JobUnit) error {
	t := newTally()
	defer t.flush()
	tsStage := j.Params["stage"] == "tscases"
	caseN := 0
	f, err := newFixture(u.Name, nil)
	if err != nil {
		return err
	}
	for _, js := range u.Services {
		for mi := range js.Methods {
			m := &js.Methods[mi]
			if len(m.PathVars) == 0 && len(m.Query) == 0 {
				continue
			}
			probe, err := NewMessage(m.In)
			if err != nil {
				return err
			}
			md := probe.ProtoReflect().Descriptor()
			dims := Dims(md, ValueOpts{PathSafe: urlBound(m)})
			base := Witness(m.In, dims)
			if base == nil {
				return fmt.Errorf("no witness for %s", m.Name)
			}
			outDefault, _ := NewMessage(m.Out)
			f.handler = func(context.Context, string, proto.Message) (proto.Message, error) { return outDefault, nil }
			hdr := http.Header{"Content-Type": {"application/json"}}
			for _, h := range m.Headers {
				if h.Required {
					hdr[h.Name] = []string{ValidHeaderValue(h)}
				}
			}
			urlFields := map[string]bool{}
			for _, pv := range m.PathVars {
				urlFields[pv] = true
			}
			for _, q := range m.Query {
				urlFields[q.Field] = true
			}
			// bodies
			type bodyCase struct {
				label string
				body  func(req proto.Message) []byte
			}
			bodies := []bodyCase{{"absent", func(proto.Message) []byte { return nil }}}
			if m.HasBody() {
				bodies = append(bodies,
					bodyCase{"empty", func(proto.Message) []byte { return []byte{} }},
					bodyCase{"empty_object", func(proto.Message) []byte { return []byte("{}") }},
					bodyCase{"object_omitting_url_fields", func(req proto.Message) []byte {
						c := proto.Clone(req)
						r := c.ProtoReflect()
						for n := range urlFields {
							if fd := md.Fields().ByName(protoName(n)); fd != nil {
								r.Clear(fd)
							}
						}
						// give the body something to say: set the first body field that is still unset
						for i := 0; i < md.Fields().Len(); i++ {
							fd := md.Fields().Get(i)
							if urlFields[string(fd.Name())] || r.Has(fd) || fd.IsList() || fd.IsMap() || fd.Kind() != protoreflect.StringKind {
								continue
							}
							r.Set(fd, protoreflect.ValueOfString("from-body"))
							break
						}
						v, err := model.Encode(r, model.EncOpts{})
						if err != nil {
							return []byte("{}")
						}
						return model.Marshal(v)
					}})
			}
			type slot struct {
				field, param string
				path, req    bool
			}
			var slots []slot
			for _, pv := range m.PathVars {
				slots = append(slots, slot{pv, pv, true, true})
			}
			for _, q := range m.Query {
				slots = append(slots, slot{q.Field, q.Name, false, q.Required})
			}
			for _, sl := range slots {
				fd := md.Fields().ByName(protoName(sl.field))
				if fd == nil {
					continue
				}
				loc := "query"
				if sl.path {
					loc = "path"
				}
				cellBase := fmt.Sprintf("%s,rpc=%s.%s,verb=%s,loc=%s,kind=%s,card=%s", u.Cell, js.Name, m.Name, m.Verb, loc, fd.Kind(), cardOf(fd))
				cases := urlCases(fd, j.Thorough, sl.path)
				if !sl.path {
					if sl.req {
						cases = append(cases, urlCase{label: "missing_required", raw: nil, bad: true})
					} else {
						cases = append(cases, urlCase{label: "missing_optional", raw: nil, want: func(protoreflect.Message, protoreflect.FieldDescriptor) {}})
					}
					if !fd.IsList() {
						vals := plainScalarValues(fd, false)
						if len(vals) >= 2 {
							cases = append(cases, urlCase{label: "repeated_occurrence_singular", raw: []string{scalarString(fd, vals[0]), scalarString(fd, vals[1])}})
						}
					}
				}
				for _, uc := range cases {
					for _, bc := range bodies {
						// request = base with this slot replaced
						req := proto.Clone(base)
						rr := req.ProtoReflect()
						rr.Clear(fd)
						target, _ := RenderRequest(m, req) // other URL fields rendered from base
						// now inject this slot's raw occurrences
						if sl.path {
							// RenderRequest substituted the (cleared) value as empty; rebuild with placeholder
							target = renderWithSlot(m, req, sl.field, uc.raw)
						} else {
							for _, raw := range uc.raw {
								sep := "?"
								if strings.Contains(target, "?") {
									sep = "&"
								}
								target += sep + queryEscape(sl.param) + "=" + queryEscape(raw)
							}
						}
						body := bc.body(req)
						if tsStage {
							caseN++
							cell := fmt.Sprintf("%s,body=%s#%s", cellBase, bc.label, strings.SplitN(uc.label, ":", 2)[0])
							uc2 := &URLCase{K: "urlcase", ID: fmt.Sprintf("%s|%s|%s|%06d", u.Name, js.Name, m.Name, caseN), Unit: u.Name, Svc: js.Name, RPC: m.Name, CellBase: cellBase, Cell: cell,
								Label: uc.label, Verb: m.Verb, Target: target, Headers: map[string]string{}, Body: body, HasBody: body != nil, Loc: loc, Field: sl.field, JSONName: fd.JSONName()}
							for k, v := range hdr {
								uc2.Headers[k] = v[0]
							}
							switch {
							case uc.bad:
								uc2.Kind = "bad"
							case uc.want == nil:
								uc2.Kind = "unjudged"
							default:
								uc2.Kind = "valid"
								wantMsg := proto.Clone(req)
								uc.want(wantMsg.ProtoReflect(), fd)
								if violatesRules(wantMsg) {
									continue
								}
								for i := 0; i < md.Fields().Len(); i++ {
									if bf := md.Fields().Get(i); !urlFields[string(bf.Name())] {
										wantMsg.ProtoReflect().Clear(bf)
									}
								}
								v, err := model.Encode(wantMsg.ProtoReflect(), model.EncOpts{Explicit: true})
								if err != nil {
									continue
								}
								// only the URL-bound members: the rest of the request is the body's business
								if vm, ok := v.(map[string]any); ok {
									keep := map[string]bool{}
									for n := range urlFields {
										if ufd := md.Fields().ByName(protoName(n)); ufd != nil {
											keep[ufd.JSONName()] = true
										}
									}
									for k := range vm {
										if !keep[k] {
											delete(vm, k)
										}
									}
								}
								uc2.Want = model.Marshal(v)
							}
							Emit(uc2)
							continue
						}
						// framing family: a body also travels with unknown length (chunked transfer)
						framings := []string{""}
						if len(body) > 0 {
							framings = append(framings, "chunked")
						}
						for _, framing := range framings {
							f.reset()
							send, ftag := f.wire.Do, ""
							if framing == "chunked" {
								send, ftag = f.wire.DoChunked, ",framing=chunked"
							}
							ex, err := send(m.Verb, target, hdr, body)
							if err != nil {
								return fmt.Errorf("%s %s: %w", m.Verb, target, err)
							}
							cell := fmt.Sprintf("%s,body=%s%s#%s", cellBase, bc.label, ftag, strings.SplitN(uc.label, ":", 2)[0])
							line := fmt.Sprintf("%s %s body=%q%s -> %d %s", m.Verb, target, body, ftag, ex.Status, clip(ex.RespBody))
							switch {
							case ex.Panic != "":
								t.viol(cell, "panic", clipS(ex.Panic), []string{uc.label})
								t.hit(cellBase, "panic", true)
							case uc.bad:
								if len(f.calls) > 0 {
									sym := "bad_url_value_dispatched"
									if uc.label == "missing_required" {
										sym = "missing_required_dispatched"
									}
									t.viol(cell, sym, line, []string{uc.label})
									t.hit(cellBase, sym, true)
								} else if ex.Status != 400 {
									t.viol(cell, "not_400", line, []string{uc.label})
									t.hit(cellBase, "not_400", true)
								} else {
									ve, derr := decodeViolations(ex.RespBody, "application/json")
									named := false
									for _, fl := range violationFields(ve) {
										if fl == sl.field || fl == fd.JSONName() {
											named = true
										}
									}
									if derr != nil || !named {
										t.viol(cell, "violation_names_wrong_field", line, []string{uc.label})
										t.hit(cellBase, "violation_names_wrong_field", true)
									} else {
										t.hit(cellBase, "rejected_400_naming_field", true)
									}
								}
							case uc.want == nil:
								// not judged beyond "no crash" (repeated occurrence of a singular parameter)
								if ex.Status >= 500 {
									t.viol(cell, "status_5xx", line, []string{uc.label})
								}
								t.hit(cellBase, "unjudged_no_crash", false)
							default:
								// the request the contract describes: URL-bound fields from the URL, the rest from the body
								full := proto.Clone(req)
								uc.want(full.ProtoReflect(), fd)
								if bc.label != "object_omitting_url_fields" {
									for i := 0; i < md.Fields().Len(); i++ {
										if bf := md.Fields().Get(i); !urlFields[string(bf.Name())] {
											full.ProtoReflect().Clear(bf)
										}
									}
								}
								if violatesRules(full) {
									t.hit(cellBase, "skipped_rule_violating", false)
									continue
								}
								if len(f.calls) != 1 {
									t.viol(cell, "valid_url_value_not_dispatched", line, []string{uc.label})
									t.hit(cellBase, "valid_url_value_not_dispatched", true)
									continue
								}
								// expected: every URL-bound field carries the URL value (the body does not mention them)
								wantMsg := proto.Clone(req)
								uc.want(wantMsg.ProtoReflect(), fd)
								seen := f.seen[0].ProtoReflect()
								bad := ""
								for n := range urlFields {
									ufd := md.Fields().ByName(protoName(n))
									if ufd == nil {
										continue
									}
									a, b := wantMsg.ProtoReflect().Get(ufd), seen.Get(ufd)
									if !valueEqual(ufd, a, b) || wantMsg.ProtoReflect().Has(ufd) != seen.Has(ufd) && ufd.HasPresence() {
										bad = fmt.Sprintf("field %s: URL says %v, handler saw %v", n, a, b)
										if n == sl.field {
											break
										}
									}
								}
								if bad != "" {
									sym := "url_field_wrong"
									if !seen.Has(fd) && wantMsg.ProtoReflect().Has(fd) {
										sym = "url_field_lost"
									}
									t.viol(cell, sym, bad+" | "+line, []string{uc.label})
									t.hit(cellBase, sym, true)
								} else {
									t.hit(cellBase, "url_value_delivered", true)
								}
							}
						}
					}
				}
			}
		}
	}
	return nil
}

func cardOf(fd protoreflect.FieldDescriptor) string {
	switch {
	case fd.IsList():
		return "repeated"
	case fd.IsMap():
		return "map"
	case fd.HasPresence():
		return "optional"
	}
	return "singular"
}

func valueEqual(fd protoreflect.FieldDescriptor, a, b protoreflect.Value) bool {
	if fd.IsList() {
		la, lb := a.List(), b.List()
		if la.Len() != lb.Len() {
			return false
		}
		for i := 0; i < la.Len(); i++ {
			if !scalarEqual(fd, la.Get(i), lb.Get(i)) {
				return false
			}
		}
		return true
	}
	return scalarEqual(fd, a, b)
}

func scalarEqual(fd protoreflect.FieldDescriptor, a, b protoreflect.Value) bool {
	switch fd.Kind() {
	case protoreflect.FloatKind, protoreflect.DoubleKind:
		x, y := a.Float(), b.Float()
		return x == y || (x != x && y != y)
	case protoreflect.BytesKind:
		return string(a.Bytes()) == string(b.Bytes())
	case protoreflect.MessageKind, protoreflect.GroupKind:
		return proto.Equal(a.Message().Interface(), b.Message().Interface())
	}
	return a.Interface() == b.Interface()
}

// renderWithSlot renders the target with one path variable replaced by a raw value.
func renderWithSlot(m *JobMethod, req proto.Message, field string, raw []string) string {
	r := req.ProtoReflect()
	fds := r.Descriptor().Fields()
	target := m.Path
	for _, pv := range m.PathVars {
		val := ""
		if pv == field {
			if len(raw) > 0 {
				val = raw[0]
			}
		} else if fd := fds.ByName(protoName(pv)); fd != nil {
			val = scalarString(fd, r.Get(fd))
		}
		target = strings.Replace(target, "{"+pv+"}", pathEscape(val), 1)
	}
	var qs []string
	for _, q := range m.Query {
		fd := fds.ByName(protoName(q.Field))
		if fd == nil || !r.Has(fd) {
			continue
		}
		if fd.IsList() {
			l := r.Get(fd).List()
			for i := 0; i < l.Len(); i++ {
				qs = append(qs, queryEscape(q.Name)+"="+queryEscape(scalarString(fd, l.Get(i))))
			}
			continue
		}
		qs = append(qs, queryEscape(q.Name)+"="+queryEscape(scalarString(fd, r.Get(fd))))
	}
	if len(qs) > 0 {
		target += "?" + strings.Join(qs, "&")
	}
	return target
}
