package rt

import (
	"bufio"
	"bytes"
	"fmt"
	"io"
	"net/http"
	"runtime/debug"
	"sync"
)

// Exchange is one request/response pair as it crossed the (in-process) wire.
type Exchange struct {
	Method     string
	Target     string // request target as sent (path?query)
	ReqHeader  http.Header
	ReqBody    []byte
	Status     int
	RespHeader http.Header
	RespBody   []byte
	// BodyReadsBeforeCommit counts Read calls on the request body before the handler committed
	// (first WriteHeader/Write) its response.
	BodyReadsBeforeCommit int
	Panic                 string
	WriteHeaderCalls      int
}

// Wire is an http.RoundTripper that serialises the request to bytes, parses it back as a server would,
// serves it with Handler, serialises the response and parses it back as a client would.
type Wire struct {
	Handler http.Handler
	mu      sync.Mutex
	Log     []*Exchange
	Keep    bool
	// OnExchange, if set, is called with every completed exchange (on the calling goroutine).
	OnExchange func(*Exchange)
}

type countingBody struct {
	r         io.Reader
	reads     *int
	committed *bool
}

func (c *countingBody) Read(p []byte) (int, error) {
	if !*c.committed {
		*c.reads++
	}
	return c.r.Read(p)
}
func (c *countingBody) Close() error { return nil }

type recorder struct {
	hdr       http.Header
	status    int
	body      bytes.Buffer
	committed bool
	whCalls   int
}

func (r *recorder) Header() http.Header { return r.hdr }
func (r *recorder) WriteHeader(code int) {
	r.whCalls++
	if r.committed {
		return
	}
	r.committed = true
	r.status = code
}
func (r *recorder) Write(b []byte) (int, error) {
	if !r.committed {
		r.committed = true
		r.status = 200
	}
	return r.body.Write(b)
}

// Serve runs one already-serialised request through the handler.
func (w *Wire) serve(raw []byte) (*Exchange, []byte, error) {
	req, err := http.ReadRequest(bufio.NewReader(bytes.NewReader(raw)))
	if err != nil {
		return nil, nil, fmt.Errorf("wire: request does not parse: %w", err)
	}
	body, _ := io.ReadAll(req.Body)
	ex := &Exchange{Method: req.Method, Target: req.RequestURI, ReqHeader: req.Header.Clone(), ReqBody: body}
	rec := &recorder{hdr: http.Header{}}
	req.Body = &countingBody{r: bytes.NewReader(body), reads: &ex.BodyReadsBeforeCommit, committed: &rec.committed}
	func() {
		defer func() {
			if p := recover(); p != nil {
				ex.Panic = fmt.Sprint(p) + "\n" + string(debug.Stack())
				if !rec.committed {
					rec.status = 500
					rec.committed = true
				}
			}
		}()
		w.Handler.ServeHTTP(rec, req)
	}()
	if !rec.committed {
		rec.status = 200
	}
	ex.Status = rec.status
	ex.WriteHeaderCalls = rec.whCalls
	ex.RespHeader = rec.hdr.Clone()
	ex.RespBody = append([]byte(nil), rec.body.Bytes()...)
	resp := &http.Response{StatusCode: rec.status, ProtoMajor: 1, ProtoMinor: 1, Header: rec.hdr,
		Body: io.NopCloser(bytes.NewReader(ex.RespBody)), ContentLength: int64(len(ex.RespBody))}
	var out bytes.Buffer
	if err := resp.Write(&out); err != nil {
		return ex, nil, fmt.Errorf("wire: response does not serialise: %w", err)
	}
	if w.OnExchange != nil {
		w.OnExchange(ex)
	}
	if w.Keep {
		w.mu.Lock()
		w.Log = append(w.Log, ex)
		w.mu.Unlock()
	}
	return ex, out.Bytes(), nil
}

func (w *Wire) RoundTrip(req *http.Request) (*http.Response, error) {
	var buf bytes.Buffer
	if err := req.Write(&buf); err != nil {
		return nil, fmt.Errorf("wire: request does not serialise: %w", err)
	}
	_, raw, err := w.serve(buf.Bytes())
	if err != nil {
		return nil, err
	}
	return http.ReadResponse(bufio.NewReader(bytes.NewReader(raw)), req)
}

// Last returns the most recent exchange (Keep must be set).
func (w *Wire) Last() *Exchange {
	w.mu.Lock()
	defer w.mu.Unlock()
	if len(w.Log) == 0 {
		return nil
	}
	return w.Log[len(w.Log)-1]
}

func (w *Wire) Reset() {
	w.mu.Lock()
	w.Log = nil
	w.mu.Unlock()
}

// Do sends a raw request built by the harness (not by a generated client).
func (w *Wire) Do(method, target string, hdr http.Header, body []byte) (*Exchange, error) {
	var buf bytes.Buffer
	fmt.Fprintf(&buf, "%s %s HTTP/1.1\r\nHost: verif.test\r\n", method, target)
	for k, vs := range hdr {
		for _, v := range vs {
			fmt.Fprintf(&buf, "%s: %s\r\n", k, v)
		}
	}
	if body != nil {
		fmt.Fprintf(&buf, "Content-Length: %d\r\n", len(body))
	}
	buf.WriteString("\r\n")
	buf.Write(body)
	ex, _, err := w.serve(buf.Bytes())
	return ex, err
}

// DoChunked sends the body with Transfer-Encoding: chunked (the server sees ContentLength == -1), split into
// two chunks when it has more than one byte.
func (w *Wire) DoChunked(method, target string, hdr http.Header, body []byte) (*Exchange, error) {
	var buf bytes.Buffer
	fmt.Fprintf(&buf, "%s %s HTTP/1.1\r\nHost: verif.test\r\n", method, target)
	for k, vs := range hdr {
		for _, v := range vs {
			fmt.Fprintf(&buf, "%s: %s\r\n", k, v)
		}
	}
	buf.WriteString("Transfer-Encoding: chunked\r\n\r\n")
	parts := [][]byte{body}
	if len(body) > 1 {
		parts = [][]byte{body[:len(body)/2], body[len(body)/2:]}
	}
	for _, p := range parts {
		if len(p) > 0 {
			fmt.Fprintf(&buf, "%x\r\n", len(p))
			buf.Write(p)
			buf.WriteString("\r\n")
		}
	}
	buf.WriteString("0\r\n\r\n")
	ex, _, err := w.serve(buf.Bytes())
	return ex, err
}
