package rt

import (
	"context"
	"fmt"
	"runtime"
	"sync"

	"google.golang.org/protobuf/proto"
)

func init() {
	Drivers["c17free"] = func(a []string) error { return runJob(a, c17FreeUnit) }
}

// c17FreeUnit is the supplementary free-running pass: the same call bodies as the controlled exploration,
// on real goroutines in a -race build (sampling; reported separately, never the verdict of C17).
func c17FreeUnit(j *Job, u *JobUnit) error {
	alpha, err := c17Alphabet(u)
	if err != nil {
		return err
	}
	reps := 30
	if j.Thorough {
		reps = 300
	}
	runs := 0
	for _, procs := range []int{1, 4, 16} {
		runtime.GOMAXPROCS(procs)
		for rep := 0; rep < reps; rep++ {
			w, err := newWorld(u)
			if err != nil {
				return err
			}
			w.f.wire.OnExchange = nil
			w.f.handler = func(ctx context.Context, method string, req proto.Message) (proto.Message, error) {
				for _, js := range u.Services {
					for _, m := range js.Methods {
						if js.Name+"."+m.Name == method {
							out, _ := NewMessage(m.Out)
							return out, nil
						}
					}
				}
				return nil, fmt.Errorf("unknown method")
			}
			var wg sync.WaitGroup
			for i, c := range alpha {
				if (i+rep)%3 == 0 && len(alpha) > 6 {
					continue
				}
				wg.Add(1)
				go func(c *call) {
					defer wg.Done()
					freeDo(w, c)
				}(c)
			}
			wg.Wait()
			runs++
		}
	}
	Emit(&Rec{K: "stat", Cell: u.Cell + ",scenario=freerun_race_detector", Outcome: "freerun_no_race_report", N: runs, NonTriv: true})
	return nil
}

func freeDo(w *world, c *call) {
	if c.viaRaw {
		target, body := RenderRequest(c.method, c.req)
		hdr := map[string][]string{"Content-Type": {"application/json"}}
		for _, h := range c.method.Headers {
			if h.Required && h.Name != c.dropHdr {
				hdr[h.Name] = []string{ValidHeaderValue(h)}
			}
		}
		w.f.wire.Do(c.method.Verb, target, hdr, body)
		return
	}
	w.clients[c.svc].Call(context.Background(), c.method.Name, c.req, c.opts)
}
