package rt

import (
	"fmt"
	"net/url"
	"strconv"

	"google.golang.org/protobuf/reflect/protoreflect"
)

func protoName(s string) protoreflect.Name { return protoreflect.Name(s) }

func pathEscape(s string) string  { return url.PathEscape(s) }
func queryEscape(s string) string { return url.QueryEscape(s) }

// scalarString renders a scalar the way a URL carries it (decimal integers, true/false, shortest float).
func scalarString(fd protoreflect.FieldDescriptor, v protoreflect.Value) string {
	switch fd.Kind() {
	case protoreflect.StringKind:
		return v.String()
	case protoreflect.BoolKind:
		return strconv.FormatBool(v.Bool())
	case protoreflect.FloatKind:
		return strconv.FormatFloat(v.Float(), 'g', -1, 32)
	case protoreflect.DoubleKind:
		return strconv.FormatFloat(v.Float(), 'g', -1, 64)
	case protoreflect.Uint32Kind, protoreflect.Uint64Kind, protoreflect.Fixed32Kind, protoreflect.Fixed64Kind:
		return strconv.FormatUint(v.Uint(), 10)
	case protoreflect.EnumKind:
		if ev := fd.Enum().Values().ByNumber(v.Enum()); ev != nil {
			return string(ev.Name())
		}
		return strconv.Itoa(int(v.Enum()))
	case protoreflect.BytesKind:
		return string(v.Bytes())
	case protoreflect.MessageKind, protoreflect.GroupKind:
		return fmt.Sprint(v.Message().Interface())
	}
	return strconv.FormatInt(v.Int(), 10)
}
