package rt

import (
	"bufio"
	"bytes"
	"context"
	"encoding/base64"
	"encoding/json"
	"errors"
	"fmt"
	"io"
	"net/http"
	"os"
	"sort"
	"strings"

	sebufhttp "github.com/SebastienMelki/sebuf/http"
	"google.golang.org/protobuf/proto"
	"google.golang.org/protobuf/reflect/protoreflect"

	"verif/mc/model"
)

func init() {
	Drivers["c08"] = func(a []string) error { return runJob(a, c08Unit) }
}

// TSCase is one request/response pair exchanged between Go and TypeScript artefacts.
type TSCase struct {
	K       string            `json:"k"` // case
	ID      string            `json:"id"`
	Unit    string            `json:"unit"`
	Cell    string            `json:"cell"`
	Svc     string            `json:"svc"`
	RPC     string            `json:"rpc"`
	Class   string            `json:"class"`
	ReqPB   string            `json:"req_pb"`
	RespPB  string            `json:"resp_pb"`
	ReqObj  json.RawMessage   `json:"req_obj"`  // TS-shaped request: documented JSON form, every field present
	RespObj json.RawMessage   `json:"resp_obj"` // TS-shaped response
	Headers map[string]string `json:"headers"`  // valid values of the required headers
}

func b64(b []byte) string { return base64.StdEncoding.EncodeToString(b) }
func unb64(s string) []byte {
	b, _ := base64.StdEncoding.DecodeString(s)
	return b
}

// jsSafe: every JSON number of the value is exactly representable in a JavaScript number.
func jsSafe(v any) bool {
	switch x := v.(type) {
	case json.Number:
		s := string(x)
		if strings.ContainsAny(s, ".eE") {
			return true
		}
		s = strings.TrimPrefix(s, "-")
		return len(s) < 16 || (len(s) == 16 && s <= "9007199254740992")
	case []any:
		for _, e := range x {
			if !jsSafe(e) {
				return false
			}
		}
	case map[string]any:
		for _, e := range x {
			if !jsSafe(e) {
				return false
			}
		}
	}
	return true
}

func tsObj(m proto.Message) (json.RawMessage, bool) {
	v, err := model.Encode(m.ProtoReflect(), model.EncOpts{Explicit: true})
	if err != nil || !jsSafe(v) {
		return nil, false
	}
	return json.RawMessage(model.Marshal(v)), true
}

type recRT struct {
	last *http.Request
	body []byte
}

func (r *recRT) RoundTrip(req *http.Request) (*http.Response, error) {
	r.last = req
	r.body = nil
	if req.Body != nil {
		r.body, _ = io.ReadAll(req.Body)
	}
	resp := &http.Response{StatusCode: 200, ProtoMajor: 1, ProtoMinor: 1, Header: http.Header{"Content-Type": {"application/json"}},
		Body: io.NopCloser(strings.NewReader("{}")), ContentLength: 2, Request: req}
	return resp, nil
}

func readJSONL(path string, fn func(raw []byte) error) error {
	f, err := os.Open(path)
	if err != nil {
		return err
	}
	defer f.Close()
	sc := bufio.NewScanner(f)
	sc.Buffer(make([]byte, 1<<20), 1<<26)
	for sc.Scan() {
		if len(bytes.TrimSpace(sc.Bytes())) == 0 {
			continue
		}
		if err := fn(append([]byte(nil), sc.Bytes()...)); err != nil {
			return err
		}
	}
	return sc.Err()
}

func c08Unit(j *Job, u *JobUnit) error {
	SchemaDescribableOnly = true
	switch j.Params["stage"] {
	case "cases":
		return c08Cases(j, u)
	case "serve":
		return c08Serve(j, u)
	case "goclient_record":
		return c08GoRecord(j, u)
	case "goclient_finish":
		return c08GoFinish(j, u)
	case "gohelpers":
		return c08GoHelpers(j, u)
	}
	return fmt.Errorf("unknown stage %q", j.Params["stage"])
}

func c08Cases(j *Job, u *JobUnit) error {
	limit := int64(40)
	if j.Thorough {
		limit = 400
	}
	devFor := func(dims []Dim) int {
		if SpaceSize(dims, -1) <= limit {
			return -1
		}
		for d := len(dims); d >= 1; d-- {
			if SpaceSize(dims, d) <= limit {
				return d
			}
		}
		return 1
	}
	n := 0
	for _, js := range u.Services {
		for mi := range js.Methods {
			m := &js.Methods[mi]
			inProbe, err := NewMessage(m.In)
			if err != nil {
				return err
			}
			outProbe, _ := NewMessage(m.Out)
			inDims := Dims(inProbe.ProtoReflect().Descriptor(), ValueOpts{Thorough: j.Thorough, PathSafe: urlBound(m)})
			outDims := Dims(outProbe.ProtoReflect().Descriptor(), ValueOpts{Thorough: j.Thorough})
			fullOut, _ := NewMessage(m.Out)
			for _, d := range outDims {
				if len(d.Alts) > 1 {
					d.Alts[1].Set(fullOut.ProtoReflect())
				}
			}
			hdrs := map[string]string{}
			for _, h := range m.Headers {
				if h.Required {
					hdrs[h.Name] = ValidHeaderValue(h)
				}
			}
			emitCase := func(class string, req, resp proto.Message) {
				ro, ok1 := tsObj(req)
				so, ok2 := tsObj(resp)
				if !ok1 || !ok2 || hasNonFinite(req) || hasNonFinite(resp) {
					return
				}
				n++
				rp, _ := proto.Marshal(req)
				sp, _ := proto.Marshal(resp)
				Emit(&TSCase{K: "case", ID: fmt.Sprintf("%s/%s.%s/%d", u.Name, js.Name, m.Name, n), Unit: u.Name, Cell: u.Cell, Svc: js.Name, RPC: m.Name, Class: class,
					ReqPB: b64(rp), RespPB: b64(sp), ReqObj: ro, RespObj: so, Headers: hdrs})
			}
			for pi, tag := range []string{"probe1", "probe2"} {
				if pm := probeMessage(m.In, pi); pm != nil {
					emitCase(tag, pm, fullOut)
				}
			}
			if j.Params["probes_only"] == "1" {
				continue
			}
			Enumerate(m.In, inDims, devFor(inDims), func(p Point) bool {
				if !violatesRules(p.Msg) {
					cls := "req:" + devClass(p)
					for _, pv := range m.PathVars {
						if fd := p.Msg.ProtoReflect().Descriptor().Fields().ByName(protoName(pv)); fd != nil && fd.Kind() == protoreflect.StringKind {
							if v := p.Msg.ProtoReflect().Get(fd).String(); v == "." || v == ".." {
								cls = "dotsegment"
							}
						}
					}
					emitCase(cls, p.Msg, fullOut)
				}
				return true
			})
			base := Witness(m.In, inDims)
			if base == nil {
				continue
			}
			Enumerate(m.Out, outDims, devFor(outDims), func(p Point) bool {
				emitCase("resp:"+devClass(p), base, p.Msg)
				return true
			})
		}
	}
	return nil
}

// wireReq is a recorded request travelling between the two worlds.
type wireReq struct {
	Method  string            `json:"method"`
	URL     string            `json:"url"`
	Headers map[string]string `json:"headers"`
	Body    *string           `json:"body"`
	BodyB64 *string           `json:"bodyB64,omitempty"`
}

func findMethod(u *JobUnit, svc, rpc string) *JobMethod {
	for si := range u.Services {
		if u.Services[si].Name != svc {
			continue
		}
		for mi := range u.Services[si].Methods {
			if u.Services[si].Methods[mi].Name == rpc {
				return &u.Services[si].Methods[mi]
			}
		}
	}
	return nil
}

// c08Serve replays requests recorded from the TS client on the generated Go server.
func c08Serve(j *Job, u *JobUnit) error {
	f, err := newFixture(u.Name, nil)
	if err != nil {
		return err
	}
	return readJSONL(j.Params["in"], func(raw []byte) error {
		var in struct {
			TSCase
			Request *wireReq `json:"request"`
		}
		if err := json.Unmarshal(raw, &in); err != nil {
			return err
		}
		if in.Unit != u.Name || in.Request == nil {
			return nil
		}
		m := findMethod(u, in.Svc, in.RPC)
		if m == nil {
			return nil
		}
		resp, _ := NewMessage(m.Out)
		proto.Unmarshal(unb64(in.RespPB), resp)
		want, _ := NewMessage(m.In)
		proto.Unmarshal(unb64(in.ReqPB), want)
		f.reset()
		f.handler = func(context.Context, string, proto.Message) (proto.Message, error) { return resp, nil }
		target := in.Request.URL
		if i := strings.Index(target, "://"); i >= 0 {
			if k := strings.Index(target[i+3:], "/"); k >= 0 {
				target = target[i+3+k:]
			} else {
				target = "/"
			}
		}
		hdr := http.Header{}
		for k, v := range in.Request.Headers {
			hdr.Set(k, v)
		}
		var body []byte
		if in.Request.Body != nil {
			body = []byte(*in.Request.Body)
		}
		ex, err := f.wire.Do(in.Request.Method, target, hdr, body)
		out := map[string]any{"k": "served", "id": in.ID, "unit": in.Unit, "cell": in.Cell, "svc": in.Svc, "rpc": in.RPC, "class": in.Class}
		if err != nil {
			out["wire_error"] = err.Error()
			Emit(out)
			return nil
		}
		out["status"] = ex.Status
		out["headers"] = map[string]string{"Content-Type": ex.RespHeader.Get("Content-Type")}
		out["bodyB64"] = b64(ex.RespBody)
		out["line"] = fmt.Sprintf("%s %s body=%s", in.Request.Method, target, clip(body))
		out["dispatched"] = len(f.calls)
		if len(f.calls) > 0 {
			out["handler_rpc"] = f.calls[0]
			out["request_equal"] = equalNorm(dropNegZero(want), dropNegZero(f.seen[0]))
			out["seen"] = protoText(f.seen[0])
			out["want"] = protoText(want)
		}
		if ex.Panic != "" {
			out["panic"] = clipS(ex.Panic)
		}
		Emit(out)
		return nil
	})
}

// c08GoRecord records what the generated Go client sends for every case.
func c08GoRecord(j *Job, u *JobUnit) error {
	return readJSONL(j.Params["in"], func(raw []byte) error {
		var in TSCase
		if err := json.Unmarshal(raw, &in); err != nil {
			return err
		}
		if in.Unit != u.Name || in.K != "case" {
			return nil
		}
		svc := FindService(u.Name, in.Svc)
		m := findMethod(u, in.Svc, in.RPC)
		if svc == nil || svc.NewClient == nil || m == nil {
			return nil
		}
		req, _ := NewMessage(m.In)
		proto.Unmarshal(unb64(in.ReqPB), req)
		rec := &recRT{}
		var dh []KV
		for k, v := range in.Headers {
			dh = append(dh, KV{k, v})
		}
		cl := svc.NewClient("http://verif.test", &http.Client{Transport: rec}, ClientOpts{DefaultHeaders: dh})
		func() {
			defer func() { recover() }()
			cl.Call(context.Background(), m.Name, req, CallOpts{})
		}()
		out := map[string]any{"k": "gorecorded", "id": in.ID}
		if rec.last != nil {
			hs := map[string]string{}
			for k, v := range rec.last.Header {
				hs[k] = strings.Join(v, ", ")
			}
			bb := b64(rec.body)
			out["request"] = &wireReq{Method: rec.last.Method, URL: rec.last.URL.String(), Headers: hs, BodyB64: &bb}
		}
		Emit(out)
		return nil
	})
}

// c08GoFinish feeds the TS server's responses to the generated Go client and decodes what the TS handler received.
func c08GoFinish(j *Job, u *JobUnit) error {
	return readJSONL(j.Params["in"], func(raw []byte) error {
		var in struct {
			TSCase
			Handled struct {
				Status  int               `json:"status"`
				Headers map[string]string `json:"headers"`
				BodyB64 string            `json:"bodyB64"`
				Handled *string           `json:"handled"`
				Input   json.RawMessage   `json:"input"`
				NoRoute bool              `json:"noRoute"`
				Error   string            `json:"error"`
				Thrown  json.RawMessage   `json:"thrown"`
			} `json:"ts"`
		}
		if err := json.Unmarshal(raw, &in); err != nil {
			return err
		}
		if in.Unit != u.Name {
			return nil
		}
		svc := FindService(u.Name, in.Svc)
		m := findMethod(u, in.Svc, in.RPC)
		if svc == nil || svc.NewClient == nil || m == nil {
			return nil
		}
		out := map[string]any{"k": "gofinished", "id": in.ID, "unit": in.Unit, "cell": in.Cell, "svc": in.Svc, "rpc": in.RPC, "class": in.Class}
		req, _ := NewMessage(m.In)
		proto.Unmarshal(unb64(in.ReqPB), req)
		wantResp, _ := NewMessage(m.Out)
		proto.Unmarshal(unb64(in.RespPB), wantResp)
		// what the TS handler received, read as the documented JSON form
		if in.Handled.Handled != nil && len(in.Handled.Input) > 0 {
			got, _ := NewMessage(m.In)
			if err := entryUnmarshal(in.Handled.Input, got); err != nil {
				out["input_undecodable"] = err.Error() + " | " + clip(in.Handled.Input)
			} else {
				out["input_equal"] = equalNorm(dropNegZero(req), dropNegZero(got))
				out["input_seen"] = protoText(got)
				out["input_want"] = protoText(req)
			}
			out["input_raw"] = clip(in.Handled.Input)
		}
		ex := &Exchange{Status: in.Handled.Status, RespHeader: http.Header{}, RespBody: unb64(in.Handled.BodyB64)}
		for k, v := range in.Handled.Headers {
			ex.RespHeader.Set(k, v)
		}
		if in.Handled.Status == 0 {
			out["no_response"] = in.Handled.Error + string(in.Handled.Thrown)
			Emit(out)
			return nil
		}
		cl := svc.NewClient("http://verif.test", &http.Client{Transport: cannedTransport{ex}}, ClientOpts{})
		var res proto.Message
		var cerr error
		var pan any
		func() {
			defer func() { pan = recover() }()
			res, cerr = cl.Call(context.Background(), m.Name, req, CallOpts{})
		}()
		switch {
		case pan != nil:
			out["client_panic"] = fmt.Sprint(pan)
		case cerr != nil:
			out["client_error"] = cerr.Error()
			var ve *sebufhttp.ValidationError
			if errors.As(cerr, &ve) {
				out["client_error_type"] = "ValidationError"
			}
		default:
			out["response_equal"] = res != nil && equalNorm(dropNegZero(wantResp), dropNegZero(res))
			out["response_got"] = protoText(res)
			out["response_want"] = protoText(wantResp)
		}
		out["status"] = in.Handled.Status
		out["ts_body"] = clip(ex.RespBody)
		Emit(out)
		return nil
	})
}

// c08GoHelpers calls every typed header helper of the generated Go client with a marker and reports the header it sets.
func c08GoHelpers(j *Job, u *JobUnit) error {
	for _, js := range u.Services {
		svc := FindService(u.Name, js.Name)
		if svc == nil || svc.NewClient == nil || len(js.Methods) == 0 {
			continue
		}
		for mi := range js.Methods {
			m := &js.Methods[mi]
			probe, err := NewMessage(m.In)
			if err != nil {
				return err
			}
			req := Witness(m.In, Dims(probe.ProtoReflect().Descriptor(), ValueOpts{PathSafe: urlBound(m)}))
			if req == nil {
				continue
			}
			try := func(level, helper string) {
				rec := &recRT{}
				marker := "hv-" + helper
				co, ko := ClientOpts{}, CallOpts{}
				if level == "client" {
					co.Helpers = []KV{{helper, marker}}
				} else {
					ko.Helpers = []KV{{helper, marker}}
				}
				var pan any
				func() {
					defer func() { pan = recover() }()
					cl := svc.NewClient("http://verif.test", &http.Client{Transport: rec}, co)
					cl.Call(context.Background(), m.Name, req, ko)
				}()
				var under []string
				if rec.last != nil {
					for k, vs := range rec.last.Header {
						for _, v := range vs {
							if v == marker {
								under = append(under, k)
							}
						}
					}
				}
				Emit(map[string]any{"k": "gohelper", "unit": u.Name, "cell": u.Cell, "svc": js.Name, "rpc": m.Name, "first": fmt.Sprint(mi == 0), "helper": helper, "level": level, "under": under, "panic": fmt.Sprint(pan)})
			}
			for _, h := range svc.ClientHelpers {
				try("client", h)
			}
			for _, h := range svc.CallHelpers {
				try("call", h)
			}
			// option precedence and isolation: for every declared header name (as spelled) and three undeclared spellings, the
			// generic options in every combination of client default x per-call value, and a plain call after a per-call one
			names := []string{"X-Custom-Hdr", "x-lower-custom", "X-ALLCAPS-ID"}
			for _, hd := range append(append([]JobHeader{}, m.SvcHeaders...), m.MethHeaders...) {
				names = append(names, hd.Name)
			}
			seenName := map[string]bool{}
			for _, name := range names {
				if seenName[name] {
					continue
				}
				seenName[name] = true
				for _, mode := range []string{"default_only", "call_only", "both", "both_then_plain"} {
					rec := &recRT{}
					co, ko := ClientOpts{}, CallOpts{}
					if mode != "call_only" {
						co.DefaultHeaders = []KV{{name, "dv"}}
					}
					if mode != "default_only" {
						ko.Headers = []KV{{name, "cv"}}
					}
					want := "cv"
					if mode == "default_only" || mode == "both_then_plain" {
						want = "dv"
					}
					var pan any
					func() {
						defer func() { pan = recover() }()
						cl := svc.NewClient("http://verif.test", &http.Client{Transport: rec}, co)
						cl.Call(context.Background(), m.Name, req, ko)
						if mode == "both_then_plain" {
							cl.Call(context.Background(), m.Name, req, CallOpts{})
						}
					}()
					var got []string
					if rec.last != nil {
						for k, vs := range rec.last.Header {
							if strings.EqualFold(k, name) {
								got = append(got, vs...)
							}
						}
					}
					sort.Strings(got)
					Emit(map[string]any{"k": "goprecedence", "unit": u.Name, "cell": u.Cell, "svc": js.Name, "rpc": m.Name, "header": name, "mode": mode, "got": got, "want": want, "panic": fmt.Sprint(pan)})
				}
			}
		}
	}
	return nil
}

// probeMessage builds a request in which every top-level scalar field carries a distinctive value
// (variant 0 and 1 differ in every field), used to recover path templates and parameter placement.
func probeMessage(full string, variant int) proto.Message {
	msg, err := NewMessage(full)
	if err != nil {
		return nil
	}
	r := msg.ProtoReflect()
	fds := r.Descriptor().Fields()
	for i := 0; i < fds.Len(); i++ {
		fd := fds.Get(i)
		if fd.IsMap() {
			continue
		}
		n := int64(1000*(variant+1) + i)
		var v protoreflect.Value
		switch fd.Kind() {
		case protoreflect.StringKind:
			v = protoreflect.ValueOfString(fmt.Sprintf("p%c%d", 'a'+variant, i))
		case protoreflect.Int32Kind, protoreflect.Sint32Kind, protoreflect.Sfixed32Kind:
			v = protoreflect.ValueOfInt32(int32(n))
		case protoreflect.Int64Kind, protoreflect.Sint64Kind, protoreflect.Sfixed64Kind:
			v = protoreflect.ValueOfInt64(n)
		case protoreflect.Uint32Kind, protoreflect.Fixed32Kind:
			v = protoreflect.ValueOfUint32(uint32(n))
		case protoreflect.Uint64Kind, protoreflect.Fixed64Kind:
			v = protoreflect.ValueOfUint64(uint64(n))
		case protoreflect.BoolKind:
			v = protoreflect.ValueOfBool(variant == 0)
		case protoreflect.FloatKind:
			v = protoreflect.ValueOfFloat32(float32(n) + 0.5)
		case protoreflect.DoubleKind:
			v = protoreflect.ValueOfFloat64(float64(n) + 0.25)
		default:
			continue
		}
		if fd.IsList() {
			r.Mutable(fd).List().Append(v)
		} else {
			r.Set(fd, v)
		}
	}
	return msg
}
