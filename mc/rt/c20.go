package rt

import (
	"context"
	"fmt"
	"net/http"
	"sort"
	"strconv"
	"strings"

	"google.golang.org/protobuf/proto"
	"google.golang.org/protobuf/reflect/protoreflect"

	"verif/mc/vrand"
)

func init() {
	Drivers["c20"] = func(a []string) error { return runJob(a, c20Unit) }
}

func c20Unit(j *Job, u *JobUnit) error {
	t := newTally()
	defer t.flush()
	f, err := newFixture(u.Name, nil)
	if err != nil {
		return err
	}
	for _, js := range u.Services {
		svc := FindService(u.Name, js.Name)
		if svc == nil || svc.NewMock == nil {
			return fmt.Errorf("service %s has no mock", js.Name)
		}
		mock := svc.NewMock()
		for mi := range js.Methods {
			m := &js.Methods[mi]
			probe, err := NewMessage(m.In)
			if err != nil {
				return err
			}
			dims := Dims(probe.ProtoReflect().Descriptor(), ValueOpts{PathSafe: urlBound(m)})
			req := Witness(m.In, dims)
			if req == nil {
				return fmt.Errorf("no witness for %s", m.Name)
			}
			target, body := RenderRequest(m, req)
			cellBase := fmt.Sprintf("%s,rpc=%s.%s", u.Cell, js.Name, m.Name)
			// exhaustive enumeration of the mock's random choices (odometer over observed arities)
			choices := []int{}
			runs := 0
			seen := map[string]map[string]bool{} // message.field -> values observed over the whole choice space
			capped := false
			for {
				runs++
				vrand.Begin(choices)
				var resp proto.Message
				var merr error
				var pan any
				func() {
					defer func() { pan = recover() }()
					resp, merr = mock(context.Background(), m.Name, req)
				}()
				arity := vrand.Trace()
				cell := fmt.Sprintf("%s#choices=%d", cellBase, len(arity))
				label := []string{fmt.Sprint(choices)}
				switch {
				case pan != nil:
					t.viol(cell, "mock_panic", fmt.Sprint(pan), label)
					t.hit(cellBase, "mock_panic", true)
				case merr != nil || resp == nil:
					t.viol(cell, "mock_error_on_valid_request", fmt.Sprintf("request %s -> %v", protoText(req), merr), label)
					t.hit(cellBase, "mock_error_on_valid_request", true)
				default:
					// (a) the generated server can serialise it
					f.reset()
					f.handler = func(context.Context, string, proto.Message) (proto.Message, error) { return resp, nil }
					hdr := http.Header{"Content-Type": {"application/json"}}
					for _, h := range m.Headers {
						if h.Required {
							hdr[h.Name] = []string{ValidHeaderValue(h)}
						}
					}
					ex, err := f.wire.Do(m.Verb, target, hdr, body)
					if err != nil {
						return err
					}
					if ex.Status != 200 || ex.Panic != "" {
						t.viol(cell, "mock_response_unserialisable", fmt.Sprintf("status %d %s for %s", ex.Status, clip(ex.RespBody), protoText(resp)), label)
						t.hit(cellBase, "mock_response_unserialisable", true)
					} else {
						Emit(&Inst{K: "inst", Unit: u.Name, Cell: u.Cell, Svc: js.Name, RPC: m.Name, Kind: "response_200", Body: string(ex.RespBody), Class: fmt.Sprintf("choices=%v", choices)})
						// (b) fields with examples take one of them
						observeExamples(u, resp.ProtoReflect(), seen)
						bad := checkExamples(u, resp.ProtoReflect(), func(sym, detail string) {
							t.viol(cell, sym, detail+" | response="+protoText(resp), label)
							t.hit(cellBase, sym, true)
						})
						if !bad {
							t.hit(cellBase, "mock_response_ok", true)
						}
					}
				}
				// next choice vector
				next := -1
				cur := make([]int, len(arity))
				copy(cur, choices)
				for i := len(arity) - 1; i >= 0; i-- {
					if cur[i]+1 < arity[i] {
						next = i
						break
					}
				}
				if next < 0 || runs > 5000 {
					if runs > 5000 {
						t.hit(cellBase, "rng_space_capped", false)
						capped = true
					}
					// (c) over the exhausted choice space every declared example that parses for the field is answered by some choice
					if !capped {
						var keys []string
						for k := range seen {
							keys = append(keys, k)
						}
						sort.Strings(keys)
						for _, k := range keys {
							for _, want := range parsableExamples(u, k) {
								if !seen[k][want] {
									t.viol(cellBase+"#coverage", "example_never_chosen", fmt.Sprintf("field %s: declared example %q is a value of the field but no sequence of random choices (%d executions, complete) makes the mock answer it; answered %v", k, want, runs, keysOf(seen[k])), nil)
									t.hit(cellBase, "example_never_chosen", true)
								}
							}
						}
					}
					Emit(&Rec{K: "space", Cell: cellBase, N: runs, Detail: fmt.Sprintf("rng choice points %v", arity)})
					break
				}
				cur[next]++
				choices = cur[:next+1]
			}
		}
	}
	return nil
}

// checkExamples verifies every set field that declares field_examples holds one of them (parsed to its type).
func checkExamples(u *JobUnit, m protoreflect.Message, report func(sym, detail string)) bool {
	bad := false
	fds := m.Descriptor().Fields()
	for i := 0; i < fds.Len(); i++ {
		fd := fds.Get(i)
		if fd.Kind() == protoreflect.MessageKind && !fd.IsList() && !fd.IsMap() && m.Has(fd) {
			if checkExamples(u, m.Get(fd).Message(), report) {
				bad = true
			}
			continue
		}
		exs := u.FieldExamples[string(m.Descriptor().FullName())+"."+string(fd.Name())]
		if len(exs) == 0 || fd.IsMap() {
			continue
		}
		if od := fd.ContainingOneof(); od != nil && !od.IsSynthetic() && !m.Has(fd) {
			continue // another member of the oneof is the selected one
		}
		var gots []string
		if fd.IsList() {
			l := m.Get(fd).List()
			for k := 0; k < l.Len(); k++ {
				gots = append(gots, scalarString(fd, l.Get(k)))
			}
			if len(gots) == 0 {
				gots = []string{"<empty list>"}
			}
		} else {
			gots = []string{scalarString(fd, m.Get(fd))}
		}
		var parsed []string
		for _, e := range exs {
			switch fd.Kind() {
			case protoreflect.StringKind:
				parsed = append(parsed, e)
			case protoreflect.BoolKind:
				if b, err := strconv.ParseBool(e); err == nil {
					parsed = append(parsed, strconv.FormatBool(b))
				}
			case protoreflect.FloatKind, protoreflect.DoubleKind:
				if x, err := strconv.ParseFloat(e, 64); err == nil {
					parsed = append(parsed, strconv.FormatFloat(x, 'g', -1, 64))
				}
			default:
				if x, err := strconv.ParseInt(e, 10, 64); err == nil {
					parsed = append(parsed, strconv.FormatInt(x, 10))
				}
			}
		}
		if len(parsed) == 0 {
			continue // no parsable example: not judged
		}
		hit, got := true, ""
		for _, g := range gots {
			one := false
			for _, p := range parsed {
				if p == g {
					one = true
				}
			}
			if !one {
				hit, got = false, g
			}
		}
		if !hit {
			report("example_not_used", fmt.Sprintf("field %s.%s = %q, declared examples %q", m.Descriptor().Name(), fd.Name(), got, exs))
			bad = true
		}
	}
	return bad
}

// observeExamples records, for every singular scalar field with declared examples, the value the mock answered.
func observeExamples(u *JobUnit, m protoreflect.Message, seen map[string]map[string]bool) {
	fds := m.Descriptor().Fields()
	for i := 0; i < fds.Len(); i++ {
		fd := fds.Get(i)
		if fd.Kind() == protoreflect.MessageKind && !fd.IsList() && !fd.IsMap() && m.Has(fd) {
			observeExamples(u, m.Get(fd).Message(), seen)
			continue
		}
		key := string(m.Descriptor().FullName()) + "." + string(fd.Name())
		if len(u.FieldExamples[key]) == 0 || fd.IsMap() || fd.IsList() || fd.Kind() == protoreflect.MessageKind {
			continue
		}
		if od := fd.ContainingOneof(); od != nil && !od.IsSynthetic() && !m.Has(fd) {
			continue
		}
		if seen[key] == nil {
			seen[key] = map[string]bool{}
		}
		seen[key][scalarString(fd, m.Get(fd))] = true
	}
}

// parsableExamples: the declared examples of message.field that are values of the field's kind, in the spelling of
// scalarString (what observeExamples records).
func parsableExamples(u *JobUnit, key string) []string {
	i := strings.LastIndex(key, ".")
	md, err := NewMessage(key[:i])
	if err != nil {
		return nil
	}
	fd := md.ProtoReflect().Descriptor().Fields().ByName(protoreflect.Name(key[i+1:]))
	if fd == nil {
		return nil
	}
	var out []string
	for _, e := range u.FieldExamples[key] {
		switch fd.Kind() {
		case protoreflect.StringKind:
			out = append(out, e)
		case protoreflect.BoolKind:
			if b, err := strconv.ParseBool(e); err == nil {
				out = append(out, strconv.FormatBool(b))
			}
		case protoreflect.FloatKind:
			if x, err := strconv.ParseFloat(e, 32); err == nil {
				out = append(out, scalarString(fd, protoreflect.ValueOfFloat32(float32(x))))
			}
		case protoreflect.DoubleKind:
			if x, err := strconv.ParseFloat(e, 64); err == nil {
				out = append(out, scalarString(fd, protoreflect.ValueOfFloat64(x)))
			}
		case protoreflect.Int32Kind, protoreflect.Sint32Kind, protoreflect.Sfixed32Kind:
			if x, err := strconv.ParseInt(e, 10, 32); err == nil {
				out = append(out, strconv.FormatInt(x, 10))
			}
		case protoreflect.Int64Kind, protoreflect.Sint64Kind, protoreflect.Sfixed64Kind:
			if x, err := strconv.ParseInt(e, 10, 64); err == nil {
				out = append(out, strconv.FormatInt(x, 10))
			}
		case protoreflect.Uint32Kind, protoreflect.Fixed32Kind:
			if x, err := strconv.ParseUint(e, 10, 32); err == nil {
				out = append(out, strconv.FormatUint(x, 10))
			}
		case protoreflect.Uint64Kind, protoreflect.Fixed64Kind:
			if x, err := strconv.ParseUint(e, 10, 64); err == nil {
				out = append(out, strconv.FormatUint(x, 10))
			}
		}
	}
	return out
}

func keysOf(m map[string]bool) []string {
	var out []string
	for k := range m {
		out = append(out, k)
	}
	sort.Strings(out)
	return out
}
