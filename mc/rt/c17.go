package rt

import (
	"context"
	"errors"
	"fmt"
	"net/http"
	"sort"
	"strings"

	"google.golang.org/protobuf/proto"

	sebufhttp "github.com/SebastienMelki/sebuf/http"

	"verif/mc/explore/vsched"
	"verif/mc/explore/vsync"
)

func init() {
	Drivers["c17"] = func(a []string) error { return runJob(a, c17Unit) }
}

// call is one element of the call alphabet.
type call struct {
	failHandler bool // the handler answers this call with a plain error
	useMock     bool // the handler is the emitted mock implementation of the service
	name        string
	svc         string
	method      *JobMethod
	viaRaw      bool // raw request (no generated client)
	req         proto.Message
	opts        CallOpts
	dropHdr     string
	freshClient string // non-empty: the call builds a client of its own first, with this value as default header X-Verif-Instance
}

// obs is what one call observed.
type obs struct {
	Status    int
	RespBody  string
	Seen      string // request as the handler saw it ("" if not dispatched)
	Rpc       string
	ReqHdr    string // headers of interest as they reached the server
	ClientErr string
	ClientRes string
}

func (o obs) String() string {
	return fmt.Sprintf("status=%d rpc=%s seen=%s hdr=[%s] resp=%s cerr=%s cres=%s", o.Status, o.Rpc, o.Seen, o.ReqHdr, clipS(o.RespBody), o.ClientErr, o.ClientRes)
}

// world is one fresh instance of server + shared clients.
type world struct {
	f       *fixture
	clients map[string]Client
	newCli  map[string]func(instance string) Client // per service: builds one more client instance, with one more default header
	byTh    map[int]*Exchange
	seen    map[int]string
	rpc     map[int]string
	fail    map[int]bool // thread -> the handler fails this call
	useMock map[int]bool // thread -> this call is answered by the emitted mock server
	mocks   map[string]Handler
}

var c17Shared = KV{"X-Verif-Shared", "s1"}

var c17HeadersOfInterest = []string{"Content-Type", "X-Verif-Call", "X-Verif-Shared", "X-Verif-Instance", "X-Tenant", "X-Trace", "X-Beta", "X-Api-Key", "X-Request-Id"}

func newWorld(u *JobUnit) (*world, error) { return newWorldOpts(u, "all") }

// newWorldOpts: hooks = "all" (every service is registered with the selective error hook), "first" (only the service
// registered first), "none".
func newWorldOpts(u *JobUnit, hooks string) (*world, error) {
	w := &world{clients: map[string]Client{}, newCli: map[string]func(string) Client{}, byTh: map[int]*Exchange{}, seen: map[int]string{}, rpc: map[int]string{}, fail: map[int]bool{}, useMock: map[int]bool{}, mocks: map[string]Handler{}}
	// a selective error hook, as the ErrorHandler documentation allows: validation failures get a status of the hook's choosing
	// (no body written, no message returned), every other error is left to the defaults
	hook := func(rw http.ResponseWriter, r *http.Request, err error) proto.Message {
		var ve *sebufhttp.ValidationError
		if errors.As(err, &ve) {
			rw.WriteHeader(422)
		}
		return nil
	}
	f, err := newFixtureSel(u.Name, func(i int, _ string) Hook {
		if hooks == "all" || (hooks == "first" && i == 0) {
			return hook
		}
		return nil
	})
	if err != nil {
		return nil, err
	}
	w.f = f
	f.wire.Keep = false
	f.wire.OnExchange = func(ex *Exchange) { w.byTh[vsched.Current()] = ex }
	// the handler echoes a response derived from the request so that cross-talk is visible
	f.handler = nil
	hc := &http.Client{Transport: f.wire}
	for _, js := range u.Services {
		svc := FindService(u.Name, js.Name)
		if svc == nil || svc.NewClient == nil {
			continue
		}
		// one shared client per service with the service-level required headers as defaults
		var defaults []KV
		if len(js.Methods) > 0 {
			for _, h := range js.Methods[0].SvcHeaders {
				if h.Required {
					defaults = append(defaults, KV{h.Name, ValidHeaderValue(h)})
				}
			}
		}
		w.clients[js.Name] = svc.NewClient("http://verif.test", hc, ClientOpts{DefaultHeaders: defaults, SharedCallOptions: []KV{c17Shared}})
		mk, base := svc.NewClient, defaults
		w.newCli[js.Name] = func(instance string) Client {
			return mk("http://verif.test", hc, ClientOpts{DefaultHeaders: append(append([]KV(nil), base...), KV{"X-Verif-Instance", instance})})
		}
		if svc.NewMock != nil {
			w.mocks[js.Name] = svc.NewMock()
		}
	}
	return w, nil
}

func (w *world) do(u *JobUnit, c *call, slot int) obs {
	var o obs
	th := vsched.Current()
	delete(w.byTh, th)
	w.fail[th] = c.failHandler
	w.useMock[th] = c.useMock
	if c.viaRaw {
		target, body := RenderRequest(c.method, c.req)
		hdr := http.Header{"Content-Type": {"application/json"}}
		for _, h := range c.method.Headers {
			if h.Required && h.Name != c.dropHdr {
				hdr[h.Name] = []string{ValidHeaderValue(h)}
			}
		}
		ex, err := w.f.wire.Do(c.method.Verb, target, hdr, body)
		if err != nil {
			o.ClientErr = err.Error()
			return o
		}
		w.byTh[th] = ex
	} else {
		cl := w.clients[c.svc]
		if c.freshClient != "" {
			// a second instance of the service's client, built while the shared one exists (and possibly while it is in use)
			cl = w.newCli[c.svc](c.freshClient)
		}
		res, err := cl.Call(context.Background(), c.method.Name, c.req, c.opts)
		if err != nil {
			o.ClientErr = err.Error()
		}
		if res != nil {
			o.ClientRes = protoText(res)
		}
	}
	if ex := w.byTh[th]; ex != nil {
		o.Status = ex.Status
		o.RespBody = string(ex.RespBody)
		var hs []string
		for _, h := range c17HeadersOfInterest {
			if v := ex.ReqHeader.Values(h); len(v) > 0 {
				hs = append(hs, h+"="+strings.Join(v, "|"))
			}
		}
		o.ReqHdr = strings.Join(hs, ";")
		if ex.Panic != "" {
			o.ClientErr += " SERVER PANIC: " + clipS(ex.Panic)
		}
	}
	o.Seen = w.seen[th]
	o.Rpc = w.rpc[th]
	delete(w.seen, th)
	delete(w.rpc, th)
	return o
}

// alphabet builds the call alphabet of a unit.
func c17Alphabet(u *JobUnit) ([]*call, error) {
	var out []*call
	n := 0
	for si := range u.Services {
		js := &u.Services[si]
		for mi := range js.Methods {
			m := &js.Methods[mi]
			probe, err := NewMessage(m.In)
			if err != nil {
				return nil, err
			}
			dims := Dims(probe.ProtoReflect().Descriptor(), ValueOpts{PathSafe: urlBound(m)})
			valid, widx := WitnessIdx(m.In, dims)
			if valid == nil {
				continue
			}
			var methHdr []KV
			for _, h := range m.MethHeaders {
				if h.Required {
					methHdr = append(methHdr, KV{h.Name, ValidHeaderValue(h)})
				}
			}
			n++
			out = append(out, &call{name: fmt.Sprintf("%s.%s/plain", js.Name, m.Name), svc: js.Name, method: m, req: valid, opts: CallOpts{Headers: methHdr}})
			if mi == 0 {
				out = append(out, &call{name: fmt.Sprintf("%s.%s/handler-error", js.Name, m.Name), svc: js.Name, method: m, req: valid, opts: CallOpts{Headers: methHdr}, failHandler: true})
			}
			if svc := FindService(u.Name, js.Name); svc != nil && svc.NewMock != nil {
				// answered by the emitted mock implementation (its shared state: example tables, random source); every method,
				// because which responses draw random values depends on their fields
				out = append(out, &call{name: fmt.Sprintf("%s.%s/mock", js.Name, m.Name), svc: js.Name, method: m, req: valid, opts: CallOpts{Headers: methHdr}, useMock: true})
			}
			out = append(out, &call{name: fmt.Sprintf("%s.%s/percall-header+proto", js.Name, m.Name), svc: js.Name, method: m, req: valid,
				opts: CallOpts{ContentType: "application/x-protobuf", Headers: append(append([]KV(nil), methHdr...), KV{"X-Verif-Call", fmt.Sprintf("c%d", n)})}})
			if mi == 0 {
				// a call through a client instance of its own, built with one more default header: what one instance is configured
				// with must not show on calls made through another instance of the same service
				out = append(out, &call{name: fmt.Sprintf("%s.%s/fresh-client", js.Name, m.Name), svc: js.Name, method: m, req: valid, opts: CallOpts{Headers: methHdr}, freshClient: fmt.Sprintf("i%d", n)})
			}
			if mi == 0 {
				// one call-option VALUE (built once per client) passed to several calls: first in a call that adds a header option of
				// its own after it, and alone - what one call adds must not travel with the shared value into another call
				out = append(out, &call{name: fmt.Sprintf("%s.%s/shared-option+header", js.Name, m.Name), svc: js.Name, method: m, req: valid,
					opts: CallOpts{Shared: []KV{c17Shared}, Headers: append(append([]KV(nil), methHdr...), KV{"X-Verif-Call", fmt.Sprintf("s%d", n)})}})
				out = append(out, &call{name: fmt.Sprintf("%s.%s/shared-option", js.Name, m.Name), svc: js.Name, method: m, req: valid,
					opts: CallOpts{Shared: []KV{c17Shared}, Headers: methHdr}})
			}
			// a second valid value so that requests of concurrent calls differ
			for di, d := range dims {
				if len(d.Alts) > widx[di]+1 {
					alt, _ := NewMessage(m.In)
					for k, dd := range dims {
						a := widx[k]
						if k == di {
							a = widx[di] + 1
						}
						dd.Alts[a].Set(alt.ProtoReflect())
					}
					if !violatesRules(alt) {
						out = append(out, &call{name: fmt.Sprintf("%s.%s/other-value", js.Name, m.Name), svc: js.Name, method: m, req: alt, opts: CallOpts{Headers: methHdr}})
						break
					}
				}
			}
			// rule-violating request through the raw path
			for di, d := range dims {
				found := false
				for ai := range d.Alts {
					if ai == widx[di] {
						continue
					}
					bad, _ := NewMessage(m.In)
					for k, dd := range dims {
						a := widx[k]
						if k == di {
							a = ai
						}
						dd.Alts[a].Set(bad.ProtoReflect())
					}
					if violatesRules(bad) && m.HasBody() {
						out = append(out, &call{name: fmt.Sprintf("%s.%s/rule-violation", js.Name, m.Name), svc: js.Name, method: m, viaRaw: true, req: bad})
						found = true
						break
					}
				}
				if found {
					break
				}
			}
			for _, h := range m.Headers {
				if h.Required {
					out = append(out, &call{name: fmt.Sprintf("%s.%s/missing-header", js.Name, m.Name), svc: js.Name, method: m, viaRaw: true, req: valid, dropHdr: h.Name})
					break
				}
			}
		}
	}
	return out, nil
}

func c17Unit(j *Job, u *JobUnit) error {
	t := newTally()
	defer t.flush()
	alpha, err := c17Alphabet(u)
	if err != nil {
		return err
	}
	if len(alpha) == 0 {
		return nil
	}
	install := func(w *world) {
		w.f.handler = func(ctx context.Context, method string, req proto.Message) (proto.Message, error) {
			th := vsched.Current()
			w.seen[th] = protoText(req)
			w.rpc[th] = method
			if w.fail[th] {
				return nil, fmt.Errorf("handler failed for %s", method)
			}
			if w.useMock[th] {
				if parts := strings.SplitN(method, ".", 2); len(parts) == 2 && w.mocks[parts[0]] != nil {
					return w.mocks[parts[0]](ctx, parts[1], req)
				}
			}
			// response: the default message of the output type (content does not matter, identity of the call does)
			for _, js := range u.Services {
				for _, m := range js.Methods {
					if js.Name+"."+m.Name == method {
						out, _ := NewMessage(m.Out)
						return out, nil
					}
				}
			}
			return nil, fmt.Errorf("unknown method %s", method)
		}
	}
	// isolated observations
	iso := make([]obs, len(alpha))
	for i, c := range alpha {
		vsync.ResetOnces()
		vsched.ResetState()
		w, err := newWorld(u)
		if err != nil {
			return err
		}
		install(w)
		iso[i] = w.do(u, c, 0)
	}
	// registration options are per server: a service registered WITHOUT an error hook after one registered WITH a hook must
	// behave as in a world where nobody has a hook (and the one with the hook as in a world where everybody has it)
	if svcs := Services(u.Name); len(svcs) > 1 {
		first := svcs[0].Name
		for i, c := range alpha {
			ref, kind := "none", "unhooked_service_after_hooked_one"
			if c.svc == first {
				ref, kind = "all", "hooked_service_before_unhooked_ones"
			}
			var got [2]obs
			for k, mode := range []string{"first", ref} {
				vsync.ResetOnces()
				vsched.ResetState()
				w, err := newWorldOpts(u, mode)
				if err != nil {
					return err
				}
				install(w)
				got[k] = w.do(u, c, 0)
			}
			cell := fmt.Sprintf("%s,scenario=registration_options#%s", u.Cell, c.name)
			if got[0] != got[1] {
				t.viol(cell, "registration_options_leak", fmt.Sprintf("call %s (%s): with only %s registered with an error hook {%s}, in a world where %s services have the hook {%s}", c.name, kind, first, got[0], ref, got[1]), []string{c.name})
				t.hit(u.Cell+",scenario=registration_options", "registration_options_leak", true)
			} else {
				t.hit(u.Cell+",scenario=registration_options", "options_stay_with_their_server", true)
			}
			_ = i
		}
	}
	bound := 2
	if j.Thorough {
		bound = 3
	}
	if v := j.Params["bound"]; v != "" {
		fmt.Sscanf(v, "%d", &bound)
	}
	limit := 20000
	if j.Thorough {
		limit = 400000
	}
	// scenarios: every unordered pair (with repetition) of calls, and triples built from the first calls of each kind
	type scenario struct {
		name  string
		calls []int
	}
	var scs []scenario
	for a := 0; a < len(alpha); a++ {
		for b := a; b < len(alpha); b++ {
			scs = append(scs, scenario{"pair", []int{a, b}})
		}
	}
	for a := 0; a < len(alpha) && a < 4; a++ {
		for b := a + 1; b < len(alpha) && b < 6; b++ {
			for c := b + 1; c < len(alpha) && c < 7; c++ {
				scs = append(scs, scenario{"triple", []int{a, b, c}})
			}
		}
	}
	totalExec, totalPoints := 0, 0
	maxPoints := 0
	for _, sc := range scs {
		var names []string
		for _, ci := range sc.calls {
			names = append(names, alpha[ci].name)
		}
		cellBase := fmt.Sprintf("%s,scenario=%s", u.Cell, sc.name)
		cell := cellBase + "#" + strings.Join(names, "||")
		var results []obs
		var werr error
		mk := func() []func() {
			vsync.ResetOnces()
			vsched.ResetState()
			w, err := newWorld(u)
			if err != nil {
				werr = err
				return nil
			}
			install(w)
			results = make([]obs, len(sc.calls))
			var bodies []func()
			for slot, ci := range sc.calls {
				slot, ci := slot, ci
				bodies = append(bodies, func() { results[slot] = w.do(u, alpha[ci], slot) })
			}
			return bodies
		}
		n, capped := vsched.Explore(mk, bound, limit, func(x *vsched.Execution) bool {
			totalPoints += len(x.Points)
			if len(x.Points) > maxPoints {
				maxPoints = len(x.Points)
			}
			sched := vsched.ScheduleString(x)
			switch {
			case len(x.Races) > 0:
				r := x.Races[0]
				t.viol(cell, "race("+strings.SplitN(r.ID, "@", 2)[0]+")", fmt.Sprintf("threads %d (%s, write=%v) and %d (%s, write=%v) have unordered conflicting accesses to %s | schedule %s",
					r.A, names[r.A], r.AWrite, r.B, names[r.B], r.BWrite, r.ID, sched), []string{sched})
				t.hit(cellBase, "race", true)
				return false
			case x.Deadlock:
				t.viol(cell, "deadlock", "no enabled thread | schedule "+sched, []string{sched})
				t.hit(cellBase, "deadlock", true)
				return false
			case x.Horizon:
				t.viol(cell, "harness_horizon", "execution exceeded the step horizon | schedule "+sched, []string{sched})
				return false
			case len(x.Panics) > 0:
				for th, p := range x.Panics {
					t.viol(cell, "panic", fmt.Sprintf("thread %d (%s): %s | schedule %s", th, names[th], clipS(p), sched), []string{sched})
				}
				t.hit(cellBase, "panic", true)
				return false
			}
			for slot, ci := range sc.calls {
				if results[slot] != iso[ci] {
					t.viol(cell, "result_differs_from_isolated", fmt.Sprintf("call %s: isolated {%s} but under schedule %s {%s}", names[slot], iso[ci], sched, results[slot]), []string{sched})
					t.hit(cellBase, "result_differs_from_isolated", true)
					return false
				}
			}
			return true
		})
		if werr != nil {
			return werr
		}
		totalExec += n
		if capped {
			t.hit(cellBase, "schedule_cap_hit", false)
			Emit(&Rec{K: "cap", Cell: cell, Detail: fmt.Sprintf("per-scenario cap of %d executions reached", limit)})
		}
		t.counts[cellBase+"|schedules_ok"] = &Rec{K: "stat", Cell: cellBase, Outcome: "schedules_explored_ok", N: n + countN(t.counts[cellBase+"|schedules_ok"]), NonTriv: true}
	}
	// histories: every call sequence up to depth k on one shared world vs isolated
	depth := 2
	if j.Thorough {
		depth = 3
	}
	var seq []int
	var recH func(d int) error
	hist := 0
	recH = func(d int) error {
		if d > 0 {
			vsync.ResetOnces()
			vsched.ResetState()
			w, err := newWorld(u)
			if err != nil {
				return err
			}
			install(w)
			var names []string
			for _, ci := range seq {
				names = append(names, alpha[ci].name)
			}
			for k, ci := range seq {
				got := w.do(u, alpha[ci], 0)
				if got != iso[ci] {
					cell := fmt.Sprintf("%s,scenario=history#%s", u.Cell, strings.Join(names, ">"))
					t.viol(cell, "result_differs_from_isolated", fmt.Sprintf("call %d (%s) of the sequence: isolated {%s}, in sequence {%s}", k, names[k], iso[ci], got), nil)
					t.hit(u.Cell+",scenario=history", "result_differs_from_isolated", true)
					break
				}
			}
			hist++
			t.hit(u.Cell+",scenario=history", "history_matches_isolated", true)
		}
		if d == depth {
			return nil
		}
		for ci := range alpha {
			seq = append(seq, ci)
			if err := recH(d + 1); err != nil {
				return err
			}
			seq = seq[:len(seq)-1]
		}
		return nil
	}
	if err := recH(0); err != nil {
		return err
	}
	var an []string
	for _, c := range alpha {
		an = append(an, c.name)
	}
	sort.Strings(an)
	Emit(&Rec{K: "space", Cell: u.Cell, N: totalExec, Detail: fmt.Sprintf("alphabet=%d scenarios=%d executions=%d points=%d max_points_per_execution=%d preemption_bound=%d histories=%d", len(alpha), len(scs), totalExec, totalPoints, maxPoints, bound, hist)})
	return nil
}

func countN(r *Rec) int {
	if r == nil {
		return 0
	}
	return r.N
}
