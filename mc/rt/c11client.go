package rt

import (
	"context"
	"encoding/json"
	"fmt"
	"net/http"
	"strings"

	"google.golang.org/protobuf/encoding/protojson"
	"google.golang.org/protobuf/proto"

	"verif/mc/model"
)

func init() {
	Drivers["c11client"] = func(a []string) error { return runJob(a, c11ClientUnit) }
}

// c11ClientUnit feeds arbitrary responses to the generated Go client.
func c11ClientUnit(j *Job, u *JobUnit) error {
	t := newTally()
	defer t.flush()
	for _, js := range u.Services {
		svc := FindService(u.Name, js.Name)
		if svc == nil || svc.NewClient == nil {
			continue
		}
		for mi := range js.Methods {
			m := &js.Methods[mi]
			probeIn, err := NewMessage(m.In)
			if err != nil {
				return err
			}
			dims := Dims(probeIn.ProtoReflect().Descriptor(), ValueOpts{PathSafe: urlBound(m)})
			req := Witness(m.In, dims)
			if req == nil {
				continue
			}
			out, _ := NewMessage(m.Out)
			_, custom := out.(json.Unmarshaler)
			for _, d := range Dims(out.ProtoReflect().Descriptor(), ValueOpts{}) {
				if len(d.Alts) > 1 {
					d.Alts[1].Set(out.ProtoReflect())
				}
			}
			var validJSON, validPB []byte
			if v, err := model.Encode(out.ProtoReflect(), model.EncOpts{}); err == nil {
				validJSON = model.Marshal(v)
			}
			validPB, _ = proto.Marshal(out)
			bodies := map[string][]byte{
				"empty": {}, "valid_json": validJSON, "valid_pb": validPB, "wrong_type": []byte(`[1,"x",{"a":null}]`), "scalar": []byte(`42`), "null": []byte(`null`),
				"huge": []byte(`{"a":"` + strings.Repeat("x", 1<<16) + `"}`), "invalid_utf8": []byte("{\"a\":\"\xff\xfe\"}"), "pb_garbage": {0xff, 0xff, 0xff, 0x01}, "html": []byte("<html>502 Bad Gateway</html>"),
				"deep": []byte(strings.Repeat("[", 10000) + strings.Repeat("]", 10000)),
			}
			if len(validJSON) > 1 {
				bodies["truncated_json"] = validJSON[:len(validJSON)/2]
			}
			if len(validPB) > 1 {
				bodies["truncated_pb"] = validPB[:len(validPB)-1]
			}
			for _, ct := range []string{"application/json", "application/x-protobuf"} {
				ctKey := map[string]string{"application/json": "json", "application/x-protobuf": "proto"}[ct]
				for _, status := range []int{200, 201, 204, 301, 400, 404, 418, 500, 503} {
					for _, rct := range []string{"application/json", "application/x-protobuf", "text/plain", ""} {
						for bk, body := range bodies {
							ex := &Exchange{Status: status, RespHeader: http.Header{}, RespBody: body}
							if rct != "" {
								ex.RespHeader.Set("Content-Type", rct)
							}
							client := svc.NewClient("http://verif.test", &http.Client{Transport: cannedTransport{ex}}, ClientOpts{ContentType: ct})
							var got proto.Message
							var cerr error
							var pan any
							func() {
								defer func() { pan = recover() }()
								got, cerr = client.Call(context.Background(), m.Name, req, CallOpts{})
							}()
							cellBase := fmt.Sprintf("%s,rpc=%s.%s,side=client,ct=%s", u.Cell, js.Name, m.Name, ctKey)
							cell := fmt.Sprintf("%s,status=%d#body=%s", cellBase, status, bk)
							switch {
							case pan != nil:
								t.viol(cell, "client_panic", fmt.Sprint(pan), nil)
								t.hit(cellBase, "client_panic", true)
							case status >= 400 && cerr == nil:
								t.viol(cell, "client_success_on_error_status", fmt.Sprintf("status %d, result %v", status, got), nil)
								t.hit(cellBase, "client_success_on_error_status", true)
							case status < 300 && status != 204 && cerr == nil && len(body) > 0:
								// success: the body must really be decodable under the request's content type
								ok := true
								if ctKey == "proto" {
									ref := out.ProtoReflect().New().Interface()
									ok = proto.Unmarshal(body, ref) == nil
								} else if !json.Valid(body) {
									ok = false
								} else if !custom {
									ref := out.ProtoReflect().New().Interface()
									ok = protojson.Unmarshal(body, ref) == nil
								}
								if !ok {
									t.viol(cell, "client_success_on_garbage", fmt.Sprintf("status %d body %q returned %v without error", status, clip(body), got), nil)
									t.hit(cellBase, "client_success_on_garbage", true)
								} else {
									t.hit(cellBase, "client_decoded", true)
								}
							default:
								t.hit(cellBase, "client_returned_error_or_empty", true)
							}
						}
					}
				}
			}
		}
	}
	return nil
}
