// Package spec is a small schema DSL that is lowered straight to protobuf descriptors
// (there is no protoc and no .proto parser in the sandbox).
package spec

import "strings"

// Annotation enum values (mirror proto/sebuf/http/annotations.proto; 0 = not set).
const (
	EncString = 1
	EncNumber = 2

	EmptyPreserve = 1
	EmptyNull     = 2
	EmptyOmit     = 3

	TsRFC3339 = 1
	TsUnixSec = 2
	TsUnixMs  = 3
	TsDate    = 4

	BytesB64       = 1
	BytesB64Raw    = 2
	BytesB64URL    = 3
	BytesB64URLRaw = 4
	BytesHex       = 5
)

type Spec struct {
	Name     string   `json:"name"`
	Cell     string   `json:"cell,omitempty"`
	Files    []*File  `json:"files"`
	Generate []string `json:"generate,omitempty"` // default: every file of the spec
	Tags     []string `json:"tags,omitempty"`
	// PerPackage: the sebuf plugins are invoked once per proto package (file_to_generate = that package's files, the others
	// only as dependencies of the request) - the way protoc / buf invoke a plugin for a multi-package module - instead of once
	PerPackage bool `json:"per_package,omitempty"`
}

type File struct {
	Path      string     `json:"path"`
	Package   string     `json:"package"`
	GoPackage string     `json:"go_package,omitempty"`
	NoGoPkg   bool       `json:"no_go_package,omitempty"`
	Proto2    bool       `json:"proto2,omitempty"` // syntax = "proto2": every singular field has presence (pointer in Go), optional is a label
	Imports   []string   `json:"imports,omitempty"`
	Enums     []*Enum    `json:"enums,omitempty"`
	Messages  []*Message `json:"messages,omitempty"`
	Services  []*Service `json:"services,omitempty"`
}

type Enum struct {
	Name    string       `json:"name"`
	Values  []*EnumValue `json:"values"`
	Comment string       `json:"comment,omitempty"`
}

type EnumValue struct {
	Name   string  `json:"name"`
	Num    int32   `json:"num"`
	Custom *string `json:"custom,omitempty"`
}

type Message struct {
	Name     string     `json:"name"`
	Fields   []*Field   `json:"fields,omitempty"`
	Oneofs   []*Oneof   `json:"oneofs,omitempty"`
	Messages []*Message `json:"messages,omitempty"`
	Enums    []*Enum    `json:"enums,omitempty"`
	Comment  string     `json:"comment,omitempty"`
}

type Oneof struct {
	Name    string `json:"name"`
	Config  bool   `json:"config,omitempty"` // has (sebuf.http.oneof_config)
	Disc    string `json:"disc,omitempty"`
	Flatten bool   `json:"flatten,omitempty"`
}

type Query struct {
	Name     string `json:"name,omitempty"`
	Required bool   `json:"required,omitempty"`
}

type Field struct {
	Name    string `json:"name"`
	Num     int32  `json:"num,omitempty"`
	Kind    string `json:"kind"`           // proto scalar name, "message", "enum"
	Type    string `json:"type,omitempty"` // message/enum name, relative to the file package or absolute (leading dot)
	Card    string `json:"card,omitempty"` // "", optional, repeated, map
	KeyKind string `json:"key_kind,omitempty"`
	Oneof   string `json:"oneof,omitempty"`

	Int64Enc      int32    `json:"int64_enc,omitempty"`
	EnumEnc       int32    `json:"enum_enc,omitempty"`
	Nullable      *bool    `json:"nullable,omitempty"`
	EmptyBeh      int32    `json:"empty_beh,omitempty"`
	TsFmt         int32    `json:"ts_fmt,omitempty"`
	BytesEnc      int32    `json:"bytes_enc,omitempty"`
	Unwrap        bool     `json:"unwrap,omitempty"`
	Flatten       *bool    `json:"flatten,omitempty"`
	FlattenPrefix *string  `json:"flatten_prefix,omitempty"`
	OneofValue    *string  `json:"oneof_value,omitempty"`
	Query         *Query   `json:"query,omitempty"`
	Examples      []string `json:"examples,omitempty"`
	Rules         string   `json:"rules,omitempty"`     // prototext of buf.validate.FieldRules
	JSONName      string   `json:"json_name,omitempty"` // explicit json_name option (default: lowerCamel of the name)
	Comment       string   `json:"comment,omitempty"`
}

type Header struct {
	Name        string `json:"name"`
	Description string `json:"description,omitempty"`
	Type        string `json:"type,omitempty"`
	Required    bool   `json:"required,omitempty"`
	Format      string `json:"format,omitempty"`
	Example     string `json:"example,omitempty"`
	Deprecated  bool   `json:"deprecated,omitempty"`
}

type Service struct {
	Name     string    `json:"name"`
	BasePath *string   `json:"base_path,omitempty"`
	Headers  []*Header `json:"headers,omitempty"`
	Methods  []*Method `json:"methods"`
	Comment  string    `json:"comment,omitempty"`
}

type Method struct {
	Name    string    `json:"name"`
	In      string    `json:"in"`
	Out     string    `json:"out"`
	Config  bool      `json:"config,omitempty"` // has (sebuf.http.config)
	Verb    string    `json:"verb,omitempty"`   // "", GET, POST, PUT, DELETE, PATCH
	Path    string    `json:"path,omitempty"`
	Headers []*Header `json:"headers,omitempty"`
	Comment string    `json:"comment,omitempty"`
}

// ---- builders -------------------------------------------------------------

func Str(s string) *string { return &s }
func Bool(b bool) *bool    { return &b }

func F(name, kind string) *Field { return &Field{Name: name, Kind: kind} }
func Msg(name, typ string) *Field {
	return &Field{Name: name, Kind: "message", Type: typ}
}
func En(name, typ string) *Field { return &Field{Name: name, Kind: "enum", Type: typ} }
func Ts(name string) *Field {
	return &Field{Name: name, Kind: "message", Type: ".google.protobuf.Timestamp"}
}

func (f *Field) Opt() *Field             { f.Card = "optional"; return f }
func (f *Field) JN(n string) *Field      { f.JSONName = n; return f }
func (f *Field) Rep() *Field             { f.Card = "repeated"; return f }
func (f *Field) Map() *Field             { f.Card = "map"; return f }
func (f *Field) MapK(k string) *Field    { f.Card = "map"; f.KeyKind = k; return f }
func (f *Field) In(oneof string) *Field  { f.Oneof = oneof; return f }
func (f *Field) I64(e int32) *Field      { f.Int64Enc = e; return f }
func (f *Field) EEnc(e int32) *Field     { f.EnumEnc = e; return f }
func (f *Field) Null() *Field            { f.Nullable = Bool(true); return f }
func (f *Field) Empty(e int32) *Field    { f.EmptyBeh = e; return f }
func (f *Field) TsF(e int32) *Field      { f.TsFmt = e; return f }
func (f *Field) BEnc(e int32) *Field     { f.BytesEnc = e; return f }
func (f *Field) Unw() *Field             { f.Unwrap = true; return f }
func (f *Field) Flat() *Field            { f.Flatten = Bool(true); return f }
func (f *Field) FlatP(p string) *Field   { f.Flatten = Bool(true); f.FlattenPrefix = Str(p); return f }
func (f *Field) OV(v string) *Field      { f.OneofValue = Str(v); return f }
func (f *Field) Q(name string) *Field    { f.Query = &Query{Name: name}; return f }
func (f *Field) QReq(name string) *Field { f.Query = &Query{Name: name, Required: true}; return f }
func (f *Field) Ex(v ...string) *Field   { f.Examples = v; return f }
func (f *Field) R(rules string) *Field   { f.Rules = rules; return f }

func M(name string, fields ...*Field) *Message { return &Message{Name: name, Fields: fields} }
func (m *Message) WithOneof(o ...*Oneof) *Message {
	m.Oneofs = append(m.Oneofs, o...)
	return m
}
func (m *Message) WithNested(n ...*Message) *Message {
	m.Messages = append(m.Messages, n...)
	return m
}
func (m *Message) WithEnums(e ...*Enum) *Message { m.Enums = append(m.Enums, e...); return m }

func E(name string, vals ...string) *Enum {
	e := &Enum{Name: name}
	for i, v := range vals {
		e.Values = append(e.Values, &EnumValue{Name: v, Num: int32(i)})
	}
	return e
}

func RPC(name, in, out, verb, path string) *Method {
	return &Method{Name: name, In: in, Out: out, Config: true, Verb: verb, Path: path}
}
func RPCDefault(name, in, out string) *Method { return &Method{Name: name, In: in, Out: out} }
func (m *Method) H(h ...*Header) *Method      { m.Headers = append(m.Headers, h...); return m }

func Svc(name, base string, methods ...*Method) *Service {
	s := &Service{Name: name, Methods: methods}
	if base != "\x00" {
		s.BasePath = Str(base)
	}
	return s
}
func SvcNoBase(name string, methods ...*Method) *Service {
	return &Service{Name: name, Methods: methods}
}
func (s *Service) H(h ...*Header) *Service { s.Headers = append(s.Headers, h...); return s }

func Hdr(name, typ, format string, required bool) *Header {
	return &Header{Name: name, Type: typ, Format: format, Required: required}
}

// One builds a single-file spec.
func One(name string, f *File) *Spec {
	if f.Path == "" {
		f.Path = name + ".proto"
	}
	if f.Package == "" {
		f.Package = "v" + strings.ReplaceAll(name, "-", "_")
	}
	return &Spec{Name: name, Files: []*File{f}}
}

// GenerateList returns the files to generate.
func (s *Spec) GenerateList() []string {
	if len(s.Generate) > 0 {
		return s.Generate
	}
	var out []string
	for _, f := range s.Files {
		out = append(out, f.Path)
	}
	return out
}

// Invocations returns the file_to_generate list of every plugin invocation of the spec.
func (s *Spec) Invocations() [][]string {
	if !s.PerPackage {
		return [][]string{s.GenerateList()}
	}
	pkgOf := map[string]string{}
	for _, f := range s.Files {
		pkgOf[f.Path] = f.Package
	}
	var order []string
	by := map[string][]string{}
	for _, p := range s.GenerateList() {
		if _, ok := by[pkgOf[p]]; !ok {
			order = append(order, pkgOf[p])
		}
		by[pkgOf[p]] = append(by[pkgOf[p]], p)
	}
	var out [][]string
	for _, k := range order {
		out = append(out, by[k])
	}
	return out
}

// Walk visits every message (depth-first) of the file with its fully-qualified name.
func (f *File) Walk(fn func(fq string, m *Message)) {
	var rec func(prefix string, ms []*Message)
	rec = func(prefix string, ms []*Message) {
		for _, m := range ms {
			fq := prefix + m.Name
			fn(fq, m)
			rec(fq+".", m.Messages)
		}
	}
	p := ""
	if f.Package != "" {
		p = f.Package + "."
	}
	rec(p, f.Messages)
}
