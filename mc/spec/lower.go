package spec

import (
	"fmt"
	"strings"

	"buf.build/gen/go/bufbuild/protovalidate/protocolbuffers/go/buf/validate"
	sebufhttp "github.com/SebastienMelki/sebuf/http"
	"google.golang.org/protobuf/encoding/prototext"
	"google.golang.org/protobuf/proto"
	"google.golang.org/protobuf/reflect/protodesc"
	"google.golang.org/protobuf/reflect/protoreflect"
	"google.golang.org/protobuf/reflect/protoregistry"
	"google.golang.org/protobuf/types/descriptorpb"
	"google.golang.org/protobuf/types/known/durationpb"
	"google.golang.org/protobuf/types/known/emptypb"
	"google.golang.org/protobuf/types/known/fieldmaskpb"
	"google.golang.org/protobuf/types/known/structpb"
	"google.golang.org/protobuf/types/known/timestamppb"
	"google.golang.org/protobuf/types/known/wrapperspb"
	"google.golang.org/protobuf/types/pluginpb"
)

var scalarTypes = map[string]descriptorpb.FieldDescriptorProto_Type{
	"double": descriptorpb.FieldDescriptorProto_TYPE_DOUBLE, "float": descriptorpb.FieldDescriptorProto_TYPE_FLOAT,
	"int64": descriptorpb.FieldDescriptorProto_TYPE_INT64, "uint64": descriptorpb.FieldDescriptorProto_TYPE_UINT64,
	"int32": descriptorpb.FieldDescriptorProto_TYPE_INT32, "fixed64": descriptorpb.FieldDescriptorProto_TYPE_FIXED64,
	"fixed32": descriptorpb.FieldDescriptorProto_TYPE_FIXED32, "bool": descriptorpb.FieldDescriptorProto_TYPE_BOOL,
	"string": descriptorpb.FieldDescriptorProto_TYPE_STRING, "bytes": descriptorpb.FieldDescriptorProto_TYPE_BYTES,
	"uint32": descriptorpb.FieldDescriptorProto_TYPE_UINT32, "sfixed32": descriptorpb.FieldDescriptorProto_TYPE_SFIXED32,
	"sfixed64": descriptorpb.FieldDescriptorProto_TYPE_SFIXED64, "sint32": descriptorpb.FieldDescriptorProto_TYPE_SINT32,
	"sint64":  descriptorpb.FieldDescriptorProto_TYPE_SINT64,
	"message": descriptorpb.FieldDescriptorProto_TYPE_MESSAGE, "enum": descriptorpb.FieldDescriptorProto_TYPE_ENUM,
}

// Scalars lists the 15 proto scalar kinds in a fixed order.
var Scalars = []string{"string", "int32", "int64", "uint32", "uint64", "sint32", "sint64", "fixed32", "fixed64",
	"sfixed32", "sfixed64", "bool", "float", "double", "bytes"}

// FieldJSONName is the JSON name of a field: its json_name option or protoc's default.
func FieldJSONName(f *Field) string { return jsonNameOf(f) }

// RequestFieldJSONName looks up the JSON name of field `name` of the request message of svc.rpc (top-level messages of the
// spec's files); falls back to protoc's default conversion of the name.
func RequestFieldJSONName(s *Spec, svc, rpc, name string) string {
	for _, f := range s.Files {
		for _, sv := range f.Services {
			if sv.Name != svc {
				continue
			}
			for _, m := range sv.Methods {
				if m.Name != rpc {
					continue
				}
				in := m.In
				if i := strings.LastIndex(in, "."); i >= 0 {
					in = in[i+1:]
				}
				for _, f2 := range s.Files {
					for _, msg := range f2.Messages {
						if msg.Name == in {
							for _, fl := range msg.Fields {
								if fl.Name == name {
									return jsonNameOf(fl)
								}
							}
						}
					}
				}
			}
		}
	}
	return JSONName(name)
}

func jsonNameOf(f *Field) string {
	if f.JSONName != "" {
		return f.JSONName
	}
	return JSONName(f.Name)
}

// JSONName is protoc's ToJsonName.
func JSONName(s string) string {
	var b strings.Builder
	up := false
	for _, c := range s {
		if c == '_' {
			up = true
			continue
		}
		if up && c >= 'a' && c <= 'z' {
			c = c - 'a' + 'A'
		}
		up = false
		b.WriteRune(c)
	}
	return b.String()
}

func mapEntryName(field string) string {
	var b strings.Builder
	up := true
	for _, c := range field {
		if c == '_' {
			up = true
			continue
		}
		if up && c >= 'a' && c <= 'z' {
			c = c - 'a' + 'A'
		}
		up = false
		b.WriteRune(c)
	}
	return b.String() + "Entry"
}

type lowerer struct {
	msgPath string
	pkg     string
	proto2  bool
	locs    []*descriptorpb.SourceCodeInfo_Location
}

func (l *lowerer) fq(t string) string {
	if strings.HasPrefix(t, ".") {
		return t
	}
	if l.pkg == "" {
		return "." + t
	}
	return "." + l.pkg + "." + t
}

func (l *lowerer) comment(path []int32, c string) {
	if c == "" {
		return
	}
	l.locs = append(l.locs, &descriptorpb.SourceCodeInfo_Location{
		Path: append([]int32(nil), path...), Span: []int32{0, 0, 0}, LeadingComments: proto.String(c)})
}

func hdrs(hs []*Header) []*sebufhttp.Header {
	var out []*sebufhttp.Header
	for _, h := range hs {
		out = append(out, &sebufhttp.Header{Name: h.Name, Description: h.Description, Type: h.Type,
			Required: h.Required, Format: h.Format, Example: h.Example, Deprecated: h.Deprecated})
	}
	return out
}

func (l *lowerer) enum(e *Enum, path []int32) *descriptorpb.EnumDescriptorProto {
	l.comment(path, e.Comment)
	d := &descriptorpb.EnumDescriptorProto{Name: proto.String(e.Name)}
	for _, v := range e.Values {
		vd := &descriptorpb.EnumValueDescriptorProto{Name: proto.String(v.Name), Number: proto.Int32(v.Num)}
		if v.Custom != nil {
			vd.Options = &descriptorpb.EnumValueOptions{}
			proto.SetExtension(vd.Options, sebufhttp.E_EnumValue, *v.Custom)
		}
		d.Value = append(d.Value, vd)
	}
	return d
}

func (l *lowerer) field(f *Field, idx int, m *Message, md *descriptorpb.DescriptorProto, path []int32) (*descriptorpb.FieldDescriptorProto, error) {
	l.comment(path, f.Comment)
	typ, ok := scalarTypes[f.Kind]
	if !ok {
		return nil, fmt.Errorf("field %s: unknown kind %q", f.Name, f.Kind)
	}
	num := f.Num
	if num == 0 {
		num = int32(idx + 1)
	}
	fd := &descriptorpb.FieldDescriptorProto{
		Name: proto.String(f.Name), Number: proto.Int32(num), Type: typ.Enum(),
		Label:    descriptorpb.FieldDescriptorProto_LABEL_OPTIONAL.Enum(),
		JsonName: proto.String(jsonNameOf(f)),
	}
	if f.Kind == "message" || f.Kind == "enum" {
		fd.TypeName = proto.String(l.fq(f.Type))
	}
	switch f.Card {
	case "":
	case "optional":
		if !l.proto2 {
			fd.Proto3Optional = proto.Bool(true)
		}
	case "repeated":
		fd.Label = descriptorpb.FieldDescriptorProto_LABEL_REPEATED.Enum()
	case "map":
		kk := f.KeyKind
		if kk == "" {
			kk = "string"
		}
		en := mapEntryName(f.Name)
		val := &descriptorpb.FieldDescriptorProto{Name: proto.String("value"), Number: proto.Int32(2), Type: typ.Enum(),
			Label: descriptorpb.FieldDescriptorProto_LABEL_OPTIONAL.Enum(), JsonName: proto.String("value"), TypeName: fd.TypeName}
		entry := &descriptorpb.DescriptorProto{Name: proto.String(en),
			Field: []*descriptorpb.FieldDescriptorProto{
				{Name: proto.String("key"), Number: proto.Int32(1), Type: scalarTypes[kk].Enum(),
					Label: descriptorpb.FieldDescriptorProto_LABEL_OPTIONAL.Enum(), JsonName: proto.String("key")},
				val},
			Options: &descriptorpb.MessageOptions{MapEntry: proto.Bool(true)}}
		md.NestedType = append(md.NestedType, entry)
		fd.Label = descriptorpb.FieldDescriptorProto_LABEL_REPEATED.Enum()
		fd.Type = descriptorpb.FieldDescriptorProto_TYPE_MESSAGE.Enum()
		fd.TypeName = proto.String("." + l.msgPath + "." + en)
	default:
		return nil, fmt.Errorf("field %s: unknown card %q", f.Name, f.Card)
	}
	if f.Oneof != "" {
		found := false
		for i, o := range m.Oneofs {
			if o.Name == f.Oneof {
				fd.OneofIndex = proto.Int32(int32(i))
				found = true
			}
		}
		if !found {
			return nil, fmt.Errorf("field %s: oneof %q not declared", f.Name, f.Oneof)
		}
	}
	opts := &descriptorpb.FieldOptions{}
	set := false
	ext := func(x protoreflect.ExtensionType, v any) { proto.SetExtension(opts, x, v); set = true }
	if f.Int64Enc != 0 {
		ext(sebufhttp.E_Int64Encoding, sebufhttp.Int64Encoding(clampNeg(f.Int64Enc)))
	}
	if f.EnumEnc != 0 {
		ext(sebufhttp.E_EnumEncoding, sebufhttp.EnumEncoding(clampNeg(f.EnumEnc)))
	}
	if f.Nullable != nil {
		ext(sebufhttp.E_Nullable, *f.Nullable)
	}
	if f.EmptyBeh != 0 {
		ext(sebufhttp.E_EmptyBehavior, sebufhttp.EmptyBehavior(clampNeg(f.EmptyBeh)))
	}
	if f.TsFmt != 0 {
		ext(sebufhttp.E_TimestampFormat, sebufhttp.TimestampFormat(clampNeg(f.TsFmt)))
	}
	if f.BytesEnc != 0 {
		ext(sebufhttp.E_BytesEncoding, sebufhttp.BytesEncoding(clampNeg(f.BytesEnc)))
	}
	if f.Unwrap {
		ext(sebufhttp.E_Unwrap, true)
	}
	if f.Flatten != nil {
		ext(sebufhttp.E_Flatten, *f.Flatten)
	}
	if f.FlattenPrefix != nil {
		ext(sebufhttp.E_FlattenPrefix, *f.FlattenPrefix)
	}
	if f.OneofValue != nil {
		ext(sebufhttp.E_OneofValue, *f.OneofValue)
	}
	if f.Query != nil {
		ext(sebufhttp.E_Query, &sebufhttp.QueryConfig{Name: f.Query.Name, Required: f.Query.Required})
	}
	if len(f.Examples) > 0 {
		ext(sebufhttp.E_FieldExamples, &sebufhttp.FieldExamples{Values: f.Examples})
	}
	if f.Rules != "" {
		r := &validate.FieldRules{}
		if err := prototext.Unmarshal([]byte(f.Rules), r); err != nil {
			return nil, fmt.Errorf("field %s: rules %q: %v", f.Name, f.Rules, err)
		}
		ext(validate.E_Field, r)
	}
	if set {
		fd.Options = opts
	}
	return fd, nil
}

// a negative annotation value means "explicitly set to 0 (UNSPECIFIED)".
func clampNeg(v int32) int32 {
	if v < 0 {
		return 0
	}
	return v
}

func (l *lowerer) message(m *Message, parent string, path []int32) (*descriptorpb.DescriptorProto, error) {
	l.comment(path, m.Comment)
	md := &descriptorpb.DescriptorProto{Name: proto.String(m.Name)}
	fqName := parent + m.Name
	for i, n := range m.Messages {
		nd, err := l.message(n, fqName+".", append(append([]int32(nil), path...), 3, int32(i)))
		if err != nil {
			return nil, err
		}
		md.NestedType = append(md.NestedType, nd)
	}
	for i, e := range m.Enums {
		md.EnumType = append(md.EnumType, l.enum(e, append(append([]int32(nil), path...), 4, int32(i))))
	}
	for _, o := range m.Oneofs {
		od := &descriptorpb.OneofDescriptorProto{Name: proto.String(o.Name)}
		if o.Config {
			od.Options = &descriptorpb.OneofOptions{}
			proto.SetExtension(od.Options, sebufhttp.E_OneofConfig, &sebufhttp.OneofConfig{Discriminator: o.Disc, Flatten: o.Flatten})
		}
		md.OneofDecl = append(md.OneofDecl, od)
	}
	for i, f := range m.Fields {
		l.msgPath = fqName
		fd, err := l.field(f, i, m, md, append(append([]int32(nil), path...), 2, int32(i)))
		if err != nil {
			return nil, fmt.Errorf("message %s: %w", m.Name, err)
		}
		md.Field = append(md.Field, fd)
	}
	// synthetic oneofs for proto3 optional, after the real ones
	for _, fd := range md.Field {
		if fd.GetProto3Optional() {
			fd.OneofIndex = proto.Int32(int32(len(md.OneofDecl)))
			md.OneofDecl = append(md.OneofDecl, &descriptorpb.OneofDescriptorProto{Name: proto.String("_" + fd.GetName())})
		}
	}
	return md, nil
}

// StdImports are added to every lowered file.
var StdImports = []string{
	"google/protobuf/timestamp.proto",
	"proto/sebuf/http/annotations.proto",
	"proto/sebuf/http/headers.proto",
	"buf/validate/validate.proto",
}

// LowerFile lowers one file.
func LowerFile(f *File, defaultGoPkg string) (*descriptorpb.FileDescriptorProto, error) {
	l := &lowerer{pkg: f.Package, proto2: f.Proto2}
	fd := &descriptorpb.FileDescriptorProto{
		Name:   proto.String(f.Path),
		Syntax: proto.String("proto3"),
	}
	if f.Proto2 {
		fd.Syntax = proto.String("proto2")
	}
	if f.Package != "" {
		fd.Package = proto.String(f.Package)
	}
	fd.Dependency = append(fd.Dependency, StdImports...)
	fd.Dependency = append(fd.Dependency, f.Imports...)
	if !f.NoGoPkg {
		gp := f.GoPackage
		if gp == "" {
			gp = defaultGoPkg
		}
		fd.Options = &descriptorpb.FileOptions{GoPackage: proto.String(gp)}
	}
	for i, e := range f.Enums {
		fd.EnumType = append(fd.EnumType, l.enum(e, []int32{5, int32(i)}))
	}
	prefix := ""
	if f.Package != "" {
		prefix = f.Package + "."
	}
	for i, m := range f.Messages {
		md, err := l.message(m, prefix, []int32{4, int32(i)})
		if err != nil {
			return nil, fmt.Errorf("%s: %w", f.Path, err)
		}
		fd.MessageType = append(fd.MessageType, md)
	}
	for i, s := range f.Services {
		l.comment([]int32{6, int32(i)}, s.Comment)
		sd := &descriptorpb.ServiceDescriptorProto{Name: proto.String(s.Name)}
		so := &descriptorpb.ServiceOptions{}
		hasSO := false
		if s.BasePath != nil {
			proto.SetExtension(so, sebufhttp.E_ServiceConfig, &sebufhttp.ServiceConfig{BasePath: *s.BasePath})
			hasSO = true
		}
		if len(s.Headers) > 0 {
			proto.SetExtension(so, sebufhttp.E_ServiceHeaders, &sebufhttp.ServiceHeaders{RequiredHeaders: hdrs(s.Headers)})
			hasSO = true
		}
		if hasSO {
			sd.Options = so
		}
		for j, m := range s.Methods {
			l.comment([]int32{6, int32(i), 2, int32(j)}, m.Comment)
			mdp := &descriptorpb.MethodDescriptorProto{Name: proto.String(m.Name),
				InputType: proto.String(l.fq(m.In)), OutputType: proto.String(l.fq(m.Out))}
			mo := &descriptorpb.MethodOptions{}
			hasMO := false
			if m.Config {
				v := sebufhttp.HttpMethod_HTTP_METHOD_UNSPECIFIED
				switch m.Verb {
				case "GET":
					v = sebufhttp.HttpMethod_HTTP_METHOD_GET
				case "POST":
					v = sebufhttp.HttpMethod_HTTP_METHOD_POST
				case "PUT":
					v = sebufhttp.HttpMethod_HTTP_METHOD_PUT
				case "DELETE":
					v = sebufhttp.HttpMethod_HTTP_METHOD_DELETE
				case "PATCH":
					v = sebufhttp.HttpMethod_HTTP_METHOD_PATCH
				}
				proto.SetExtension(mo, sebufhttp.E_Config, &sebufhttp.HttpConfig{Path: m.Path, Method: v})
				hasMO = true
			}
			if len(m.Headers) > 0 {
				proto.SetExtension(mo, sebufhttp.E_MethodHeaders, &sebufhttp.MethodHeaders{RequiredHeaders: hdrs(m.Headers)})
				hasMO = true
			}
			if hasMO {
				mdp.Options = mo
			}
			sd.Method = append(sd.Method, mdp)
		}
		fd.Service = append(fd.Service, sd)
	}
	if len(l.locs) > 0 {
		fd.SourceCodeInfo = &descriptorpb.SourceCodeInfo{Location: l.locs}
	}
	return fd, nil
}

var stdFiles = map[string]protoreflect.FileDescriptor{}

func init() {
	add := func(fd protoreflect.FileDescriptor) {
		var rec func(fd protoreflect.FileDescriptor)
		rec = func(fd protoreflect.FileDescriptor) {
			if _, ok := stdFiles[fd.Path()]; ok {
				return
			}
			stdFiles[fd.Path()] = fd
			imps := fd.Imports()
			for i := 0; i < imps.Len(); i++ {
				rec(imps.Get(i).FileDescriptor)
			}
		}
		rec(fd)
	}
	add(descriptorpb.File_google_protobuf_descriptor_proto)
	add(timestamppb.File_google_protobuf_timestamp_proto)
	add(durationpb.File_google_protobuf_duration_proto)
	add(wrapperspb.File_google_protobuf_wrappers_proto)
	add(structpb.File_google_protobuf_struct_proto)
	add(emptypb.File_google_protobuf_empty_proto)
	add(fieldmaskpb.File_google_protobuf_field_mask_proto)
	add(sebufhttp.File_proto_sebuf_http_annotations_proto)
	add(sebufhttp.File_proto_sebuf_http_headers_proto)
	add(sebufhttp.File_proto_sebuf_http_errors_proto)
	add(validate.File_buf_validate_validate_proto)
}

// Lowered is the result of lowering a Spec.
type Lowered struct {
	Spec   *Spec
	Protos []*descriptorpb.FileDescriptorProto // topologically ordered, std deps first
	Files  *protoregistry.Files
}

// DefaultGoPkg is the go_package given to files that do not set one.
func DefaultGoPkg(s *Spec) string {
	n := strings.ReplaceAll(s.Name, "-", "_")
	return "verifws/u/" + n + ";" + n
}

// Lower lowers and validates the whole spec.
func Lower(s *Spec) (*Lowered, error) {
	out := &Lowered{Spec: s}
	seen := map[string]bool{}
	var addStd func(path string) error
	addStd = func(path string) error {
		if seen[path] {
			return nil
		}
		fd, ok := stdFiles[path]
		if !ok {
			return fmt.Errorf("unknown import %q", path)
		}
		seen[path] = true
		imps := fd.Imports()
		for i := 0; i < imps.Len(); i++ {
			if err := addStd(imps.Get(i).Path()); err != nil {
				return err
			}
		}
		out.Protos = append(out.Protos, protodesc.ToFileDescriptorProto(fd))
		return nil
	}
	for _, p := range StdImports {
		if err := addStd(p); err != nil {
			return nil, err
		}
	}
	own := map[string]*descriptorpb.FileDescriptorProto{}
	for _, f := range s.Files {
		fd, err := LowerFile(f, DefaultGoPkg(s))
		if err != nil {
			return nil, err
		}
		own[f.Path] = fd
	}
	var add func(path string, stack []string) error
	add = func(path string, stack []string) error {
		if seen[path] {
			return nil
		}
		fd, ok := own[path]
		if !ok {
			return addStd(path)
		}
		for _, s := range stack {
			if s == path {
				return fmt.Errorf("import cycle via %s", path)
			}
		}
		for _, d := range fd.Dependency {
			if err := add(d, append(stack, path)); err != nil {
				return err
			}
		}
		seen[path] = true
		out.Protos = append(out.Protos, fd)
		return nil
	}
	for _, f := range s.Files {
		if err := add(f.Path, nil); err != nil {
			return nil, err
		}
	}
	files, err := protodesc.NewFiles(&descriptorpb.FileDescriptorSet{File: out.Protos})
	if err != nil {
		return nil, fmt.Errorf("spec %s rejected by protodesc: %w", s.Name, err)
	}
	out.Files = files
	return out, nil
}

// Request assembles the CodeGeneratorRequest protoc would send.
func (l *Lowered) Request(param string, generate []string) *pluginpb.CodeGeneratorRequest {
	if generate == nil {
		generate = l.Spec.GenerateList()
	}
	req := &pluginpb.CodeGeneratorRequest{
		FileToGenerate:  generate,
		ProtoFile:       l.Protos,
		CompilerVersion: &pluginpb.Version{Major: proto.Int32(5), Minor: proto.Int32(29), Patch: proto.Int32(3)},
	}
	if param != "" {
		req.Parameter = proto.String(param)
	}
	return req
}
