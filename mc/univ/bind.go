package univ

import (
	"fmt"
	"strings"

	"verif/mc/spec"
)

var bindKinds = []string{"string", "int32", "int64", "uint32", "uint64", "sint32", "sint64", "fixed32", "fixed64", "sfixed32", "sfixed64", "bool", "float", "double"}

// BindSpecs is F-bind: query parameters of every scalar kind x {singular, optional, repeated} x {GET, PUT with body},
// renamed and required variants; path variables of every kind on body verbs. Server-side units (variant H).
func BindSpecs(thorough bool) []*spec.Spec {
	var out []*spec.Spec
	for _, card := range []string{"singular", "optional", "repeated"} {
		get := spec.M("QGet")
		put := spec.M("QPut", spec.F("id", "string"), spec.F("body_name", "string"), spec.F("body_count", "int64"))
		for i, k := range bindKinds {
			mk := func() *spec.Field {
				f := spec.F(fmt.Sprintf("f_%s", k), k)
				switch card {
				case "optional":
					f.Opt()
				case "repeated":
					f.Rep()
				}
				// every third parameter is renamed
				if i%3 == 0 {
					return f.Q(fmt.Sprintf("q%d", i))
				}
				return f.Q("")
			}
			get.Fields = append(get.Fields, mk())
			put.Fields = append(put.Fields, mk())
		}
		f := &spec.File{Messages: []*spec.Message{get, put, spec.M("Out", spec.F("ok", "bool"))},
			Services: []*spec.Service{spec.Svc("BindService", "/bind",
				spec.RPC("QueryGet", "QGet", "Out", "GET", "/q"),
				spec.RPC("QueryDelete", "QGet", "Out", "DELETE", "/q"),
				spec.RPC("QueryPut", "QPut", "Out", "PUT", "/q/{id}"),
				spec.RPC("QueryPost", "QPut", "Out", "POST", "/q/{id}"),
				spec.RPC("QueryPatch", "QPut", "Out", "PATCH", "/q/{id}"),
			)}}
		out = append(out, withCell(spec.One("bind_query_"+card, f), "bind/loc=query,card="+card, "extended", "valid", "bind"))
	}
	{
		// required + renamed + repeated numeric query parameters, and path variables of every kind on a body verb
		req := spec.M("Req", spec.F("ids", "int32").Rep().Q("id"), spec.F("must", "int64").QReq("m"), spec.F("tags", "string").Rep().QReq("tag"), spec.F("note", "string"))
		f := &spec.File{Messages: []*spec.Message{req, spec.M("ReqGet", spec.F("ids", "int32").Rep().Q("id"), spec.F("must", "int64").QReq("m"), spec.F("tags", "string").Rep().QReq("tag")),
			spec.M("Out", spec.F("ok", "bool"))},
			Services: []*spec.Service{spec.Svc("ReqService", "/req",
				spec.RPC("ReqGet", "ReqGet", "Out", "GET", "/r"),
				spec.RPC("ReqPut", "Req", "Out", "PUT", "/r"),
			)}}
		out = append(out, withCell(spec.One("bind_required_renamed", f), "bind/loc=query,card=required_renamed_repeated", "extended", "valid", "bind"))
	}
	{
		// required query parameters on every cardinality and on several kinds, on a bodiless and on a body verb
		mk := func(name string, body bool) *spec.Message {
			m := spec.M(name, spec.F("one_i", "int32").QReq("one_i"), spec.F("one_s", "string").QReq(""), spec.F("opt_i", "int32").Opt().QReq("opt_i"), spec.F("opt_s", "string").Opt().QReq("os"),
				spec.F("opt_b", "bool").Opt().QReq("opt_b"), spec.F("opt_l", "int64").Opt().QReq("opt_l"), spec.F("many_i", "int32").Rep().QReq("many_i"), spec.F("free", "string").Opt().Q("free"))
			if body {
				m.Fields = append(m.Fields, spec.F("text", "string"))
			}
			return m
		}
		f := &spec.File{Messages: []*spec.Message{mk("RcGet", false), mk("RcPost", true), spec.M("Out", spec.F("ok", "bool"))},
			Services: []*spec.Service{spec.Svc("ReqCardService", "/rc",
				spec.RPC("RcGet", "RcGet", "Out", "GET", "/r"),
				spec.RPC("RcDelete", "RcGet", "Out", "DELETE", "/r"),
				spec.RPC("RcPost", "RcPost", "Out", "POST", "/r"),
			)}}
		out = append(out, withCell(spec.One("bind_required_cards", f), "bind/loc=query,card=required_cards", "extended", "valid", "bind"))
	}
	{
		var msgs []*spec.Message
		s := spec.Svc("PathBindService", "/pb")
		for _, k := range bindKinds {
			m := spec.M("P_"+k, spec.F("v", k), spec.F("note", "string"))
			msgs = append(msgs, m)
			s.Methods = append(s.Methods, spec.RPC("Put_"+k, m.Name, "Out", "PUT", "/"+k+"/{v}"))
		}
		f := &spec.File{Messages: append(msgs, spec.M("Out", spec.F("ok", "bool"))), Services: []*spec.Service{s}}
		out = append(out, withCell(spec.One("bind_path_kinds", f), "bind/loc=path,card=singular", "extended", "valid", "bind"))
	}
	{
		// path variables bound to proto3 optional fields (explicit presence: a pointer in Go) of every kind, on a body verb and on GET
		var msgs []*spec.Message
		s := spec.Svc("OptPathService", "/po")
		for _, k := range bindKinds {
			pm := spec.M("PO_"+k, spec.F("v", k).Opt(), spec.F("note", "string"))
			gm := spec.M("GO_"+k, spec.F("v", k).Opt(), spec.F("note", "string").Q(""))
			msgs = append(msgs, pm, gm)
			s.Methods = append(s.Methods, spec.RPC("Put_"+k, pm.Name, "Out", "PUT", "/p/"+k+"/{v}"), spec.RPC("Get_"+k, gm.Name, "Out", "GET", "/g/"+k+"/{v}"))
		}
		f := &spec.File{Messages: append(msgs, spec.M("Out", spec.F("ok", "bool"))), Services: []*spec.Service{s}}
		out = append(out, withCell(spec.One("bind_path_optional", f), "bind/loc=path,card=optional", "extended", "valid", "bind"))
	}
	{
		// URL-bound fields that carry a JSON annotation: 64-bit integers with int64_encoding NUMBER (and, as a control, STRING) as
		// path variables on a bodiless and on a body verb, and as singular / optional / repeated query parameters
		var msgs []*spec.Message
		s := spec.Svc("AnnBindService", "/ab")
		for _, k := range []string{"int64", "uint64", "sint64", "fixed64", "sfixed64"} {
			for enc, encName := range map[int32]string{2: "number", 1: "string"} {
				if encName == "string" && k != "int64" {
					continue
				}
				pm := spec.M("PN_"+k+"_"+encName, spec.F("v", k).I64(enc), spec.F("note", "string"))
				gm := spec.M("GN_"+k+"_"+encName, spec.F("v", k).I64(enc), spec.F("note", "string").Q(""))
				qm := spec.M("QN_"+k+"_"+encName, spec.F("one", k).I64(enc).Q(""), spec.F("opt", k).I64(enc).Opt().Q("o"), spec.F("many", k).I64(enc).Rep().Q(""))
				msgs = append(msgs, pm, gm, qm)
				s.Methods = append(s.Methods,
					spec.RPC("Put_"+k+"_"+encName, pm.Name, "Out", "PUT", "/p/"+k+"/"+encName+"/{v}"),
					spec.RPC("Get_"+k+"_"+encName, gm.Name, "Out", "GET", "/g/"+k+"/"+encName+"/{v}"),
					spec.RPC("Query_"+k+"_"+encName, qm.Name, "Out", "GET", "/q/"+k+"/"+encName))
			}
		}
		f := &spec.File{Messages: append(msgs, spec.M("Out", spec.F("ok", "bool"))), Services: []*spec.Service{s}}
		out = append(out, withCell(spec.One("bind_annotated", f), "bind/loc=url,card=annotated", "extended", "valid", "bind"))
	}
	// one-class files: every URL-bound field of the file is of one kind class, so that whatever a generator emits once per file
	// depending on what the file binds (conversion helpers, imports) is exercised without another kind in the file supplying it
	for _, cl := range []struct {
		name  string
		kinds []string
	}{{"text", []string{"string"}}, {"wide", []string{"int64", "uint64", "sint64", "fixed64", "sfixed64"}}, {"narrow", []string{"int32", "uint32", "sint32", "fixed32", "sfixed32"}},
		{"bools", []string{"bool"}}, {"floats", []string{"float", "double"}}} {
		var msgs []*spec.Message
		s := spec.Svc("Only"+strings.Title(cl.name)+"Service", "/only")
		for _, k := range cl.kinds {
			pm := spec.M("OP_"+k, spec.F("v", k), spec.F("note", "bytes"))
			qm := spec.M("OQ_"+k, spec.F("one", k).Q(""), spec.F("many", k).Rep().Q("m"))
			msgs = append(msgs, pm, qm)
			s.Methods = append(s.Methods, spec.RPC("Put_"+k, pm.Name, "Out", "PUT", "/p/"+k+"/{v}"), spec.RPC("Query_"+k, qm.Name, "Out", "GET", "/q/"+k))
		}
		f := &spec.File{Messages: append(msgs, spec.M("Out", spec.F("ok", "bool"))), Services: []*spec.Service{s}}
		out = append(out, withCell(spec.One("bind_only_"+cl.name, f), "bind/loc=url,card=only_"+cl.name, "extended", "valid", "bind"))
	}
	return out
}
