package univ

import (
	"fmt"
	"strings"

	"verif/mc/spec"
)

// RuleCase is one field carrying one rule configuration.
type RuleCase struct {
	Msg   string // message carrying the field (default "R")
	Field string
	Kind  string
	Card  string
	Label string // rule=...,bound=...
	Rules string
	// Number: the field carries int64_encoding NUMBER
	Number bool
	// BytesEnc: bytes_encoding value of the field (0 = unset)
	BytesEnc int32
}

var intKinds = []string{"int32", "int64", "uint32", "uint64", "sint32", "sint64", "fixed32", "fixed64", "sfixed32", "sfixed64"}

func numericRuleConfigs(kind string, thorough bool) [][2]string {
	unsigned := strings.HasPrefix(kind, "u") || strings.HasPrefix(kind, "fixed")
	is64 := strings.HasSuffix(kind, "64")
	isFloat := kind == "float" || kind == "double"
	var out [][2]string
	add := func(label, body string) { out = append(out, [2]string{label, kind + ":{" + body + "}"}) }
	bounds := []string{"0", "1", "10"}
	if !unsigned {
		bounds = append(bounds, "-5")
	}
	if is64 {
		bounds = append(bounds, "9007199254740993") // 2^53+1
	}
	if isFloat {
		bounds = append(bounds, "0.5", "-2.25", "0.1") // 0.1 is not representable: float and double round it differently
	}
	for _, b := range bounds {
		for _, op := range []string{"gt", "gte", "lt", "lte"} {
			if !thorough && (b == "1") {
				continue
			}
			add(fmt.Sprintf("rule=%s,bound=%s", op, b), op+":"+b)
		}
	}
	add("rule=gte+lte,bound=1..10", "gte:1 lte:10")
	add("rule=gt+lt,bound=1..10", "gt:1 lt:10")
	add("rule=const,bound=7", "const:7")
	add("rule=in,bound=1|5|7", "in:[1,5,7]")
	if kind == "double" {
		add("rule=const,bound=precise", "const:123456789.125")
		add("rule=in,bound=precise", "in:[0.1,16777217,123456789.125]")
		add("rule=gte,bound=precise", "gte:123456789.125")
	}
	if is64 {
		add("rule=in,bound=big", "in:[9007199254740993,5]")
		add("rule=const,bound=big", "const:9007199254740993")
	}
	return out
}

// RuleSpecs builds F-rules: one unit per field kind; every field carries one rule configuration.
func RuleSpecs(thorough bool) ([]*spec.Spec, map[string][]RuleCase) {
	var out []*spec.Spec
	cases := map[string][]RuleCase{}
	mk := func(name, kind string, cs []RuleCase) {
		msg := spec.M("R")
		for i := range cs {
			cs[i].Field = fmt.Sprintf("f%d", i)
			f := spec.F(cs[i].Field, cs[i].Kind)
			switch cs[i].Card {
			case "repeated":
				f.Rep()
			case "map":
				f.Map()
			case "optional":
				f.Opt()
			}
			f.R(cs[i].Rules)
			if cs[i].Number {
				f.I64(spec.EncNumber)
			}
			if cs[i].BytesEnc != 0 {
				f.BEnc(cs[i].BytesEnc)
			}
			msg.Fields = append(msg.Fields, f)
		}
		f := &spec.File{Messages: []*spec.Message{msg, spec.M("Out", spec.F("ok", "bool"))},
			Services: []*spec.Service{spec.Svc("RuleService", "/r", spec.RPC("Check", "R", "Out", "POST", "/check"))}}
		s := withCell(spec.One(name, f), "rules/kind="+kind, "extended", "valid", "rules")
		out = append(out, s)
		cases[name] = cs
	}
	for _, k := range append(append([]string{}, intKinds...), "float", "double") {
		var cs []RuleCase
		for _, rc := range numericRuleConfigs(k, thorough) {
			cs = append(cs, RuleCase{Kind: k, Label: rc[0], Rules: rc[1]})
		}
		cs = append(cs, RuleCase{Kind: k, Label: "rule=required", Rules: "required:true"})
		mk("rules_"+k, k, cs)
	}
	// the 64-bit kinds again with int64_encoding NUMBER: the field is published as an integer and its literals as numbers
	for _, k := range []string{"int64", "uint64", "sint64", "fixed64", "sfixed64"} {
		var cs []RuleCase
		for _, rc := range numericRuleConfigs(k, thorough) {
			cs = append(cs, RuleCase{Kind: k, Label: rc[0], Rules: rc[1], Number: true})
		}
		if k == "int64" || k == "sint64" || k == "sfixed64" {
			cs = append(cs, RuleCase{Kind: k, Label: "rule=in,bound=extremes", Rules: k + ":{in:[-9007199254740993,9223372036854775807,-9223372036854775808]}", Number: true})
		} else {
			cs = append(cs, RuleCase{Kind: k, Label: "rule=in,bound=extremes", Rules: k + ":{in:[18446744073709551615,9007199254740993]}", Number: true})
		}
		mk("rules_"+k+"_number", k+"_number", cs)
	}
	{
		var cs []RuleCase
		s := func(label, body string) {
			cs = append(cs, RuleCase{Kind: "string", Label: label, Rules: "string:{" + body + "}"})
		}
		for _, n := range []string{"0", "1", "3"} {
			s("rule=min_len,bound="+n, "min_len:"+n)
			s("rule=max_len,bound="+n, "max_len:"+n)
			s("rule=len,bound="+n, "len:"+n)
		}
		s("rule=min_len+max_len,bound=2..4", "min_len:2 max_len:4")
		s("rule=const,bound=abc", `const:"abc"`)
		s("rule=in,bound=a|bc", `in:["a","bc"]`)
		// members that read as another YAML / JSON type when written plainly
		s("rule=in,bound=lookalikes", `in:["123","true","null","1e3","yes","~","0x1F"]`)
		s("rule=const,bound=lookalike_number", `const:"123"`)
		s("rule=const,bound=lookalike_bool", `const:"true"`)
		s("rule=const,bound=lookalike_null", `const:"null"`)
		s("rule=pattern,bound=digits5", `pattern:"^[0-9]{5}$"`)
		s("rule=pattern,bound=unanchored", `pattern:"ab+c"`)
		s("rule=pattern,bound=alnum", `pattern:"^[a-z][a-z0-9_]*$"`)
		// characters a publisher might escape or re-escape: bare and already-escaped slashes, escaped dots, a literal backslash
		s("rule=pattern,bound=bare_slash", `pattern:"^[0-9]+/[0-9]+$"`)
		s("rule=pattern,bound=escaped_slash", `pattern:"^https?:\\/\\/[a-z.]+$"`)
		s("rule=pattern,bound=escaped_dot", `pattern:"^v[0-9]+\\.[0-9]+$"`)
		for _, wk := range []string{"email", "uuid", "uri", "hostname", "ipv4", "ipv6", "ip"} {
			s("rule=format,bound="+wk, wk+":true")
		}
		cs = append(cs, RuleCase{Kind: "string", Label: "rule=required", Rules: "required:true"})
		mk("rules_string", "string", cs)
	}
	{
		// bytes length rules under every bytes_encoding: not in C19's rule list, but whatever the document states about the
		// length of the encoded text must accept every value the rules accept (C06)
		var cs []RuleCase
		for enc, en := range []string{"default", "base64", "base64_raw", "base64url", "base64url_raw", "hex"} {
			for _, rc := range [][2]string{{"rule=min_len,bound=4", "bytes:{min_len:4}"}, {"rule=len,bound=16", "bytes:{len:16}"}, {"rule=max_len,bound=5", "bytes:{max_len:5}"}, {"rule=min_len+max_len,bound=2..7", "bytes:{min_len:2 max_len:7}"}} {
				cs = append(cs, RuleCase{Kind: "bytes", Label: rc[0] + ",enc=" + en, Rules: rc[1], BytesEnc: int32(enc)})
			}
		}
		mk("rules_bytes", "bytes", cs)
	}
	{
		// string affix rules (prefix / suffix / contains, alone and together, also where prefix and suffix may overlap in a
		// value): not in C19's rule list, but whatever the generator publishes for them must accept what the server accepts (C06)
		cs := []RuleCase{
			{Kind: "string", Label: "rule=prefix,bound=/", Rules: `string:{prefix:"/"}`},
			{Kind: "string", Label: "rule=suffix,bound=/", Rules: `string:{suffix:"/"}`},
			{Kind: "string", Label: "rule=prefix+suffix,bound=/../", Rules: `string:{prefix:"/" suffix:"/"}`},
			{Kind: "string", Label: "rule=prefix+suffix,bound=ab..bc", Rules: `string:{prefix:"ab" suffix:"bc"}`},
			{Kind: "string", Label: "rule=prefix,bound=a.b(", Rules: `string:{prefix:"a.b("}`},
			{Kind: "string", Label: "rule=contains,bound=-", Rules: `string:{contains:"-"}`},
			{Kind: "string", Label: "rule=prefix+min_len,bound=id-..5", Rules: `string:{prefix:"id-" min_len:5}`},
			{Kind: "string", Card: "repeated", Label: "rule=items.prefix+suffix,bound=ab..bc", Rules: `repeated:{items:{string:{prefix:"ab" suffix:"bc"}}}`},
		}
		mk("rules_affix", "affix", cs)
	}
	{
		var cs []RuleCase
		for _, k := range []string{"string", "int32", "int64"} {
			cs = append(cs,
				RuleCase{Kind: k, Card: "repeated", Label: "rule=min_items,bound=1,elem=" + k, Rules: "repeated:{min_items:1}"},
				RuleCase{Kind: k, Card: "repeated", Label: "rule=max_items,bound=2,elem=" + k, Rules: "repeated:{max_items:2}"},
				RuleCase{Kind: k, Card: "repeated", Label: "rule=min+max_items,bound=1..2,elem=" + k, Rules: "repeated:{min_items:1 max_items:2}"},
				RuleCase{Kind: k, Card: "repeated", Label: "rule=unique,elem=" + k, Rules: "repeated:{unique:true}"},
				RuleCase{Kind: k, Card: "map", Label: "rule=min_pairs,bound=1,elem=" + k, Rules: "map:{min_pairs:1}"},
				RuleCase{Kind: k, Card: "map", Label: "rule=max_pairs,bound=1,elem=" + k, Rules: "map:{max_pairs:1}"},
			)
		}
		cs = append(cs,
			RuleCase{Kind: "string", Card: "repeated", Label: "rule=items.min_len,bound=2", Rules: "repeated:{items:{string:{min_len:2}}}"},
			RuleCase{Kind: "int32", Card: "repeated", Label: "rule=items.gt,bound=0", Rules: "repeated:{items:{int32:{gt:0}}}"},
			RuleCase{Kind: "string", Card: "repeated", Label: "rule=items.in,elem=string", Rules: `repeated:{min_items:1 items:{string:{in:["a","bb"]}}}`},
			RuleCase{Kind: "int32", Card: "repeated", Label: "rule=items.in,elem=int32", Rules: "repeated:{items:{int32:{in:[1,2]}}}"},
			RuleCase{Kind: "string", Card: "repeated", Label: "rule=items.const,elem=string", Rules: `repeated:{items:{string:{const:"a"}}}`},
			RuleCase{Kind: "string", Card: "repeated", Label: "rule=required", Rules: "required:true"},
		)
		mk("rules_collections", "collections", cs)
	}
	{
		// the same rules on multi-word field names and in messages whose schema is built by another code path
		var cs []RuleCase
		common := func() []*spec.Field {
			return []*spec.Field{spec.F("account_id", "string").R("required:true"), spec.F("display_name", "string").R("string:{min_len:2}"),
				spec.F("unit_count", "int32").R("int32:{gt:0}"), spec.F("currency_code", "string").R("string:{max_len:5}"), spec.F("max_items", "int64").R("required:true")}
		}
		txt := func() *spec.Field { return spec.Msg("text", "TextContent").In("content") }
		img := func() *spec.Field { return spec.Msg("image", "ImageContent").In("content") }
		shapes := []struct {
			name, key string
			m         *spec.Message
		}{
			{"PlainWords", "plain", spec.M("PlainWords", common()...)},
			{"NestedOneofWords", "nested_oneof", spec.M("NestedOneofWords", append(common(), txt(), img())...).WithOneof(&spec.Oneof{Name: "content", Config: true, Disc: "kind"})},
			{"PlainOneofWords", "plain_oneof", spec.M("PlainOneofWords", append(common(), txt(), img())...).WithOneof(&spec.Oneof{Name: "content"})},
			{"UnwrapSiblingWords", "unwrap_sibling", spec.M("UnwrapSiblingWords", append(common(), spec.Msg("bars_by_key", "BarList").Map())...)},
			// schemas built as allOf: a flattened child (itself required, with and without prefix) and a flattened discriminated oneof
			{"FlattenWords", "flatten", spec.M("FlattenWords", append(common(), spec.Msg("home_addr", "Addr").FlatP("home_").R("required:true"), spec.Msg("geo", "Geo").Flat().R("required:true"), spec.Msg("work_addr", "Addr").FlatP("work_"))...)},
			{"FlatOneofWords", "flat_oneof", spec.M("FlatOneofWords", append(common(), txt(), img())...).WithOneof(&spec.Oneof{Name: "content", Config: true, Disc: "type", Flatten: true})},
			// a flattened oneof whose variant messages have required fields of their own, beside two required common fields
			{"FlatOneofReqWords", "flat_oneof_required", spec.M("FlatOneofReqWords", spec.F("pay_id", "string").R("required:true"), spec.F("currency_code", "string").R("required:true"), spec.F("memo_text", "string"),
				spec.Msg("card", "CardV").In("method"), spec.Msg("bank", "BankV").In("method"), spec.Msg("cash", "CashV").In("method")).WithOneof(&spec.Oneof{Name: "method", Config: true, Disc: "type", Flatten: true})},
			// a flattened oneof whose variants have required members named like the oneof's own members (the variant field itself, a sibling variant)
			{"FlatOneofSelfWords", "flat_oneof_self_named", spec.M("FlatOneofSelfWords", spec.F("ref_id", "string").R("required:true"),
				spec.Msg("text", "TextV").In("payload"), spec.Msg("image", "ImageV").In("payload")).WithOneof(&spec.Oneof{Name: "payload", Config: true, Disc: "type", Flatten: true})},
			// required on fields of every structural kind
			{"StructuralWords", "structural", spec.M("StructuralWords", append(common(), spec.Msg("main_addr", "Addr").R("required:true"), spec.F("tag_list", "string").Rep().R("required:true"),
				spec.F("attr_map", "string").Map().R("required:true"), spec.Msg("seen_at", ".google.protobuf.Timestamp").R("required:true"), spec.F("raw_data", "bytes").R("required:true"), spec.F("is_set", "bool").R("required:true"))...)},
		}
		// required on fields with explicit presence: proto3 optional and members of a real oneof
		presence := spec.M("PresenceWords", spec.F("nick_name", "string").Opt().R("required:true"), spec.F("plain_name", "string").R("required:true"), spec.F("free_text", "string").Opt(),
			spec.F("email_addr", "string").In("contact").R("required:true"), spec.F("phone_no", "string").In("contact")).WithOneof(&spec.Oneof{Name: "contact"})
		msgs := []*spec.Message{spec.M("TextContent", spec.F("body", "string")), spec.M("ImageContent", spec.F("url", "string")), spec.M("BarList", spec.F("values", "int32").Rep().Unw()), spec.M("Out", spec.F("ok", "bool")),
			spec.M("Addr", spec.F("street", "string"), spec.F("zip", "string")), spec.M("Geo", spec.F("lat", "double"), spec.F("lon", "double")),
			spec.M("CardV", spec.F("card_number", "string").R("required:true"), spec.F("holder_name", "string")), spec.M("BankV", spec.F("iban_code", "string").R("required:true")),
			spec.M("CashV", spec.F("till_no", "int32").R("required:true"), spec.F("clerk_id", "string").R("required:true")),
			spec.M("TextV", spec.F("text", "string").R("required:true"), spec.F("lang_code", "string").R("required:true")),
			spec.M("ImageV", spec.F("url", "string").R("required:true"), spec.F("text", "string"))}
		svc := spec.Svc("RuleShapeService", "/rs")
		for _, sh := range shapes {
			msgs = append(msgs, sh.m)
			svc.Methods = append(svc.Methods, spec.RPC("Check"+sh.name, sh.name, "Out", "POST", "/"+sh.key))
			if sh.key == "flat_oneof_required" {
				for _, fn := range []string{"pay_id", "currency_code"} {
					cs = append(cs, RuleCase{Msg: sh.name, Field: fn, Kind: "string", Label: "rule=required,shape=" + sh.key + ",field=" + fn, Rules: "required:true"})
				}
				cs = append(cs, RuleCase{Msg: sh.name, Field: "memo_text", Kind: "string", Label: "rule=none,shape=" + sh.key + ",field=memo_text", Rules: ""})
				continue
			}
			if sh.key == "flat_oneof_self_named" {
				cs = append(cs, RuleCase{Msg: sh.name, Field: "ref_id", Kind: "string", Label: "rule=required,shape=" + sh.key + ",field=ref_id", Rules: "required:true"})
				continue
			}
			for _, f := range common() {
				rule := map[string]string{"account_id": "rule=required", "display_name": "rule=min_len,bound=2", "unit_count": "rule=gt,bound=0", "currency_code": "rule=max_len,bound=5", "max_items": "rule=required"}[f.Name]
				rules := map[string]string{"account_id": "required:true", "display_name": "string:{min_len:2}", "unit_count": "int32:{gt:0}", "currency_code": "string:{max_len:5}", "max_items": "required:true"}[f.Name]
				cs = append(cs, RuleCase{Msg: sh.name, Field: f.Name, Kind: f.Kind, Label: rule + ",shape=" + sh.key + ",field=" + f.Name, Rules: rules})
			}
		}
		msgs = append(msgs, presence)
		svc.Methods = append(svc.Methods, spec.RPC("CheckPresenceWords", "PresenceWords", "Out", "POST", "/presence"))
		for _, fn := range []string{"nick_name", "plain_name", "free_text", "email_addr", "phone_no"} {
			rule, rules := "rule=required", "required:true"
			if fn == "free_text" || fn == "phone_no" {
				rule, rules = "rule=none", ""
			}
			cs = append(cs, RuleCase{Msg: "PresenceWords", Field: fn, Kind: "string", Label: rule + ",shape=presence,field=" + fn, Rules: rules})
		}
		f := &spec.File{Messages: msgs, Services: []*spec.Service{svc}}
		out = append(out, withCell(spec.One("rules_shapes", f), "rules/kind=shapes", "extended", "valid", "rules"))
		cases["rules_shapes"] = cs
	}
	return out, cases
}
