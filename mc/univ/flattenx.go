package univ

import "verif/mc/spec"

// FlattenSpecs is F-flatten: child-name shapes (same name as the flatten field, multi-word names, digits),
// prefixes, two flattened children, annotated child members.
func FlattenSpecs() []*spec.Spec {
	f := &spec.File{
		Messages: []*spec.Message{
			spec.M("Contact", spec.F("contact", "string"), spec.F("kind", "string")),
			spec.M("Lead", spec.F("id", "string"), spec.Msg("contact", "Contact").Flat()),
			spec.M("Money", spec.F("amount", "int64"), spec.F("currency", "string")),
			spec.M("Invoice", spec.F("id", "string"), spec.Msg("amount", "Money").Flat()),
			spec.M("Addr", spec.F("street_name", "string"), spec.F("zip_code", "string"), spec.F("line2", "string"), spec.F("http_url", "string")),
			spec.M("MultiWord", spec.F("id", "string"), spec.Msg("home_address", "Addr").Flat()),
			spec.M("MultiWordPrefixed", spec.F("id", "string"), spec.Msg("home_address", "Addr").FlatP("home_"), spec.Msg("work_address", "Addr").FlatP("work_")),
			spec.M("Nums", spec.F("big", "int64"), spec.F("small", "int32"), spec.F("ratio", "double"), spec.F("flag", "bool"), spec.F("raw", "bytes")),
			spec.M("NumHolder", spec.F("id", "string"), spec.Msg("nums", "Nums").FlatP("n_")),
			// prefix relations between siblings: one flatten prefix is a proper prefix of another (both declaration orders), a
			// prefix that is a prefix of a plain sibling's name, and a prefixed child beside an unprefixed one
			spec.M("Party", spec.F("name", "string"), spec.F("city", "string")),
			spec.M("PrefixOfPrefix", spec.F("id", "string"), spec.Msg("ship", "Party").FlatP("ship_"), spec.Msg("ship_to", "Party").FlatP("ship_to_")),
			spec.M("PrefixOfPrefixRev", spec.F("id", "string"), spec.Msg("ship_to", "Party").FlatP("ship_to_"), spec.Msg("ship", "Party").FlatP("ship_")),
			spec.M("PrefixOfSibling", spec.F("id", "string"), spec.Msg("ship", "Party").FlatP("ship_"), spec.F("ship_date", "string"), spec.F("shipment_no", "int32")),
			spec.M("PrefixedAndBare", spec.F("id", "string"), spec.Msg("from", "Party").FlatP("from_"), spec.Msg("at", "Contact").Flat()),
			spec.M("Inner", spec.F("label", "string"), spec.Msg("deep", "Contact")),
			spec.M("NestedChild", spec.F("id", "string"), spec.Msg("inner", "Inner").Flat()),
		},
		Services: []*spec.Service{EchoService("FlattenShapeService", "Lead", "Invoice", "MultiWord", "MultiWordPrefixed", "NumHolder", "NestedChild", "PrefixOfPrefix", "PrefixOfPrefixRev", "PrefixOfSibling", "PrefixedAndBare")},
	}
	return []*spec.Spec{withCell(spec.One("flat_shapes", f), "flatten/unit=child_name_shapes", "extended", "valid", "codec")}
}
