package univ

import (
	"fmt"
	"strings"

	"verif/mc/spec"
)

// XMultiSameMethod: two services of one file declare an RPC with the same name.
func XMultiSameMethod() *spec.Spec {
	f := &spec.File{
		Messages: []*spec.Message{spec.M("PingRequest", spec.F("id", "string")), spec.M("PingResponse", spec.F("id", "string"))},
		Services: []*spec.Service{
			spec.Svc("AlphaService", "/alpha", spec.RPC("Ping", "PingRequest", "PingResponse", "POST", "/ping")),
			spec.Svc("BetaService", "/beta", spec.RPC("Ping", "PingRequest", "PingResponse", "POST", "/ping")),
		},
	}
	return withCell(spec.One("x_multi_samemethod", f), "ext/unit=multi_same_method", "extended", "valid")
}

// Extended returns the extended families (everything beyond the documented core combinations).
func Extended(thorough bool) []*spec.Spec {
	out := []*spec.Spec{XMultiSameMethod(), XCrossFile(), XTwoServiceFiles(), XTimestampCards(), XTimestampCardsFmt(), XEmptyOrders(), XOneofSiblings(), XSharedMethodHeader(), XQuotedHeaderTexts(), XQuotedAnnotationValues(), XForeignResponse(), XSameNamedNestedEnums(), XOneofVariantShapes(), XInt64Cards(), XHeaderNameShapes(), XParamNameClashes(), XHeaderOverrideShapes(), XUnwrapWrapperShapes(), XProto2Basic(), XSharedTypesAcrossServiceFiles(), XHeaderTypeFormat(), XNestedAnnotated(), XHeaderSpellingTypes(), XUnwrapCycles(), XTwoGoPackages(false), XTwoGoPackages(true), XJSONNames(), XSameServiceNameTwoPackages(), XOneofUnsetNameClash(), XMapBeforeMessages(), XServiceHeaderCounts()}
	out = append(out, XWellKnownPositions()...)
	out = append(out, XAnnotationCards()...)
	out = append(out, XIdentifierShapes()...)
	out = append(out, CtxSpecs()...)
	out = append(out, CodecHostSpecs()...)
	out = append(out, RouteSpecs(thorough)...)
	out = append(out, BindSpecs(thorough)...)
	out = append(out, FlattenSpecs()...)
	return out
}

// XCrossFile: annotated types live in a service-less file of the same Go package; the service file uses them.
func XCrossFile() *spec.Spec {
	pkg := "vx_xfile"
	types := &spec.File{Path: "x_xfile_types.proto", Package: pkg,
		Enums: []*spec.Enum{{Name: "Level", Values: []*spec.EnumValue{{Name: "LEVEL_UNSPECIFIED", Num: 0, Custom: spec.Str("none")}, {Name: "LEVEL_HIGH", Num: 1, Custom: spec.Str("high")}}}},
		Messages: []*spec.Message{
			spec.M("Money", spec.F("units", "int64").I64(spec.EncNumber), spec.F("currency", "string")),
			spec.M("Blob", spec.F("data", "bytes").BEnc(spec.BytesHex)),
			spec.M("Stamp", spec.Ts("at").TsF(spec.TsUnixMs)),
			spec.M("Geo", spec.F("lat", "double"), spec.F("lng", "double")),
			spec.M("Place", spec.F("name", "string"), spec.Msg("geo", "Geo").FlatP("geo_"), spec.F("note", "string").Opt()),
			spec.M("Noted", spec.F("note", "string").Opt().Null()),
			spec.M("Tagged", spec.En("level", "Level"), spec.Msg("meta", "Geo").Empty(spec.EmptyOmit)),
			spec.M("Items", spec.Msg("items", "Money").Rep().Unw()),
			spec.M("Shape", spec.Msg("money", "Money").In("kind"), spec.Msg("geo", "Geo").In("kind")).WithOneof(&spec.Oneof{Name: "kind", Config: true, Disc: "type"}),
		}}
	svc := &spec.File{Path: "x_xfile.proto", Package: pkg, Imports: []string{types.Path},
		Messages: []*spec.Message{
			spec.M("ItemsByKey", spec.Msg("data", "Items").Map().Unw()),
			// the annotated enums of the other files used DIRECTLY as field types here (singular, repeated, optional): their codecs
			// belong to the files that declare them
			spec.M("Order", spec.F("id", "string"), spec.Msg("total", "Money"), spec.Msg("blob", "Blob"), spec.Msg("stamp", "Stamp"), spec.Msg("place", "Place"),
				spec.Msg("tagged", "Tagged"), spec.Msg("by_key", "Items").Map(), spec.Msg("shape", "Shape"),
				spec.En("level", "Level"), spec.En("levels", "Level").Rep(), spec.En("grade", "Grade").Opt()),
		},
		Services: []*spec.Service{EchoService("OrderService", "Order", "Money", "Place", "Shape")}}
	// a file that declares nothing but an enum with custom values (it still needs its codec file from both Go plugins)
	enumsOnly := &spec.File{Path: "x_xfile_enums.proto", Package: pkg,
		Enums: []*spec.Enum{{Name: "Grade", Values: []*spec.EnumValue{{Name: "GRADE_UNSPECIFIED", Num: 0, Custom: spec.Str("none")}, {Name: "GRADE_A", Num: 1, Custom: spec.Str("a")}}}}}
	svc.Imports = append(svc.Imports, enumsOnly.Path)
	// an unrelated sibling of the package, not imported by the service file, with field examples of its own (the mock of the
	// service file is a function of that file and what it imports)
	other := &spec.File{Path: "x_xfile_other.proto", Package: pkg,
		Messages: []*spec.Message{spec.M("Unrelated", spec.F("big", "uint64").I64(spec.EncNumber), spec.F("actor", "string").Ex("alice", "bob"))}}
	s := &spec.Spec{Name: "x_xfile", Files: []*spec.File{types, enumsOnly, svc, other}}
	return withCell(s, "ext/unit=cross_file", "extended", "valid", "genonly", "multifile")
}

// XTwoServiceFiles: two files of one Go package, each with a service.
func XTwoServiceFiles() *spec.Spec {
	pkg := "vx_twosvc"
	a := &spec.File{Path: "x_twosvc_a.proto", Package: pkg,
		Messages: []*spec.Message{spec.M("AReq", spec.F("id", "string")), spec.M("AResp", spec.F("id", "string"))},
		Services: []*spec.Service{spec.Svc("AService", "/a", spec.RPC("GetA", "AReq", "AResp", "POST", "/get")).H(apiKey)}}
	b := &spec.File{Path: "x_twosvc_b.proto", Package: pkg,
		Messages: []*spec.Message{spec.M("BReq", spec.F("id", "string")), spec.M("BResp", spec.F("id", "string"))},
		Services: []*spec.Service{spec.Svc("BService", "/b", spec.RPC("GetB", "BReq", "BResp", "POST", "/get"))}}
	s := &spec.Spec{Name: "x_twosvc", Files: []*spec.File{a, b}}
	return withCell(s, "ext/unit=two_service_files", "extended", "valid", "genonly", "multifile")
}

// XTimestampCards: timestamps in repeated / map position (default format).
func XTimestampCards() *spec.Spec {
	f := &spec.File{Messages: []*spec.Message{
		spec.M("TsCards", spec.Ts("at"), spec.Ts("list").Rep(), spec.Ts("by_key").Map(), spec.F("name", "string")),
		spec.M("TsMixed", spec.Ts("at").TsF(spec.TsUnixMs), spec.Ts("list").Rep(), spec.Ts("by_key").Map()),
	}, Services: []*spec.Service{EchoService("TsCardService", "TsCards", "TsMixed")}}
	return withCell(spec.One("x_ts_cards", f), "ext/unit=timestamp_cardinalities", "extended", "valid", "codec")
}

// XTimestampCardsFmt: timestamp_format on repeated Timestamp fields.
func XTimestampCardsFmt() *spec.Spec {
	f := &spec.File{Messages: []*spec.Message{
		spec.M("TsFmtList", spec.Ts("secs_list").Rep().TsF(spec.TsUnixSec), spec.Ts("dates").Rep().TsF(spec.TsDate), spec.F("name", "string")),
	}, Services: []*spec.Service{EchoService("TsFmtListService", "TsFmtList")}}
	return withCell(spec.One("x_ts_cards_fmt", f), "ext/unit=timestamp_format_repeated", "extended", "valid", "codec")
}

// XEmptyOrders: empty_behavior values in every declaration order.
func XEmptyOrders() *spec.Spec {
	vals := []struct {
		n string
		v int32
	}{{"preserve", spec.EmptyPreserve}, {"null", spec.EmptyNull}, {"omit", spec.EmptyOmit}}
	var msgs []*spec.Message
	var names []string
	msgs = append(msgs, spec.M("Meta", spec.F("k", "string")))
	perms := [][]int{{0, 1, 2}, {0, 2, 1}, {1, 0, 2}, {1, 2, 0}, {2, 0, 1}, {2, 1, 0}, {1, 2}, {2, 1}, {1, 0}, {0, 1}, {1}, {2}, {0}}
	for _, p := range perms {
		name := "Eb"
		m := spec.M("", spec.F("id", "string"))
		for _, i := range p {
			name += string(vals[i].n[0]-32) + vals[i].n[1:]
			m.Fields = append(m.Fields, spec.Msg("m_"+vals[i].n, "Meta").Empty(vals[i].v))
		}
		m.Name = name
		msgs = append(msgs, m)
		names = append(names, name)
	}
	f := &spec.File{Messages: msgs, Services: []*spec.Service{EchoService("EmptyOrderService", names...)}}
	return withCell(spec.One("x_empty_orders", f), "ext/unit=empty_behavior_orders", "extended", "valid", "codec")
}

// OASShapes: shapes that stress component naming and reachability in the OpenAPI generator.
func OASShapes() []*spec.Spec {
	var out []*spec.Spec
	{
		// same-named nested types in two parents
		a := spec.M("Order", spec.F("id", "string"), spec.Msg("item", "Order.Item")).WithNested(spec.M("Item", spec.F("sku", "string")))
		b := spec.M("Invoice", spec.F("id", "string"), spec.Msg("item", "Invoice.Item")).WithNested(spec.M("Item", spec.F("amount", "int64"), spec.Msg("facet", "Facet"), spec.Msg("tags", "Tag").Map()))
		f := &spec.File{Messages: []*spec.Message{a, b, spec.M("Facet", spec.F("name", "string"), spec.Msg("deep", "Deeper")), spec.M("Deeper", spec.F("n", "int32")), spec.M("Tag", spec.F("label", "string"))},
			Services: []*spec.Service{EchoService("NestedService", "Order", "Invoice")}}
		out = append(out, withCell(spec.One("oas_same_nested", f), "oas/unit=same_named_nested", "extended", "valid", "genonly"))
	}
	{
		// messages with schema side products (flattened / nested discriminated oneofs, flatten, unwrap) shared by several services
		mk := func() []*spec.Message {
			return []*spec.Message{
				spec.M("TextContent", spec.F("body", "string")), spec.M("ImageContent", spec.F("url", "string")),
				spec.M("Event", spec.F("id", "string"), spec.Msg("text", "TextContent").In("content"), spec.Msg("image", "ImageContent").In("content")).
					WithOneof(&spec.Oneof{Name: "content", Config: true, Disc: "type", Flatten: true}),
				spec.M("Envelope", spec.F("id", "string"), spec.Msg("text", "TextContent").In("content"), spec.Msg("image", "ImageContent").In("content")).
					WithOneof(&spec.Oneof{Name: "content", Config: true, Disc: "kind"}),
				spec.M("Addr", spec.F("street", "string")), spec.M("Person", spec.F("name", "string"), spec.Msg("home", "Addr").FlatP("home_")),
				spec.M("Bars", spec.F("values", "int32").Rep().Unw()), spec.M("BarsByKey", spec.Msg("data", "Bars").Map()),
				spec.M("Feed", spec.Msg("events", "Event").Rep(), spec.Msg("envelopes", "Envelope").Map(), spec.Msg("owner", "Person"), spec.Msg("bars", "BarsByKey")),
			}
		}
		f := &spec.File{Messages: mk(), Services: []*spec.Service{
			EchoService("EventService", "Event", "Envelope", "Person", "BarsByKey"),
			EchoService("FeedService", "Feed"),
			EchoService("MirrorService", "Event", "Feed"),
		}}
		out = append(out, withCell(spec.One("oas_shared_side_products", f), "oas/unit=shared_across_services", "extended", "valid", "genonly"))
	}
	{
		// nested declarations that no field of the service's messages refers to, referring to otherwise unreachable messages
		list := spec.M("ListResponse", spec.F("names", "string").Rep(), spec.Msg("first", "ListResponse.Entry")).WithNested(
			spec.M("Entry", spec.F("name", "string")),
			spec.M("Page", spec.Msg("next", "Cursor"), spec.Msg("by_shard", "ShardInfo").Map()))
		f := &spec.File{Messages: []*spec.Message{list, spec.M("Cursor", spec.F("token", "string"), spec.Msg("origin", "Origin")), spec.M("Origin", spec.F("host", "string")),
			spec.M("ShardInfo", spec.F("n", "int32")), spec.M("AdminReq", spec.Msg("page", "ListResponse.Page")), spec.M("Req", spec.F("q", "string"))},
			Services: []*spec.Service{
				spec.Svc("CatalogService", "/c", spec.RPC("List", "Req", "ListResponse", "POST", "/list")),
				spec.Svc("AdminService", "/a", spec.RPC("Seek", "AdminReq", "ListResponse", "POST", "/seek")),
			}}
		out = append(out, withCell(spec.One("oas_unused_nested", f), "oas/unit=unused_nested_declarations", "extended", "valid", "genonly"))
	}
	{
		// recursive and mutually recursive types
		f := &spec.File{Messages: []*spec.Message{
			spec.M("Tree", spec.F("label", "string"), spec.Msg("children", "Tree").Rep(), spec.Msg("parent", "Tree")),
			spec.M("Ping", spec.Msg("pong", "Pong")), spec.M("Pong", spec.Msg("ping", "Ping"), spec.Msg("by_key", "Ping").Map()),
		}, Services: []*spec.Service{EchoService("RecService", "Tree", "Ping")}}
		out = append(out, withCell(spec.One("oas_recursive", f), "oas/unit=recursive", "extended", "valid", "genonly"))
	}
	{
		// enum values and strings that look like other YAML types
		e := &spec.Enum{Name: "Odd", Values: []*spec.EnumValue{{Name: "ODD_UNSPECIFIED", Num: 0, Custom: spec.Str("null")}, {Name: "ODD_A", Num: 1, Custom: spec.Str("123")},
			{Name: "ODD_B", Num: 2, Custom: spec.Str("true")}, {Name: "ODD_C", Num: 3, Custom: spec.Str("1e3")}, {Name: "ODD_D", Num: 4, Custom: spec.Str("yes")}, {Name: "ODD_E", Num: 5, Custom: spec.Str("~")}}}
		f := &spec.File{Enums: []*spec.Enum{e}, Messages: []*spec.Message{
			spec.M("Req", spec.En("odd", "Odd"), spec.F("name", "string").Ex("123", "true", "null", "1e3", "0x1F", "2024-01-15").R(`string:{in:["123","true","no"]}`)),
			spec.M("Resp", spec.F("ok", "bool")),
		}, Services: []*spec.Service{
			spec.Svc("YamlService", "/y", spec.RPC("Do", "Req", "Resp", "POST", "/do")).H(&spec.Header{Name: "X-Num", Type: "string", Required: true, Example: "123", Description: "yes: # 'quoted'"})}}
		f.Services[0].Comment = "Service with YAML-special characters: # ' \" {}"
		f.Messages[0].Comment = "multi\nline: comment"
		out = append(out, withCell(spec.One("oas_yamlish", f), "oas/unit=yaml_lookalike_strings", "extended", "valid", "genonly"))
	}
	return out
}

// XSharedMethodHeader: two RPCs declare the same method-level header; a third one declares none.
func XSharedMethodHeader() *spec.Spec {
	idem := &spec.Header{Name: "X-Idempotency-Key", Type: "string", Required: true}
	f := &spec.File{Messages: []*spec.Message{spec.M("OrderReq", spec.F("name", "string")), spec.M("CancelReq", spec.F("order_id", "string"), spec.F("reason", "string")), spec.M("Out", spec.F("ok", "bool"))},
		Services: []*spec.Service{spec.Svc("OrderService", "/api/v1",
			spec.RPC("CreateOrder", "OrderReq", "Out", "POST", "/orders").H(idem),
			spec.RPC("CancelOrder", "CancelReq", "Out", "POST", "/orders/{order_id}/cancel").H(idem),
			spec.RPC("PingOrder", "OrderReq", "Out", "POST", "/orders/ping"),
		).H(apiKey)}}
	return withCell(spec.One("x_shared_method_header", f), "ext/unit=shared_method_header", "extended", "valid")
}

// XOneofSiblings: a discriminated oneof beside proto3 optional fields, a second plain oneof and a second discriminated oneof.
func XOneofSiblings() *spec.Spec {
	txt := func() *spec.Field { return spec.Msg("text", "TextContent").In("content") }
	img := func() *spec.Field { return spec.Msg("image", "ImageContent").In("content") }
	f := &spec.File{Messages: []*spec.Message{
		spec.M("TextContent", spec.F("body", "string")),
		spec.M("ImageContent", spec.F("url", "string"), spec.F("width", "int32")),
		spec.M("FlatWithOptional", spec.F("id", "string"), spec.F("note", "string").Opt(), txt(), img(), spec.F("rank", "int32").Opt()).
			WithOneof(&spec.Oneof{Name: "content", Config: true, Disc: "type", Flatten: true}),
		spec.M("NestedWithOptional", spec.F("id", "string"), spec.F("note", "string").Opt(), txt(), img()).
			WithOneof(&spec.Oneof{Name: "content", Config: true, Disc: "kind"}),
		spec.M("FlatWithPlainOneof", spec.F("id", "string"), txt(), img(), spec.F("tag", "string").In("extra"), spec.F("code", "int32").In("extra")).
			WithOneof(&spec.Oneof{Name: "content", Config: true, Disc: "type", Flatten: true}, &spec.Oneof{Name: "extra"}),
		spec.M("NestedWithPlainOneof", spec.F("id", "string"), spec.F("tag", "string").In("extra"), spec.F("code", "int32").In("extra"), txt(), img()).
			WithOneof(&spec.Oneof{Name: "extra"}, &spec.Oneof{Name: "content", Config: true, Disc: "kind"}),
	}, Services: []*spec.Service{EchoService("OneofSiblingService", "FlatWithOptional", "NestedWithOptional", "FlatWithPlainOneof", "NestedWithPlainOneof")}}
	return withCell(spec.One("x_oneof_siblings", f), "ext/unit=oneof_siblings", "extended", "valid", "codec")
}

// XQuotedHeaderTexts: header metadata and comments containing quotes, backslashes and newlines.
func XQuotedHeaderTexts() *spec.Spec {
	h := &spec.Header{Name: "X-Note", Type: "string", Required: false, Description: `the "note" header \ with a backslash`, Example: `say "hi"`}
	f := &spec.File{Messages: []*spec.Message{spec.M("Req", spec.F("name", "string")), spec.M("Out", spec.F("ok", "bool"))},
		Services: []*spec.Service{spec.Svc("QuoteService", "/q", spec.RPC("Do", "Req", "Out", "POST", "/do").H(&spec.Header{Name: "X-Method-Note", Type: "string", Description: `method "level"`})).H(h)}}
	f.Services[0].Comment = `Service "with" quotes and a \ backslash`
	f.Messages[0].Comment = "line one\nline \"two\""
	return withCell(spec.One("x_quoted_texts", f), "ext/unit=quoted_header_texts", "extended", "valid")
}

// XQuotedAnnotationValues: custom enum values and oneof discriminator values containing quotes and backslashes.
func XQuotedAnnotationValues() *spec.Spec {
	e := &spec.Enum{Name: "Mood", Values: []*spec.EnumValue{{Name: "MOOD_UNSPECIFIED", Num: 0, Custom: spec.Str(`so "so"`)}, {Name: "MOOD_UP", Num: 1, Custom: spec.Str(`up\north`)}, {Name: "MOOD_PLAIN", Num: 2, Custom: spec.Str("it's")}}}
	f := &spec.File{Enums: []*spec.Enum{e}, Messages: []*spec.Message{
		spec.M("TextContent", spec.F("body", "string")), spec.M("ImageContent", spec.F("url", "string")),
		spec.M("Feeling", spec.F("id", "string"), spec.En("mood", "Mood"), spec.En("moods", "Mood").Rep()),
		spec.M("Quoted", spec.F("id", "string"), spec.Msg("text", "TextContent").In("content").OV(`te"xt`), spec.Msg("image", "ImageContent").In("content").OV(`im\age`)).
			WithOneof(&spec.Oneof{Name: "content", Config: true, Disc: "type", Flatten: true}),
	}, Services: []*spec.Service{EchoService("QuotedValueService", "Feeling", "Quoted")}}
	return withCell(spec.One("x_quoted_values", f), "ext/unit=quoted_annotation_values", "extended", "valid", "codec")
}

// XForeignResponse: RPCs whose request or response message lives in another Go package (a well-known type).
func XForeignResponse() *spec.Spec {
	f := &spec.File{Messages: []*spec.Message{spec.M("Req", spec.F("id", "string")), spec.M("Resp", spec.F("ok", "bool"))},
		Services: []*spec.Service{spec.Svc("ClockService", "/clock",
			spec.RPC("Now", "Req", ".google.protobuf.Timestamp", "POST", "/now"),
			spec.RPC("SetNow", ".google.protobuf.Timestamp", "Resp", "POST", "/set"),
			spec.RPC("Local", "Req", "Resp", "POST", "/local"),
		)}}
	return withCell(spec.One("x_foreign_response", f), "ext/unit=foreign_package_messages", "extended", "valid", "genonly")
}

// XSameNamedNestedEnums: enums of the same short name in different scopes, each with custom values.
func XSameNamedNestedEnums() *spec.Spec {
	st := func(vals ...string) *spec.Enum {
		e := &spec.Enum{Name: "Status"}
		for i, v := range vals {
			e.Values = append(e.Values, &spec.EnumValue{Name: fmt.Sprintf("STATUS_%d", i), Num: int32(i), Custom: spec.Str(v)})
		}
		return e
	}
	order := spec.M("Order", spec.F("id", "string"), spec.En("status", "Order.Status"))
	order.Enums = []*spec.Enum{st("new", "paid")}
	invoice := spec.M("Invoice", spec.F("id", "string"), spec.En("status", "Invoice.Status"), spec.En("top", "Status"))
	invoice.Enums = []*spec.Enum{st("draft", "sent", "settled")}
	f := &spec.File{Enums: []*spec.Enum{st("unknown", "top")}, Messages: []*spec.Message{order, invoice},
		Services: []*spec.Service{EchoService("ShopService", "Order", "Invoice")}}
	return withCell(spec.One("x_same_named_enums", f), "ext/unit=same_named_nested_enums", "extended", "valid", "genonly")
}

// XOneofVariantShapes: the variant-shape family — a flattened discriminated, a nested discriminated and a plain oneof, each
// over variant messages of every shape: no fields at all, one scalar, one optional scalar, a repeated field, a map, a nested
// message, a 64-bit integer, an enum, a timestamp and bytes. Field names are distinct so that flattened children do not collide.
func XOneofVariantShapes() *spec.Spec {
	variants := []*spec.Message{
		spec.M("VEmpty"),
		spec.M("VScalar", spec.F("text", "string")),
		spec.M("VOptional", spec.F("count", "int32").Opt()),
		spec.M("VRepeated", spec.F("tags", "string").Rep()),
		spec.M("VMap", spec.F("attrs", "string").Map()),
		spec.M("VNested", spec.Msg("inner", "VScalar")),
		spec.M("VBig", spec.F("total", "int64")),
		spec.M("VEnum", spec.En("shade", "Shade")),
		spec.M("VTime", spec.Msg("at", ".google.protobuf.Timestamp")),
		spec.M("VBytes", spec.F("blob", "bytes")),
		// a variant whose member has the name of the variant field itself (flattened: {"type":"self","self":"x"})
		spec.M("VSelf", spec.F("self", "string"), spec.F("extra", "string")),
	}
	members := func() []*spec.Field {
		out := []*spec.Field{spec.F("id", "string")}
		for _, v := range variants {
			out = append(out, spec.Msg(strings.ToLower(v.Name[1:]), v.Name).In("shape"))
		}
		return out
	}
	f := &spec.File{Enums: []*spec.Enum{spec.E("Shade", "SHADE_UNSPECIFIED", "SHADE_DARK", "SHADE_LIGHT")}, Messages: append(variants,
		spec.M("FlatShapes", members()...).WithOneof(&spec.Oneof{Name: "shape", Config: true, Disc: "type", Flatten: true}),
		spec.M("NestedShapes", members()...).WithOneof(&spec.Oneof{Name: "shape", Config: true, Disc: "kind"}),
		spec.M("PlainShapes", members()...).WithOneof(&spec.Oneof{Name: "shape"}),
	), Services: []*spec.Service{EchoService("VariantShapeService", "FlatShapes", "NestedShapes", "PlainShapes")}}
	return withCell(spec.One("x_oneof_variant_shapes", f), "ext/unit=oneof_variant_shapes", "extended", "valid", "codec")
}

// XInt64Cards: int64_encoding NUMBER on every cardinality a 64-bit field can have: singular, proto3 optional, repeated, member of a
// real oneof - for a signed and an unsigned kind, beside unannotated fields of the same cardinalities.
func XInt64Cards() *spec.Spec {
	var fs, members []*spec.Field
	for _, k := range []string{"int64", "uint64"} {
		fs = append(fs, spec.F(k+"_one", k).I64(spec.EncNumber), spec.F(k+"_opt", k).I64(spec.EncNumber).Opt(), spec.F(k+"_many", k).I64(spec.EncNumber).Rep(), spec.F(k+"_plain_opt", k).Opt(),
			// the annotation on a map field whose VALUES are 64-bit (the generators accept it), beside an unannotated map
			spec.F(k+"_by_key", k).Map().I64(spec.EncNumber), spec.F(k+"_plain_by_key", k).Map())
		members = append(members, spec.F(k+"_pick", k).I64(spec.EncNumber).In("choice"))
	}
	fs = append(append(fs, members...), spec.F("label", "string").In("choice"))
	f := &spec.File{Messages: []*spec.Message{spec.M("Int64Cards", fs...).WithOneof(&spec.Oneof{Name: "choice"})},
		Services: []*spec.Service{EchoService("Int64CardService", "Int64Cards")}}
	return withCell(spec.One("x_int64_cards", f), "ext/unit=int64_cards", "extended", "valid", "codec")
}

// XHeaderNameShapes: the header-name family - distinct header names that come close to each other once they are turned into
// identifiers or compared case-insensitively (with / without the X- prefix, hyphen placement, letter case, digits, a name that
// is a Go keyword once stripped), at every pair of levels: two service headers, service + method, two method headers of one
// RPC, the same pair on two RPCs.
func XHeaderNameShapes() *spec.Spec {
	h := func(n string) *spec.Header { return &spec.Header{Name: n, Type: "string", Required: false} }
	msgs := []*spec.Message{spec.M("Req", spec.F("name", "string")), spec.M("Out", spec.F("ok", "bool"))}
	f := &spec.File{Messages: msgs, Services: []*spec.Service{
		spec.Svc("PrefixService", "/hp",
			spec.RPC("ImportSpan", "Req", "Out", "POST", "/import").H(h("Trace-ID"), h("X-Idempotency-Key")),
			spec.RPC("ExportSpan", "Req", "Out", "POST", "/export").H(h("X-Idempotency-Key"), h("Idempotency-Key")),
			spec.RPC("PlainSpan", "Req", "Out", "POST", "/plain"),
		).H(h("X-Trace-ID"), h("X-Span-ID"), h("Span-ID")),
		spec.Svc("HyphenService", "/hh",
			spec.RPC("One", "Req", "Out", "POST", "/one").H(h("X-RequestID"), h("X-Rate-Limit-1")),
			spec.RPC("Two", "Req", "Out", "POST", "/two").H(h("X-Request-ID"), h("X-Rate-Limit1")),
			// names that differ in letter case only, at service + method level and twice at method level
			spec.RPC("Three", "Req", "Out", "POST", "/three").H(h("X-Request-Id"), h("X-Corr-ID"), h("X-Corr-Id"), h("x-corr-id")),
		).H(h("X-Request-ID"), h("X-Type"), h("X-Func"), h("X-2FA-Code")),
	}}
	return withCell(spec.One("x_header_name_shapes", f), "ext/unit=header_name_shapes", "extended", "valid")
}

// XWellKnownPositions: well-known types other than Timestamp (Duration, a wrapper, Struct, Empty, FieldMask) in every structural
// position a message type can take - plain, repeated and map-valued field, variant of a nested and of a flattened discriminated
// oneof, value of a root map unwrap, element of a root list unwrap, request and response of an RPC. Generation-level unit: the
// documents and packages must be complete and well-formed whatever mapping the generators choose for these types.
func XWellKnownPositions() []*spec.Spec {
	var out []*spec.Spec
	for _, w := range []struct{ key, typ, imp string }{
		{"duration", ".google.protobuf.Duration", "google/protobuf/duration.proto"},
		{"string_value", ".google.protobuf.StringValue", "google/protobuf/wrappers.proto"},
		{"struct", ".google.protobuf.Struct", "google/protobuf/struct.proto"},
		{"empty", ".google.protobuf.Empty", "google/protobuf/empty.proto"},
		{"field_mask", ".google.protobuf.FieldMask", "google/protobuf/field_mask.proto"},
	} {
		msgs := []*spec.Message{
			spec.M("Other", spec.F("note", "string")),
			spec.M("Fields", spec.F("id", "string"), spec.Msg("one", w.typ), spec.Msg("many", w.typ).Rep(), spec.Msg("by_key", w.typ).Map()),
			spec.M("NestedVariant", spec.F("id", "string"), spec.Msg("wk", w.typ).In("choice"), spec.Msg("other", "Other").In("choice")).WithOneof(&spec.Oneof{Name: "choice", Config: true, Disc: "kind"}),
			spec.M("PlainVariant", spec.F("id", "string"), spec.Msg("wk", w.typ).In("choice"), spec.Msg("other", "Other").In("choice")).WithOneof(&spec.Oneof{Name: "choice"}),
			spec.M("RootMap", spec.Msg("entries", w.typ).Map().Unw()),
			spec.M("RootList", spec.Msg("items", w.typ).Rep().Unw()),
		}
		svc := spec.Svc("WellKnownService", "/wk",
			spec.RPC("EchoFields", "Fields", "Fields", "POST", "/fields"), spec.RPC("EchoNestedVariant", "NestedVariant", "NestedVariant", "POST", "/nested"),
			spec.RPC("EchoPlainVariant", "PlainVariant", "PlainVariant", "POST", "/plain"), spec.RPC("GetRootMap", "Other", "RootMap", "POST", "/rootmap"),
			spec.RPC("GetRootList", "Other", "RootList", "POST", "/rootlist"), spec.RPC("Direct", w.typ, w.typ, "POST", "/direct"))
		f := &spec.File{Imports: []string{w.imp}, Messages: msgs, Services: []*spec.Service{svc}}
		out = append(out, withCell(spec.One("x_wellknown_"+w.key, f), "wkt/type="+w.key, "extended", "valid", "genonly"))
	}
	return out
}

// XTwoGoPackages: every construct whose generated codec names the Go type of ANOTHER message, with that message in a different Go
// package: root map / root list unwrap of foreign messages, root map of foreign list wrappers, a map of foreign wrappers beside
// siblings, a flattened foreign child, foreign variants of a flattened and of a nested discriminated oneof. Generation-level unit
// (C13 compiles both packages for every plugin subset, C14 compares the two Go plugins' files).
//
// perPackage: the same definition generated the way protoc / buf do it for a module with several packages - one plugin invocation
// per package, the other package's file present only as a dependency of the request.
func XTwoGoPackages(perPackage bool) *spec.Spec {
	name, cell := "x_twopkg", "ext/unit=two_go_packages"
	if perPackage {
		name, cell = "x_twopkg_each", "ext/unit=two_go_packages_invoked_per_package"
	}
	common := &spec.File{Path: name + "_common.proto", Package: "v" + name + ".common", GoPackage: "verifws/u/" + name + "/common;common",
		Messages: []*spec.Message{
			spec.M("Quote", spec.F("symbol", "string"), spec.F("volume", "int64")),
			spec.M("Bars", spec.Msg("bars", "Quote").Rep().Unw()),
			spec.M("Geo", spec.F("lat", "double"), spec.F("lng", "double")),
			spec.M("Note", spec.F("text", "string")),
		}}
	c := ".v" + name + ".common."
	api := &spec.File{Path: name + ".proto", Package: "v" + name, Imports: []string{common.Path},
		Messages: []*spec.Message{
			spec.M("Req", spec.F("id", "string")),
			spec.M("QuoteBook", spec.Msg("quotes", c+"Quote").Map().Unw()),
			spec.M("QuoteList", spec.Msg("items", c+"Quote").Rep().Unw()),
			spec.M("BarsByKey", spec.Msg("data", c+"Bars").Map().Unw()),
			spec.M("Holder", spec.F("id", "string"), spec.Msg("series", c+"Bars").Map()),
			spec.M("Place", spec.F("name", "string"), spec.Msg("geo", c+"Geo").FlatP("geo_")),
			spec.M("FlatShape", spec.F("id", "string"), spec.Msg("geo", c+"Geo").In("kind"), spec.Msg("note", c+"Note").In("kind")).WithOneof(&spec.Oneof{Name: "kind", Config: true, Disc: "type", Flatten: true}),
			spec.M("NestedShape", spec.F("id", "string"), spec.Msg("geo", c+"Geo").In("kind"), spec.Msg("note", c+"Note").In("kind")).WithOneof(&spec.Oneof{Name: "kind", Config: true, Disc: "type"}),
		},
		Services: []*spec.Service{spec.Svc("TwoPkgService", "/tp",
			spec.RPC("GetBook", "Req", "QuoteBook", "POST", "/book"), spec.RPC("GetList", "Req", "QuoteList", "POST", "/list"), spec.RPC("GetBars", "Req", "BarsByKey", "POST", "/bars"),
			spec.RPC("GetHolder", "Req", "Holder", "POST", "/holder"), spec.RPC("EchoPlace", "Place", "Place", "POST", "/place"),
			spec.RPC("EchoFlat", "FlatShape", "FlatShape", "POST", "/flat"), spec.RPC("EchoNested", "NestedShape", "NestedShape", "POST", "/nested"),
			spec.RPC("GetQuote", "Req", c+"Quote", "POST", "/quote"))}}
	s2 := &spec.Spec{Name: name, Files: []*spec.File{common, api}, PerPackage: perPackage}
	return withCell(s2, cell, "extended", "valid", "codec", "multifile")
}

// XOneofUnsetNameClash: a discriminated oneof one of whose variants is spelled like the name the OpenAPI generator derives for
// the "oneof not set" branch (no_<discriminator>), by field name and by oneof_value, flattened and nested.
func XOneofUnsetNameClash() *spec.Spec {
	msgs := []*spec.Message{spec.M("NoAuth", spec.F("reason", "string")), spec.M("Basic", spec.F("user", "string")),
		spec.M("ConnFlat", spec.F("host", "string"), spec.Msg("no_auth", "NoAuth").In("auth"), spec.Msg("basic", "Basic").In("auth")).
			WithOneof(&spec.Oneof{Name: "auth", Config: true, Disc: "auth", Flatten: true}),
		spec.M("ConnNested", spec.F("host", "string"), spec.Msg("no_mode", "NoAuth").In("auth"), spec.Msg("basic", "Basic").In("auth")).
			WithOneof(&spec.Oneof{Name: "auth", Config: true, Disc: "mode"}),
		spec.M("ConnValue", spec.F("host", "string"), spec.Msg("anonymous", "NoAuth").In("auth").OV("no_kind"), spec.Msg("basic", "Basic").In("auth")).
			WithOneof(&spec.Oneof{Name: "auth", Config: true, Disc: "kind", Flatten: true}),
	}
	f := &spec.File{Messages: msgs, Services: []*spec.Service{EchoService("UnsetNameService", "ConnFlat", "ConnNested", "ConnValue")}}
	return withCell(spec.One("x_oneof_unset_name", f), "ext/unit=oneof_variant_named_like_unset_branch", "extended", "valid", "codec")
}

// XMapBeforeMessages: a scalar-valued and an enum-valued map declared BEFORE the message-typed fields and nested declarations of
// a message whose types are reachable in no other way (what a traversal does after a map field).
func XMapBeforeMessages() *spec.Spec {
	res := spec.M("Resource", spec.F("id", "string"), spec.F("labels", "string").Map(), spec.En("flags", "Flag").Map(), spec.Msg("spec", "Spec"), spec.Msg("status", "Status"),
		spec.Msg("extra", "Resource.Extra"))
	res.Messages = []*spec.Message{spec.M("Extra", spec.F("k", "string"))}
	f := &spec.File{Enums: []*spec.Enum{spec.E("Flag", "FLAG_UNSPECIFIED", "FLAG_ON")},
		Messages: []*spec.Message{spec.M("Ref", spec.F("id", "string")), res, spec.M("Spec", spec.F("size", "int32")), spec.M("Status", spec.F("phase", "string"))},
		Services: []*spec.Service{spec.Svc("ResourceService", "/r", spec.RPC("GetResource", "Ref", "Resource", "GET", "/resources/{id}"), spec.RPC("PutResource", "Resource", "Resource", "PUT", "/resources/{id}"))}}
	return withCell(spec.One("x_map_before_messages", f), "ext/unit=scalar_map_before_message_fields", "extended", "valid")
}

// XServiceHeaderCounts: services with 1..5 REQUIRED service-level headers, each with two routes that add a different required
// method header and one route that adds none (what is built once per registration from the service headers and extended per
// request must not be shared between routes).
func XServiceHeaderCounts(counts ...int) *spec.Spec {
	f := &spec.File{Messages: []*spec.Message{spec.M("Req", spec.F("name", "string")), spec.M("Resp", spec.F("name", "string"))}}
	if len(counts) == 0 {
		counts = []int{1, 2, 3, 4, 5}
	}
	for _, n := range counts {
		svc := spec.Svc(fmt.Sprintf("Hdr%dService", n), fmt.Sprintf("/h%d", n),
			spec.RPC("Alpha", "Req", "Resp", "POST", "/alpha").H(&spec.Header{Name: "X-Alpha", Type: "string", Required: true}),
			spec.RPC("Beta", "Req", "Resp", "POST", "/beta").H(&spec.Header{Name: "X-Beta", Type: "string", Required: true}),
			spec.RPC("Plain", "Req", "Resp", "POST", "/plain"))
		for i := 1; i <= n; i++ {
			svc.H(&spec.Header{Name: fmt.Sprintf("X-Svc-%d", i), Type: "string", Required: true})
		}
		f.Services = append(f.Services, svc)
	}
	return withCell(spec.One("x_service_header_counts", f), "ext/unit=service_header_counts", "extended", "valid")
}

// XSameServiceNameTwoPackages: the v1 / v2 layout - two files of different proto (and Go) packages that each declare a service of
// the SAME simple name, v2 importing a type of v1. Generation-level unit: what is emitted for one file (names and bytes) must not
// depend on whether the other one is generated in the same invocation.
func XSameServiceNameTwoPackages() *spec.Spec {
	v1 := &spec.File{Path: "x_samesvc_v1.proto", Package: "vx_samesvc.v1", GoPackage: "verifws/u/x_samesvc/v1;samesvcv1",
		Messages: []*spec.Message{spec.M("UserRef", spec.F("id", "string")), spec.M("User", spec.F("id", "string"), spec.F("name", "string"))},
		Services: []*spec.Service{spec.Svc("UserService", "/v1", spec.RPC("GetUser", "UserRef", "User", "GET", "/users/{id}"))}}
	v2 := &spec.File{Path: "x_samesvc_v2.proto", Package: "vx_samesvc.v2", GoPackage: "verifws/u/x_samesvc/v2;samesvcv2", Imports: []string{v1.Path},
		Messages: []*spec.Message{spec.M("UserRef", spec.F("id", "string")), spec.M("User", spec.F("id", "string"), spec.F("display_name", "string"), spec.Msg("legacy", ".vx_samesvc.v1.User"))},
		Services: []*spec.Service{spec.Svc("UserService", "/v2", spec.RPC("GetUser", "UserRef", "User", "GET", "/users/{id}"))}}
	s := &spec.Spec{Name: "x_samesvc", Files: []*spec.File{v1, v2}}
	return withCell(s, "ext/unit=same_service_name_two_packages", "extended", "valid", "genonly", "multifile")
}

// XJSONNames: explicit json_name options - on plain fields of every cardinality, on path and query fields, on the members of a
// flattened child and of a flattened / nested oneof variant, on the variant fields themselves, and on annotated fields; names that
// differ from the default conversion, names equal to another field's PROTO name (legal: only JSON names must be distinct), names
// with characters that need quoting in TypeScript.
func XJSONNames() *spec.Spec {
	msgs := []*spec.Message{
		spec.M("Renamed", spec.F("ref", "string").JN("reference"), spec.F("reference_count", "int32").JN("refCount"), spec.F("tags", "string").Rep().JN("tag_list"),
			spec.F("attrs", "string").Map().JN("attr-map"), spec.F("maybe", "string").Opt().JN("Maybe"), spec.F("total", "int64").I64(spec.EncNumber).JN("grand_total")),
		spec.M("Addr", spec.F("street", "string").JN("streetLine"), spec.F("zip_code", "string").JN("zip")),
		spec.M("FlatHolder", spec.F("id", "string").JN("ID"), spec.Msg("home", "Addr").FlatP("home_")),
		spec.M("TextV", spec.F("body", "string").JN("text")), spec.M("ImageV", spec.F("url", "string").JN("href")),
		spec.M("FlatOne", spec.F("id", "string"), spec.Msg("text_part", "TextV").In("content").JN("textPart"), spec.Msg("image_part", "ImageV").In("content").JN("img")).
			WithOneof(&spec.Oneof{Name: "content", Config: true, Disc: "type", Flatten: true}),
		spec.M("NestedOne", spec.F("id", "string"), spec.Msg("text_part", "TextV").In("content").JN("textPart"), spec.Msg("image_part", "ImageV").In("content").JN("img")).
			WithOneof(&spec.Oneof{Name: "content", Config: true, Disc: "kind"}),
		spec.M("Lookup", spec.F("item_id", "string").JN("id"), spec.F("page_no", "int32").Q("page").JN("pageNumber"), spec.F("note", "string").Q("note").JN("remark")),
		spec.M("Out", spec.F("ok", "bool")),
	}
	svc := EchoService("JSONNameService", "Renamed", "FlatHolder", "FlatOne", "NestedOne")
	svc.Methods = append(svc.Methods, spec.RPC("GetItem", "Lookup", "Out", "GET", "/items/{item_id}"), spec.RPC("PutItem", "Lookup", "Out", "PUT", "/items/{item_id}"))
	f := &spec.File{Messages: msgs, Services: []*spec.Service{svc}}
	return withCell(spec.One("x_json_names", f), "ext/unit=json_names", "extended", "valid", "codec")
}

// XUnwrapCycles: unwrap wrappers that reach themselves - a root map unwrap whose values are the wrapper itself (a dictionary of
// dictionaries), two such wrappers valued by each other, a root list unwrap of itself, and a wrapper whose value message holds a map
// of the wrapper. Every generator must answer (C16) and what it emits must build (C13).
func XUnwrapCycles() *spec.Spec {
	msgs := []*spec.Message{
		spec.M("Tree", spec.Msg("children", "Tree").Map().Unw()),
		spec.M("ByRegion", spec.Msg("zones", "ByZone").Map().Unw()),
		spec.M("ByZone", spec.Msg("regions", "ByRegion").Map().Unw()),
		spec.M("Nest", spec.Msg("items", "Nest").Rep().Unw()),
		spec.M("Shelf", spec.Msg("boxes", "Box").Map().Unw()),
		spec.M("Box", spec.F("label", "string"), spec.Msg("shelves", "Shelf").Map()),
		spec.M("Req", spec.F("id", "string")),
		// a value-unwrap wrapper with members beside the unwrapped list, one of them a map of the wrapper itself: the cycle
		// runs through map values only
		spec.M("TagTree", spec.F("tags", "string").Rep().Unw(), spec.Msg("children", "TagTree").Map(), spec.F("note", "string")),
		spec.M("Forest", spec.Msg("roots", "TagTree").Map()),
	}
	svc := spec.Svc("CycleService", "/cy", spec.RPC("GetForest", "Req", "Forest", "POST", "/forest"), spec.RPC("GetTree", "Req", "Tree", "POST", "/tree"), spec.RPC("GetByRegion", "Req", "ByRegion", "POST", "/region"),
		spec.RPC("GetNest", "Req", "Nest", "POST", "/nest"), spec.RPC("GetShelf", "Req", "Shelf", "POST", "/shelf"), spec.RPC("PutTree", "Tree", "Tree", "PUT", "/tree"))
	f := &spec.File{Messages: msgs, Services: []*spec.Service{svc}}
	return withCell(spec.One("x_unwrap_cycles", f), "ext/unit=unwrap_cycles", "extended", "valid", "genonly")
}

// XHeaderSpellingTypes: header-name spelling x header type - every type (string, integer, number, boolean, array, string with a
// format) declared under a name in canonical MIME spelling, with an upper-case acronym, in lower case and in upper case; all
// required, one RPC per spelling (net/http stores header names canonicalised: a look-up under the declared spelling must still
// find the value, whatever the type-specific code path). The names are distinct ignoring case: names that differ in case only are
// the subject of header_name_shapes.
func XHeaderSpellingTypes() *spec.Spec {
	msgs := []*spec.Message{spec.M("Req", spec.F("name", "string")), spec.M("Out", spec.F("ok", "bool"))}
	svc := spec.Svc("SpellingService", "/hs")
	types := []struct{ key, typ, format string }{{"Str", "string", ""}, {"Int", "integer", ""}, {"Num", "number", ""}, {"Bool", "boolean", ""}, {"Arr", "array", ""}, {"Uid", "string", "uuid"}}
	for _, sp := range []struct {
		key string
		mk  func(t string) string
	}{
		{"Canonical", func(t string) string { return "X-" + t + "-Val" }},
		{"Acronym", func(t string) string { return "X-" + t + "-IDs" }},
		{"Lower", func(t string) string { return "x-" + strings.ToLower(t) + "-low" }},
		{"Upper", func(t string) string { return "X-" + strings.ToUpper(t) + "-UPP" }},
	} {
		var hs []*spec.Header
		for _, t := range types {
			hs = append(hs, &spec.Header{Name: sp.mk(t.key), Type: t.typ, Format: t.format, Required: true})
		}
		svc.Methods = append(svc.Methods, spec.RPC("With"+sp.key, "Req", "Out", "POST", "/"+strings.ToLower(sp.key)).H(hs...))
	}
	f := &spec.File{Messages: msgs, Services: []*spec.Service{svc}}
	return withCell(spec.One("x_header_spelling_types", f), "ext/unit=header_spelling_types", "extended", "valid")
}

// XAnnotationCards: the cardinality family of the field-level codec annotations other than int64_encoding (XInt64Cards): each
// annotation on every cardinality a field of its kind can have - singular, proto3 optional, repeated, member of a real oneof -
// one unit per (annotation, cardinality) so that a cardinality the generators cannot handle blocks only its own unit; every
// message also carries the same annotation on a plain singular field and an unannotated field of the same kind.
func XAnnotationCards() []*spec.Spec {
	type ann struct {
		name string
		mk   func(n string) *spec.Field
	}
	mood := func() *spec.Enum {
		return &spec.Enum{Name: "Mood", Values: []*spec.EnumValue{{Name: "MOOD_UNSPECIFIED", Num: 0, Custom: spec.Str("none")}, {Name: "MOOD_UP", Num: 1, Custom: spec.Str("up")}, {Name: "MOOD_DOWN", Num: 2}}}
	}
	anns := []ann{
		{"bytes_hex", func(n string) *spec.Field { return spec.F(n, "bytes").BEnc(spec.BytesHex) }},
		{"bytes_b64url", func(n string) *spec.Field { return spec.F(n, "bytes").BEnc(spec.BytesB64URL) }},
		{"ts_unix_ms", func(n string) *spec.Field { return spec.Ts(n).TsF(spec.TsUnixMs) }},
		{"ts_date", func(n string) *spec.Field { return spec.Ts(n).TsF(spec.TsDate) }},
		{"enum_custom", func(n string) *spec.Field { return spec.En(n, "Mood") }},
		{"enum_number", func(n string) *spec.Field { return spec.En(n, "Level").EEnc(spec.EncNumber) }},
	}
	var out []*spec.Spec
	for _, a := range anns {
		for _, card := range []string{"optional", "repeated", "oneof_member"} {
			if card == "optional" && strings.HasPrefix(a.name, "ts_") {
				continue // a message field has presence already; proto3 optional adds nothing
			}
			if card == "repeated" && strings.HasPrefix(a.name, "ts_") {
				continue // timestamp_format on repeated fields: unit timestamp_format_repeated
			}
			m := spec.M("Cards", spec.F("id", "string"), a.mk("plain"))
			switch card {
			case "optional":
				m.Fields = append(m.Fields, a.mk("maybe").Opt())
			case "repeated":
				m.Fields = append(m.Fields, a.mk("many").Rep())
			case "oneof_member":
				m.Fields = append(m.Fields, a.mk("picked").In("choice"), spec.F("label", "string").In("choice"))
				m.WithOneof(&spec.Oneof{Name: "choice"})
			}
			f := &spec.File{Enums: []*spec.Enum{mood(), spec.E("Level", "LEVEL_UNSPECIFIED", "LEVEL_LOW", "LEVEL_HIGH")}, Messages: []*spec.Message{m},
				Services: []*spec.Service{EchoService("CardService", "Cards")}}
			name := "x_cards_" + a.name + "_" + card
			out = append(out, withCell(spec.One(name, f), "cards/ann="+a.name+",card="+card, "extended", "valid", "codec"))
		}
	}
	return out
}

// identShapes are legal protobuf identifiers that stress case conversion: an empty segment at either end or in the middle,
// digits, one letter, an upper-case run, reserved words of Go and TypeScript.
var identShapes = []string{"payload_", "_payload", "event__payload", "x", "f2x", "a_1_b", "HTTPUrl", "type", "func", "class", "default", "new"}

// XIdentifierShapes: the identifier-shape family, one unit per kind of named thing so that a failure is attributable:
// plain field names; names of a flattened discriminated, a nested discriminated and a plain oneof; nested message and enum
// names. (Method names: route/unit=method_name_shapes; header names: ext/unit=header_name_shapes.)
func XIdentifierShapes() []*spec.Spec {
	var out []*spec.Spec
	{
		m := spec.M("Named")
		for _, n := range identShapes {
			m.Fields = append(m.Fields, spec.F(n, "string"))
		}
		f := &spec.File{Messages: []*spec.Message{m}, Services: []*spec.Service{EchoService("FieldNameService", "Named")}}
		out = append(out, withCell(spec.One("x_ident_fields", f), "ident/thing=field", "extended", "valid", "codec"))
	}
	for _, style := range []string{"flat", "nested", "plain"} {
		var msgs []*spec.Message
		var names []string
		msgs = append(msgs, spec.M("TextContent", spec.F("body", "string")), spec.M("ImageContent", spec.F("url", "string")))
		for i, n := range identShapes {
			o := &spec.Oneof{Name: n}
			switch style {
			case "flat":
				o.Config, o.Disc, o.Flatten = true, "kind", true
			case "nested":
				o.Config, o.Disc = true, "kind"
			}
			mn := fmt.Sprintf("Holder%d", i)
			msgs = append(msgs, spec.M(mn, spec.F("id", "string"), spec.Msg("text", "TextContent").In(n), spec.Msg("image", "ImageContent").In(n)).WithOneof(o))
			names = append(names, mn)
		}
		f := &spec.File{Messages: msgs, Services: []*spec.Service{EchoService("OneofNameService", names...)}}
		out = append(out, withCell(spec.One("x_ident_oneof_"+style, f), "ident/thing=oneof,style="+style, "extended", "valid", "codec"))
	}
	{
		// oneof members whose Go names protoc-gen-go has to resolve: the wrapper type <Msg>_<Member> clashes with a nested message
		// of the same name (it gets a trailing underscore), and member names that clash with generated methods (Reset, String,
		// Descriptor: the Go field gets a trailing underscore) - for a flattened, a nested and a plain oneof
		msgs := []*spec.Message{spec.M("TextContent", spec.F("body", "string"))}
		var names []string
		for _, style := range []string{"Flat", "Nested", "Plain"} {
			o := func() *spec.Oneof {
				switch style {
				case "Flat":
					return &spec.Oneof{Name: "kind", Config: true, Disc: "type", Flatten: true}
				case "Nested":
					return &spec.Oneof{Name: "kind", Config: true, Disc: "type"}
				}
				return &spec.Oneof{Name: "kind"}
			}
			// (nested names unique per message: same-named nested types are a family of their own)
			lc := strings.ToLower(style)
			shape := spec.M("Shape"+style, spec.F("label", "string"), spec.Msg("circle_"+lc, "Shape"+style+".Circle"+style).In("kind"), spec.Msg("square_"+lc, "Shape"+style+".Square"+style).In("kind")).WithOneof(o())
			shape.Messages = []*spec.Message{spec.M("Circle"+style, spec.F("radius", "int32")), spec.M("Square"+style, spec.F("side", "int32"))}
			meth := spec.M("Methods"+style, spec.F("label", "string"), spec.Msg("reset", "TextContent").In("kind"), spec.Msg("string", "TextContent").In("kind"), spec.Msg("descriptor", "TextContent").In("kind")).WithOneof(o())
			msgs = append(msgs, shape, meth)
			names = append(names, shape.Name, meth.Name)
		}
		f := &spec.File{Messages: msgs, Services: []*spec.Service{EchoService("OneofMemberNameService", names...)}}
		out = append(out, withCell(spec.One("x_ident_oneof_members", f), "ident/thing=oneof_member", "extended", "valid", "codec"))
	}
	{
		outer := spec.M("Outer", spec.F("id", "string"))
		for i, n := range []string{"Inner_", "inner", "I", "Inner__Deep", "Type", "I2x"} {
			outer.Messages = append(outer.Messages, spec.M(n, spec.F("v", "string")))
			outer.Enums = append(outer.Enums, spec.E("E"+n, "E"+strings.ToUpper(n)+"_UNSPECIFIED", "E"+strings.ToUpper(n)+"_ONE"))
			outer.Fields = append(outer.Fields, spec.Msg(fmt.Sprintf("m%d", i), "Outer."+n), spec.En(fmt.Sprintf("e%d", i), "Outer.E"+n))
		}
		f := &spec.File{Messages: []*spec.Message{outer}, Services: []*spec.Service{EchoService("NestedNameService", "Outer")}}
		out = append(out, withCell(spec.One("x_ident_nested_types", f), "ident/thing=nested_type", "extended", "valid", "codec"))
	}
	return out
}

// XParamNameClashes: the parameter-name family - one operation whose parameters in different locations share a name: a header
// named like a path variable, a header named like a query parameter, a query parameter (renamed) named like a path variable
// bound to another field, and all three at once. Each location keeps its own parameter.
func XParamNameClashes() *spec.Spec {
	h := func(n string) *spec.Header { return &spec.Header{Name: n, Type: "string", Required: true} }
	f := &spec.File{Messages: []*spec.Message{
		spec.M("TenantUserReq", spec.F("tenant", "string"), spec.F("id", "string"), spec.F("note", "string").Q("")),
		spec.M("OrgMembersReq", spec.F("org", "string"), spec.F("org_filter", "string").Q("org"), spec.F("page", "int32").Q("page")),
		spec.M("AllThreeReq", spec.F("key", "string"), spec.F("key_filter", "string").Q("key")),
		spec.M("Out", spec.F("ok", "bool")),
	}, Services: []*spec.Service{spec.Svc("ClashService", "/api/v1",
		spec.RPC("GetTenantUser", "TenantUserReq", "Out", "GET", "/tenants/{tenant}/users/{id}").H(h("note")),
		spec.RPC("ListOrgMembers", "OrgMembersReq", "Out", "GET", "/orgs/{org}/members").H(h("page")),
		spec.RPC("AllThree", "AllThreeReq", "Out", "GET", "/keys/{key}").H(h("key")),
	).H(h("tenant"))}}
	return withCell(spec.One("x_param_name_clashes", f), "ext/unit=param_name_clashes", "extended", "valid")
}

// XHeaderOverrideShapes: the override family - a service header (required, string, format uuid) and a second one (required,
// integer) re-declared at method level in every way: stricter, same, relaxed to optional keeping the format, relaxed to an
// optional plain string, required without format, another type, another format; plus a method that re-declares nothing.
func XHeaderOverrideShapes() *spec.Spec {
	id := func(typ, format string, req bool) *spec.Header {
		return &spec.Header{Name: "X-Request-ID", Type: typ, Format: format, Required: req}
	}
	n := func(typ, format string, req bool) *spec.Header {
		return &spec.Header{Name: "X-Count", Type: typ, Format: format, Required: req}
	}
	msgs := []*spec.Message{spec.M("Req", spec.F("name", "string")), spec.M("Out", spec.F("ok", "bool"))}
	rpc := func(name string, hs ...*spec.Header) *spec.Method {
		return spec.RPC(name, "Req", "Out", "POST", "/"+strings.ToLower(name)).H(hs...)
	}
	f := &spec.File{Messages: msgs, Services: []*spec.Service{spec.Svc("OverrideShapeService", "/os",
		rpc("Inherit"),
		rpc("Same", id("string", "uuid", true)),
		rpc("OptionalUuid", id("string", "uuid", false)),
		rpc("OptionalPlain", id("string", "", false)),
		rpc("OptionalUntyped", id("", "", false)),
		rpc("RequiredPlain", id("string", "", true)),
		rpc("RequiredInteger", id("integer", "", true)),
		rpc("RequiredEmail", id("string", "email", true)),
		rpc("CountOptional", n("integer", "", false)),
		rpc("CountString", n("string", "", true)),
		rpc("BothRelaxed", id("string", "", false), n("", "", false)),
	).H(id("string", "uuid", true), n("integer", "", true))}}
	return withCell(spec.One("x_header_override_shapes", f), "ext/unit=header_override_shapes", "extended", "valid")
}

// XUnwrapWrapperShapes: the wrapper-shape family of map-value unwrap - the value message of the map carries the unwrap field and
// {nothing else, a scalar sibling, a message sibling}, for message and for scalar elements (only the unwrap field is used as the
// map value; the documentation says the other fields are dropped).
func XUnwrapWrapperShapes() *spec.Spec {
	f := &spec.File{Messages: []*spec.Message{
		spec.M("Bar", spec.F("symbol", "string"), spec.F("price", "double")),
		spec.M("BarsOnly", spec.Msg("bars", "Bar").Rep().Unw()),
		spec.M("BarsPage", spec.Msg("bars", "Bar").Rep().Unw(), spec.F("next_token", "string")),
		spec.M("BarsMeta", spec.Msg("bars", "Bar").Rep().Unw(), spec.Msg("first", "Bar")),
		spec.M("NumsOnly", spec.F("nums", "int32").Rep().Unw()),
		spec.M("NumsPage", spec.F("nums", "int32").Rep().Unw(), spec.F("tag", "string")),
		spec.M("WrapperShapes", spec.F("id", "string"), spec.Msg("only", "BarsOnly").Map(), spec.Msg("pages", "BarsPage").Map(), spec.Msg("metas", "BarsMeta").Map(),
			spec.Msg("nums", "NumsOnly").Map(), spec.Msg("num_pages", "NumsPage").Map()),
	}, Services: []*spec.Service{EchoService("WrapperShapeService", "WrapperShapes")}}
	return withCell(spec.One("x_unwrap_wrapper_shapes", f), "ext/unit=unwrap_wrapper_shapes", "extended", "valid", "codec")
}

// XProto2Basic: the syntax dimension - a proto2 file (every singular field has presence and is a pointer in Go; optional is a
// label, not a synthetic oneof) with scalars of several kinds, an enum, nested and repeated messages, a map, a real oneof,
// annotated fields (int64 NUMBER, bytes HEX, timestamp UNIX_SECONDS) and REST routes with a path variable and query parameters.
func XProto2Basic() *spec.Spec {
	f := &spec.File{Proto2: true,
		Enums: []*spec.Enum{spec.E("Tone", "TONE_UNSPECIFIED", "TONE_WARM", "TONE_COOL")},
		Messages: []*spec.Message{
			spec.M("Leaf", spec.F("label", "string").Opt(), spec.F("n", "int32").Opt()),
			spec.M("Plain2", spec.F("title", "string").Opt(), spec.F("count", "int32").Opt(), spec.F("total", "int64").Opt(), spec.F("done", "bool").Opt(), spec.F("ratio", "double").Opt(),
				spec.En("tone", "Tone").Opt(), spec.Msg("leaf", "Leaf").Opt(), spec.Msg("leaves", "Leaf").Rep(), spec.F("tags", "string").Rep(), spec.F("attrs", "string").Map(),
				spec.F("pick_s", "string").In("pick"), spec.F("pick_n", "int32").In("pick")).WithOneof(&spec.Oneof{Name: "pick"}),
			spec.M("Big2", spec.F("big", "int64").Opt().I64(spec.EncNumber), spec.F("bigs", "int64").Rep().I64(spec.EncNumber), spec.F("name", "string").Opt()),
			spec.M("Blob2", spec.F("blob", "bytes").Opt().BEnc(spec.BytesHex), spec.F("name", "string").Opt()),
			spec.M("Stamp2", spec.Ts("at").Opt().TsF(spec.TsUnixSec), spec.F("name", "string").Opt()),
			spec.M("Get2", spec.F("id", "string").Opt(), spec.F("limit", "int32").Opt().Q("limit"), spec.F("q", "string").Opt().Q("q")),
			spec.M("Put2", spec.F("id", "string").Opt(), spec.F("note", "string").Opt()),
			spec.M("Out", spec.F("ok", "bool").Opt()),
		},
		Services: []*spec.Service{
			EchoService("Proto2EchoService", "Plain2", "Big2", "Blob2", "Stamp2"),
			spec.Svc("Proto2RestService", "/p2", spec.RPC("GetItem", "Get2", "Out", "GET", "/items/{id}"), spec.RPC("PutItem", "Put2", "Out", "PUT", "/items/{id}")),
		}}
	return withCell(spec.One("x_proto2_basic", f), "ext/unit=proto2_basic", "extended", "valid", "codec")
}

// XSharedTypesAcrossServiceFiles: two service files of one package that share the messages of a third file - messages whose
// schema or codec has side products (the variant components of a flattened discriminated oneof, a flatten parent, an unwrap
// wrapper, an enum with custom values, a NUMBER-encoded field). Each service file is generated alone, together with the
// other, and in both orders: what is emitted for one service must not depend on the other having been processed first.
func XSharedTypesAcrossServiceFiles() *spec.Spec {
	pkg := "vx_shared_svc_files"
	common := &spec.File{Path: "x_shared_common.proto", Package: pkg,
		Enums: []*spec.Enum{{Name: "Grade", Values: []*spec.EnumValue{{Name: "GRADE_UNSPECIFIED", Num: 0, Custom: spec.Str("none")}, {Name: "GRADE_A", Num: 1, Custom: spec.Str("a")}}},
			// declared out of numeric order, used by number in one service file and by name in the other
			{Name: "Priority", Values: []*spec.EnumValue{{Name: "PRIORITY_UNSPECIFIED", Num: 0}, {Name: "PRIORITY_NORMAL", Num: 2}, {Name: "PRIORITY_HIGH", Num: 3}, {Name: "PRIORITY_LOW", Num: 1}}}},
		Messages: []*spec.Message{
			spec.M("TextBody", spec.F("text", "string")), spec.M("ImageBody", spec.F("url", "string"), spec.F("width", "int32")),
			spec.M("Event", spec.F("id", "string"), spec.Msg("text", "TextBody").In("content"), spec.Msg("image", "ImageBody").In("content")).
				WithOneof(&spec.Oneof{Name: "content", Config: true, Disc: "type", Flatten: true}),
			spec.M("Geo", spec.F("lat", "double"), spec.F("lng", "double")),
			spec.M("Place", spec.F("name", "string"), spec.Msg("geo", "Geo").FlatP("geo_")),
			spec.M("Amount", spec.F("units", "int64").I64(spec.EncNumber), spec.En("grade", "Grade")),
			spec.M("Amounts", spec.Msg("items", "Amount").Rep().Unw()),
		}}
	alpha := &spec.File{Path: "x_shared_alpha.proto", Package: pkg, Imports: []string{common.Path},
		Messages: []*spec.Message{spec.M("AlphaReq", spec.F("id", "string")), spec.M("AlphaResp", spec.Msg("event", "Event"), spec.Msg("place", "Place"), spec.Msg("by_key", "Amounts").Map(), spec.En("prio", "Priority").EEnc(spec.EncNumber))},
		Services: []*spec.Service{spec.Svc("AlphaService", "/alpha", spec.RPC("GetAlpha", "AlphaReq", "AlphaResp", "POST", "/get"), spec.RPC("EchoEvent", "Event", "Event", "POST", "/event"))}}
	beta := &spec.File{Path: "x_shared_beta.proto", Package: pkg, Imports: []string{common.Path},
		Messages: []*spec.Message{spec.M("BetaReq", spec.F("id", "string")), spec.M("BetaResp", spec.Msg("events", "Event").Rep(), spec.Msg("amount", "Amount"), spec.En("prio", "Priority"))},
		Services: []*spec.Service{spec.Svc("BetaService", "/beta", spec.RPC("GetBeta", "BetaReq", "BetaResp", "POST", "/get"), spec.RPC("EchoPlace", "Place", "Place", "POST", "/place"))}}
	s := &spec.Spec{Name: "x_shared_svc_files", Files: []*spec.File{common, alpha, beta}}
	return withCell(s, "ext/unit=shared_types_across_service_files", "extended", "valid", "genonly", "multifile")
}

// XHeaderTypeFormat: the declaration family of string headers - every format (none, uuid, email, date-time, date, time) declared
// with type "string" and with the type left unset (which means string everywhere), one RPC per format carrying both spellings
// as required method-level headers.
func XHeaderTypeFormat() *spec.Spec {
	msgs := []*spec.Message{spec.M("Req", spec.F("name", "string")), spec.M("Out", spec.F("ok", "bool"))}
	svc := spec.Svc("TypeFormatService", "/tf")
	for _, f := range []string{"", "uuid", "email", "date-time", "date", "time"} {
		n := strings.ReplaceAll(f, "-", "")
		if n == "" {
			n = "plain"
		}
		title := strings.ToUpper(n[:1]) + n[1:]
		svc.Methods = append(svc.Methods, spec.RPC("With"+title, "Req", "Out", "POST", "/"+n).H(
			&spec.Header{Name: "X-Typed-" + title, Type: "string", Format: f, Required: true},
			&spec.Header{Name: "X-Untyped-" + title, Type: "", Format: f, Required: true}))
	}
	f := &spec.File{Messages: msgs, Services: []*spec.Service{svc}}
	return withCell(spec.One("x_header_type_format", f), "ext/unit=header_type_format", "extended", "valid")
}

// XNestedAnnotated: the declaration-nesting family - for every codec annotation a message that carries it on one of its own
// fields AND declares a nested message carrying it too, which in turn declares a deeper one; each of the three is an RPC
// message of its own.
func XNestedAnnotated() *spec.Spec {
	type ann struct {
		name string
		mk   func(n string) *spec.Field
	}
	anns := []ann{
		{"Nullable", func(n string) *spec.Field { return spec.F(n, "string").Opt().Null() }},
		{"Int64", func(n string) *spec.Field { return spec.F(n, "int64").I64(spec.EncNumber) }},
		{"Bytes", func(n string) *spec.Field { return spec.F(n, "bytes").BEnc(spec.BytesHex) }},
		{"Stamp", func(n string) *spec.Field { return spec.Ts(n).TsF(spec.TsUnixSec) }},
		{"Empty", func(n string) *spec.Field { return spec.Msg(n, "Meta").Empty(spec.EmptyNull) }},
		{"Flat", func(n string) *spec.Field { return spec.Msg(n, "Geo").FlatP(n + "_") }},
	}
	msgs := []*spec.Message{spec.M("Meta", spec.F("k", "string")), spec.M("Geo", spec.F("lat", "double"), spec.F("lng", "double"))}
	var names []string
	for _, a := range anns {
		// (the nested messages are not used as fields of the outer ones: an annotated message used as a child is the context
		// family F-ctx and its open findings; here the point is that the codecs of nested DECLARATIONS are generated)
		// (nested names are unique per annotation: same-named nested types are the open finding C18-same-named-nested-types-collide)
		deep := spec.M(a.name+"Deep", spec.F("id", "string"), a.mk("dv"))
		inner := spec.M(a.name+"Inner", spec.F("id", "string"), a.mk("iv")).WithNested(deep)
		outer := spec.M(a.name+"Outer", spec.F("id", "string"), a.mk("ov")).WithNested(inner)
		msgs = append(msgs, outer)
		names = append(names, a.name+"Outer", a.name+"Outer."+a.name+"Inner", a.name+"Outer."+a.name+"Inner."+a.name+"Deep")
	}
	f := &spec.File{Messages: msgs, Services: []*spec.Service{EchoService("NestedAnnotatedService", names...)}}
	return withCell(spec.One("x_nested_annotated", f), "ext/unit=nested_annotated", "extended", "valid", "codec")
}
