package univ

import "verif/mc/spec"

// XMultiSameMethod: two services of one file declare an RPC with the same name.
func XMultiSameMethod() *spec.Spec {
	f := &spec.File{
		Messages: []*spec.Message{spec.M("PingRequest", spec.F("id", "string")), spec.M("PingResponse", spec.F("id", "string"))},
		Services: []*spec.Service{
			spec.Svc("AlphaService", "/alpha", spec.RPC("Ping", "PingRequest", "PingResponse", "POST", "/ping")),
			spec.Svc("BetaService", "/beta", spec.RPC("Ping", "PingRequest", "PingResponse", "POST", "/ping")),
		},
	}
	return withCell(spec.One("x_multi_samemethod", f), "ext/unit=multi_same_method", "extended", "valid")
}

// Extended returns the extended families (everything beyond the documented core combinations).
func Extended(thorough bool) []*spec.Spec {
	return []*spec.Spec{XMultiSameMethod()}
}
