package univ

import (
	"strings"
	"fmt"

	"verif/mc/spec"
)

// Misuse describes one documented annotation rule and how to break it.
type Misuse struct {
	Rule      string
	JSONRule  bool   // a JSON-mapping rule (go-client must refuse too, except unwrap)
	Unwrap    bool   // unwrap rule: only go-http is required to refuse
	Offender  string // a name the error message must mention (message, field or oneof)
	Offenders []string
	// Build returns the offending message(s) (first one is the offender, "Bad") plus helper messages/enums.
	Build func() ([]*spec.Message, []*spec.Enum)
	// HTTP rules are expressed on the service instead.
	Service func() ([]*spec.Message, *spec.Service)
}

func child() *spec.Message {
	return spec.M("Child", spec.F("street", "string"), spec.F("city", "string"))
}

// Misuses lists every documented rule of property C12.
// collisionPartners is the partner-shape family of the name-collision rules: the field whose JSON name collides, in every
// shape a field can take - plain, proto3 optional, repeated, map, message, member of another (plain) oneof. Each entry returns
// the colliding field(s) and the extra oneof declaration they need.
func collisionPartners(name string) []struct {
	Label  string
	Fields []*spec.Field
	Oneof  *spec.Oneof
} {
	type P = struct {
		Label  string
		Fields []*spec.Field
		Oneof  *spec.Oneof
	}
	return []P{
		{"optional", []*spec.Field{spec.F(name, "string").Opt()}, nil},
		{"repeated", []*spec.Field{spec.F(name, "string").Rep()}, nil},
		{"map", []*spec.Field{spec.F(name, "string").Map()}, nil},
		{"message", []*spec.Field{spec.Msg(name, "Child")}, nil},
		{"other_oneof_member", []*spec.Field{spec.F(name, "string").In("other"), spec.F("other_b", "int32").In("other")}, &spec.Oneof{Name: "other"}},
	}
}

func collisionMisuses() []Misuse {
	var out []Misuse
	for _, p := range collisionPartners("type") {
		p := p
		out = append(out, Misuse{Rule: "discriminator_collides_with_" + p.Label + "_field", JSONRule: true, Offenders: []string{"Bad", "pick", "type"}, Build: func() ([]*spec.Message, []*spec.Enum) {
			fs := append(append([]*spec.Field{}, collisionPartners("type")[idxOf(p.Label)].Fields...), spec.Msg("a", "Child").In("pick"), spec.Msg("b", "Child").In("pick"))
			m := spec.M("Bad", fs...)
			if p.Oneof != nil {
				m.WithOneof(&spec.Oneof{Name: p.Oneof.Name})
			}
			m.WithOneof(&spec.Oneof{Name: "pick", Config: true, Disc: "type"})
			return []*spec.Message{m, child()}, nil
		}})
	}
	for _, p := range collisionPartners("street") {
		p := p
		out = append(out, Misuse{Rule: "flatten_name_collision_with_" + p.Label + "_parent_field", JSONRule: true, Offenders: []string{"Bad", "street"}, Build: func() ([]*spec.Message, []*spec.Enum) {
			fs := append(append([]*spec.Field{}, collisionPartners("street")[idxOf(p.Label)].Fields...), spec.Msg("val", "Child").Flat())
			m := spec.M("Bad", fs...)
			if p.Oneof != nil {
				m.WithOneof(&spec.Oneof{Name: p.Oneof.Name})
			}
			return []*spec.Message{m, child()}, nil
		}})
		out = append(out, Misuse{Rule: "flattened_oneof_child_collides_with_" + p.Label + "_parent_field", JSONRule: true, Offenders: []string{"Bad", "pick", "street"}, Build: func() ([]*spec.Message, []*spec.Enum) {
			fs := append(append([]*spec.Field{}, collisionPartners("street")[idxOf(p.Label)].Fields...), spec.Msg("a", "Child").In("pick"))
			m := spec.M("Bad", fs...)
			if p.Oneof != nil {
				m.WithOneof(&spec.Oneof{Name: p.Oneof.Name})
			}
			m.WithOneof(&spec.Oneof{Name: "pick", Config: true, Disc: "type", Flatten: true})
			return []*spec.Message{m, child()}, nil
		}})
	}
	return out
}

func idxOf(label string) int {
	for i, p := range collisionPartners("x") {
		if p.Label == label {
			return i
		}
	}
	return 0
}

func Misuses() []Misuse {
	base := append(misusesFixed(), collisionMisuses()...)
	out := append([]Misuse{}, base...)
	// multi-word family: every collision rule again with names whose JSON name differs from the proto name (street ->
	// street_name / streetName): a collision is between the names on the wire, whichever spelling a check stores
	rename := map[string]string{"street": "street_name", "city": "city_name", "type": "event_type", "id": "ref_id"}
	camel := map[string]string{"street": "streetName", "city": "cityName", "type": "eventType", "id": "refId"}
	for _, mu := range base {
		mu := mu
		if mu.Build == nil || !(strings.Contains(mu.Rule, "collision") || strings.Contains(mu.Rule, "collides")) {
			continue
		}
		mw := mu
		mw.Rule = mu.Rule + "_multiword"
		mw.Offenders = nil
		for _, o := range mu.Offenders {
			if r, ok := rename[o]; ok {
				mw.Offenders = append(mw.Offenders, r, camel[o])
			} else {
				mw.Offenders = append(mw.Offenders, o)
			}
		}
		mw.Build = func() ([]*spec.Message, []*spec.Enum) {
			ms, es := mu.Build()
			var walk func(m *spec.Message)
			walk = func(m *spec.Message) {
				for _, f := range m.Fields {
					if r, ok := rename[f.Name]; ok {
						f.Name = r
					}
					if f.FlattenPrefix != nil {
						// (prefixes stay as they are)
						_ = f
					}
				}
				for _, o := range m.Oneofs {
					if c, ok := camel[o.Disc]; ok {
						o.Disc = c
					}
				}
				for _, n := range m.Messages {
					walk(n)
				}
			}
			for _, m := range ms {
				walk(m)
			}
			return ms, es
		}
		out = append(out, mw)
	}
	// RPC-position family: every service-level rule again with the offending RPC followed by, preceded by and between valid
	// RPCs of the same service (a service is refused whichever of its RPCs breaks the rule)
	for _, mu := range base {
		mu := mu
		if mu.Service == nil {
			continue
		}
		for _, pos := range []string{"followed_by_valid_rpc", "preceded_by_valid_rpc", "between_valid_rpcs"} {
			pos := pos
			d := mu
			d.Rule = mu.Rule + "_" + pos
			d.Service = func() ([]*spec.Message, *spec.Service) {
				ms, svc := mu.Service()
				ms = append(ms, spec.M("PingReq", spec.F("text", "string")), spec.M("PingOut", spec.F("text", "string")))
				before := spec.RPC("PingBefore", "PingReq", "PingOut", "POST", "/ping-before")
				after := spec.RPC("PingAfter", "PingReq", "PingOut", "POST", "/ping-after")
				switch pos {
				case "followed_by_valid_rpc":
					svc.Methods = append(svc.Methods, after)
				case "preceded_by_valid_rpc":
					svc.Methods = append([]*spec.Method{before}, svc.Methods...)
				default:
					svc.Methods = append(append([]*spec.Method{before}, svc.Methods...), after)
				}
				return ms, svc
			}
			out = append(out, d)
		}
	}
	// sibling family: every rule whose offending message consists of the offending field alone, again with unrelated
	// sibling fields before and after it (a validation must not depend on the offender being the only field)
	for _, mu := range base {
		mu := mu
		if mu.Build == nil {
			continue
		}
		probe, _ := mu.Build()
		if len(probe) == 0 || len(probe[0].Fields) != 1 || len(probe[0].Oneofs) > 0 {
			continue
		}
		sib := mu
		sib.Rule = mu.Rule + "_with_siblings"
		sib.Build = func() ([]*spec.Message, []*spec.Enum) {
			ms, es := mu.Build()
			ms[0].Fields = append(append([]*spec.Field{spec.F("aa_before", "string")}, ms[0].Fields...), spec.F("zz_after", "int32"))
			return ms, es
		}
		out = append(out, sib)
	}
	// declaration-order family: every message-level rule again with the fields of the offending message declared in reverse
	// order (a rule must not depend on which of two conflicting fields comes first); oneof members stay consecutive.
	for _, mu := range base {
		mu := mu
		if mu.Build == nil {
			continue
		}
		probe, _ := mu.Build()
		if len(probe) == 0 || len(probe[0].Fields) < 2 {
			continue
		}
		rev := mu
		rev.Rule = mu.Rule + "_reversed"
		rev.Build = func() ([]*spec.Message, []*spec.Enum) {
			ms, es := mu.Build()
			fs := ms[0].Fields
			for i, j := 0, len(fs)-1; i < j; i, j = i+1, j-1 {
				fs[i], fs[j] = fs[j], fs[i]
			}
			// oneof declarations follow the order of their first member
			if len(ms[0].Oneofs) > 1 {
				os := ms[0].Oneofs
				for i, j := 0, len(os)-1; i < j; i, j = i+1, j-1 {
					os[i], os[j] = os[j], os[i]
				}
			}
			return ms, es
		}
		out = append(out, rev)
	}
	return out
}

var misusesFixed = func() []Misuse {
	return []Misuse{
		{Rule: "unwrap_on_non_repeated", JSONRule: true, Unwrap: true, Offenders: []string{"Bad", "val"}, Build: func() ([]*spec.Message, []*spec.Enum) {
			return []*spec.Message{spec.M("Bad", spec.F("val", "string").Unw())}, nil
		}},
		{Rule: "unwrap_twice", JSONRule: true, Unwrap: true, Offenders: []string{"Bad", "b"}, Build: func() ([]*spec.Message, []*spec.Enum) {
			return []*spec.Message{spec.M("Bad", spec.F("a", "string").Rep().Unw(), spec.F("b", "string").Rep().Unw())}, nil
		}},
		{Rule: "map_unwrap_beside_other_fields", JSONRule: true, Unwrap: true, Offenders: []string{"Bad", "m"}, Build: func() ([]*spec.Message, []*spec.Enum) {
			return []*spec.Message{spec.M("Bad", spec.F("m", "string").Map().Unw(), spec.F("other", "string"))}, nil
		}},
		{Rule: "nullable_on_non_optional", JSONRule: true, Offenders: []string{"Bad", "val"}, Build: func() ([]*spec.Message, []*spec.Enum) {
			return []*spec.Message{spec.M("Bad", spec.F("val", "string").Null())}, nil
		}},
		{Rule: "nullable_on_message", JSONRule: true, Offenders: []string{"Bad", "val"}, Build: func() ([]*spec.Message, []*spec.Enum) {
			return []*spec.Message{spec.M("Bad", spec.Msg("val", "Child").Opt().Null()), child()}, nil
		}},
		{Rule: "empty_behavior_on_scalar", JSONRule: true, Offenders: []string{"Bad", "val"}, Build: func() ([]*spec.Message, []*spec.Enum) {
			return []*spec.Message{spec.M("Bad", spec.F("val", "string").Empty(spec.EmptyNull))}, nil
		}},
		{Rule: "empty_behavior_on_repeated_message", JSONRule: true, Offenders: []string{"Bad", "val"}, Build: func() ([]*spec.Message, []*spec.Enum) {
			return []*spec.Message{spec.M("Bad", spec.Msg("val", "Child").Rep().Empty(spec.EmptyOmit)), child()}, nil
		}},
		{Rule: "timestamp_format_on_non_timestamp", JSONRule: true, Offenders: []string{"Bad", "val"}, Build: func() ([]*spec.Message, []*spec.Enum) {
			return []*spec.Message{spec.M("Bad", spec.F("val", "int64").TsF(spec.TsUnixSec))}, nil
		}},
		{Rule: "timestamp_format_on_other_message", JSONRule: true, Offenders: []string{"Bad", "val"}, Build: func() ([]*spec.Message, []*spec.Enum) {
			return []*spec.Message{spec.M("Bad", spec.Msg("val", "Child").TsF(spec.TsDate)), child()}, nil
		}},
		{Rule: "bytes_encoding_on_non_bytes", JSONRule: true, Offenders: []string{"Bad", "val"}, Build: func() ([]*spec.Message, []*spec.Enum) {
			return []*spec.Message{spec.M("Bad", spec.F("val", "string").BEnc(spec.BytesHex))}, nil
		}},
		{Rule: "flatten_on_repeated", JSONRule: true, Offenders: []string{"Bad", "val"}, Build: func() ([]*spec.Message, []*spec.Enum) {
			return []*spec.Message{spec.M("Bad", spec.Msg("val", "Child").Rep().Flat()), child()}, nil
		}},
		{Rule: "flatten_on_map", JSONRule: true, Offenders: []string{"Bad", "val"}, Build: func() ([]*spec.Message, []*spec.Enum) {
			return []*spec.Message{spec.M("Bad", spec.Msg("val", "Child").Map().Flat()), child()}, nil
		}},
		{Rule: "flatten_on_scalar", JSONRule: true, Offenders: []string{"Bad", "val"}, Build: func() ([]*spec.Message, []*spec.Enum) {
			return []*spec.Message{spec.M("Bad", spec.F("val", "string").Flat())}, nil
		}},
		{Rule: "flatten_on_oneof_member", JSONRule: true, Offenders: []string{"Bad", "val"}, Build: func() ([]*spec.Message, []*spec.Enum) {
			return []*spec.Message{spec.M("Bad", spec.Msg("val", "Child").In("pick").Flat(), spec.F("other", "string").In("pick")).WithOneof(&spec.Oneof{Name: "pick"}), child()}, nil
		}},
		{Rule: "flatten_name_collision_with_parent", JSONRule: true, Offenders: []string{"Bad", "street"}, Build: func() ([]*spec.Message, []*spec.Enum) {
			return []*spec.Message{spec.M("Bad", spec.F("street", "string"), spec.Msg("val", "Child").Flat()), child()}, nil
		}},
		{Rule: "flatten_name_collision_between_children", JSONRule: true, Offenders: []string{"Bad", "street"}, Build: func() ([]*spec.Message, []*spec.Enum) {
			return []*spec.Message{spec.M("Bad", spec.Msg("a", "Child").Flat(), spec.Msg("b", "Child").Flat()), child()}, nil
		}},
		{Rule: "flatten_prefix_without_flatten", JSONRule: true, Offenders: []string{"Bad", "val"}, Build: func() ([]*spec.Message, []*spec.Enum) {
			f := spec.Msg("val", "Child")
			f.FlattenPrefix = spec.Str("p_")
			return []*spec.Message{spec.M("Bad", f), child()}, nil
		}},
		{Rule: "discriminator_collides_with_field", JSONRule: true, Offenders: []string{"Bad", "pick", "type"}, Build: func() ([]*spec.Message, []*spec.Enum) {
			return []*spec.Message{spec.M("Bad", spec.F("type", "string"), spec.Msg("a", "Child").In("pick"), spec.Msg("b", "Child").In("pick")).
				WithOneof(&spec.Oneof{Name: "pick", Config: true, Disc: "type"}), child()}, nil
		}},
		{Rule: "flattened_oneof_scalar_variant", JSONRule: true, Offenders: []string{"Bad", "pick", "s"}, Build: func() ([]*spec.Message, []*spec.Enum) {
			return []*spec.Message{spec.M("Bad", spec.F("id", "string"), spec.Msg("a", "Child").In("pick"), spec.F("s", "string").In("pick")).
				WithOneof(&spec.Oneof{Name: "pick", Config: true, Disc: "type", Flatten: true}), child()}, nil
		}},
		{Rule: "flattened_oneof_child_collides_with_parent", JSONRule: true, Offenders: []string{"Bad", "pick", "street"}, Build: func() ([]*spec.Message, []*spec.Enum) {
			return []*spec.Message{spec.M("Bad", spec.F("street", "string"), spec.Msg("a", "Child").In("pick")).
				WithOneof(&spec.Oneof{Name: "pick", Config: true, Disc: "type", Flatten: true}), child()}, nil
		}},
		{Rule: "flattened_oneof_child_collides_with_discriminator", JSONRule: true, Offenders: []string{"Bad", "pick", "city"}, Build: func() ([]*spec.Message, []*spec.Enum) {
			return []*spec.Message{spec.M("Bad", spec.F("id", "string"), spec.Msg("a", "Child").In("pick")).
				WithOneof(&spec.Oneof{Name: "pick", Config: true, Disc: "city", Flatten: true}), child()}, nil
		}},
		{Rule: "enum_number_encoding_with_custom_values", JSONRule: true, Offenders: []string{"Bad", "val", "Mood"}, Build: func() ([]*spec.Message, []*spec.Enum) {
			mood := &spec.Enum{Name: "Mood", Values: []*spec.EnumValue{{Name: "MOOD_UNSPECIFIED", Num: 0}, {Name: "MOOD_HAPPY", Num: 1, Custom: spec.Str("happy")}}}
			return []*spec.Message{spec.M("Bad", spec.En("val", "Mood").EEnc(spec.EncNumber))}, []*spec.Enum{mood}
		}},
		// HTTP configuration rules (go-http only)
		{Rule: "path_variable_without_field", Offenders: []string{"Bad", "missing_id"}, Service: func() ([]*spec.Message, *spec.Service) {
			return []*spec.Message{spec.M("Bad", spec.F("name", "string").Q("name")), spec.M("Out", spec.F("ok", "bool"))},
				spec.Svc("BadService", "/b", spec.RPC("Get", "Bad", "Out", "GET", "/x/{missing_id}"))
		}},
		{Rule: "path_variable_non_scalar_field", Offenders: []string{"Bad", "val"}, Service: func() ([]*spec.Message, *spec.Service) {
			return []*spec.Message{spec.M("Bad", spec.Msg("val", "Out")), spec.M("Out", spec.F("ok", "bool"))},
				spec.Svc("BadService", "/b", spec.RPC("Post", "Bad", "Out", "POST", "/x/{val}"))
		}},
		{Rule: "path_variable_repeated_field", Offenders: []string{"Bad", "val"}, Service: func() ([]*spec.Message, *spec.Service) {
			return []*spec.Message{spec.M("Bad", spec.F("val", "string").Rep()), spec.M("Out", spec.F("ok", "bool"))},
				spec.Svc("BadService", "/b", spec.RPC("Post", "Bad", "Out", "POST", "/x/{val}"))
		}},
		{Rule: "path_variable_bytes_field", Offenders: []string{"Bad", "val"}, Service: func() ([]*spec.Message, *spec.Service) {
			return []*spec.Message{spec.M("Bad", spec.F("val", "bytes")), spec.M("Out", spec.F("ok", "bool"))},
				spec.Svc("BadService", "/b", spec.RPC("Post", "Bad", "Out", "POST", "/x/{val}"))
		}},
		{Rule: "field_bound_to_path_and_query", Offenders: []string{"Bad", "val"}, Service: func() ([]*spec.Message, *spec.Service) {
			return []*spec.Message{spec.M("Bad", spec.F("val", "string").Q("val")), spec.M("Out", spec.F("ok", "bool"))},
				spec.Svc("BadService", "/b", spec.RPC("Get", "Bad", "Out", "GET", "/x/{val}"))
		}},
		{Rule: "get_with_unbound_fields", Offenders: []string{"Bad", "loose"}, Service: func() ([]*spec.Message, *spec.Service) {
			return []*spec.Message{spec.M("Bad", spec.F("val", "string"), spec.F("loose", "string")), spec.M("Out", spec.F("ok", "bool"))},
				spec.Svc("BadService", "/b", spec.RPC("Get", "Bad", "Out", "GET", "/x/{val}"))
		}},
		{Rule: "delete_with_unbound_fields", Offenders: []string{"Bad", "loose"}, Service: func() ([]*spec.Message, *spec.Service) {
			return []*spec.Message{spec.M("Bad", spec.F("val", "string"), spec.F("loose", "string")), spec.M("Out", spec.F("ok", "bool"))},
				spec.Svc("BadService", "/b", spec.RPC("Del", "Bad", "Out", "DELETE", "/x/{val}"))
		}},
	}
}

func init() {
	// every value of the enum-valued annotations on a field of the wrong type (the documented rule is about the
	// field type, whatever the value)
	base := misusesFixed
	misusesFixed = func() []Misuse {
		out := base()
		tsNames := map[int32]string{spec.TsRFC3339: "RFC3339", spec.TsUnixSec: "UNIX_SECONDS", spec.TsUnixMs: "UNIX_MILLIS", spec.TsDate: "DATE"}
		for v, n := range tsNames {
			v := v
			for _, on := range []string{"string", "int64", "message"} {
				on := on
				out = append(out, Misuse{Rule: "timestamp_format_" + n + "_on_" + on, JSONRule: true, Offenders: []string{"Bad", "val"}, Build: func() ([]*spec.Message, []*spec.Enum) {
					if on == "message" {
						return []*spec.Message{spec.M("Bad", spec.Msg("val", "Child").TsF(v)), child()}, nil
					}
					return []*spec.Message{spec.M("Bad", spec.F("val", on).TsF(v))}, nil
				}})
			}
		}
		ebNames := map[int32]string{spec.EmptyPreserve: "PRESERVE", spec.EmptyNull: "NULL", spec.EmptyOmit: "OMIT"}
		for v, n := range ebNames {
			v := v
			out = append(out, Misuse{Rule: "empty_behavior_" + n + "_on_string", JSONRule: true, Offenders: []string{"Bad", "val"}, Build: func() ([]*spec.Message, []*spec.Enum) {
				return []*spec.Message{spec.M("Bad", spec.F("val", "string").Empty(v))}, nil
			}})
			out = append(out, Misuse{Rule: "empty_behavior_" + n + "_on_map", JSONRule: true, Offenders: []string{"Bad", "val"}, Build: func() ([]*spec.Message, []*spec.Enum) {
				return []*spec.Message{spec.M("Bad", spec.Msg("val", "Child").Map().Empty(v)), child()}, nil
			}})
		}
		beNames := map[int32]string{spec.BytesB64: "BASE64", spec.BytesB64Raw: "BASE64_RAW", spec.BytesB64URL: "BASE64URL", spec.BytesB64URLRaw: "BASE64URL_RAW", spec.BytesHex: "HEX"}
		for v, n := range beNames {
			v := v
			for _, on := range []string{"string", "int32"} {
				on := on
				out = append(out, Misuse{Rule: "bytes_encoding_" + n + "_on_" + on, JSONRule: true, Offenders: []string{"Bad", "val"}, Build: func() ([]*spec.Message, []*spec.Enum) {
					return []*spec.Message{spec.M("Bad", spec.F("val", on).BEnc(v))}, nil
				}})
			}
		}
		out = append(out,
			Misuse{Rule: "nullable_on_repeated", JSONRule: true, Offenders: []string{"Bad", "val"}, Build: func() ([]*spec.Message, []*spec.Enum) {
				return []*spec.Message{spec.M("Bad", spec.F("val", "string").Rep().Null())}, nil
			}},
			Misuse{Rule: "nullable_on_map", JSONRule: true, Offenders: []string{"Bad", "val"}, Build: func() ([]*spec.Message, []*spec.Enum) {
				return []*spec.Message{spec.M("Bad", spec.F("val", "string").Map().Null())}, nil
			}},
			Misuse{Rule: "unwrap_on_map_with_sibling_nested", JSONRule: true, Unwrap: true, Offenders: []string{"Bad", "m"}, Build: func() ([]*spec.Message, []*spec.Enum) {
				return []*spec.Message{spec.M("Bad", spec.Msg("m", "Child").Map().Unw(), spec.F("other", "int32")), child()}, nil
			}},
		)
		// the same wrong-field-type rules with the offender in other positions: member of a real oneof, repeated, map
		inOneof := func(f *spec.Field) *spec.Message {
			return spec.M("Bad", f.In("pick"), spec.F("other", "int32").In("pick")).WithOneof(&spec.Oneof{Name: "pick"})
		}
		out = append(out,
			Misuse{Rule: "nullable_on_oneof_scalar_member", JSONRule: true, Offenders: []string{"Bad", "val"}, Build: func() ([]*spec.Message, []*spec.Enum) {
				return []*spec.Message{inOneof(spec.F("val", "string").Null())}, nil
			}},
			Misuse{Rule: "nullable_on_oneof_message_member", JSONRule: true, Offenders: []string{"Bad", "val"}, Build: func() ([]*spec.Message, []*spec.Enum) {
				return []*spec.Message{inOneof(spec.Msg("val", "Child").Null()), child()}, nil
			}},
			Misuse{Rule: "empty_behavior_on_oneof_scalar_member", JSONRule: true, Offenders: []string{"Bad", "val"}, Build: func() ([]*spec.Message, []*spec.Enum) {
				return []*spec.Message{inOneof(spec.F("val", "string").Empty(spec.EmptyNull))}, nil
			}},
			Misuse{Rule: "empty_behavior_on_map_of_message", JSONRule: true, Offenders: []string{"Bad", "val"}, Build: func() ([]*spec.Message, []*spec.Enum) {
				return []*spec.Message{spec.M("Bad", spec.Msg("val", "Child").Map().Empty(spec.EmptyOmit)), child()}, nil
			}},
			Misuse{Rule: "timestamp_format_on_oneof_scalar_member", JSONRule: true, Offenders: []string{"Bad", "val"}, Build: func() ([]*spec.Message, []*spec.Enum) {
				return []*spec.Message{inOneof(spec.F("val", "int64").TsF(spec.TsUnixMs))}, nil
			}},
			Misuse{Rule: "timestamp_format_on_repeated_int64", JSONRule: true, Offenders: []string{"Bad", "val"}, Build: func() ([]*spec.Message, []*spec.Enum) {
				return []*spec.Message{spec.M("Bad", spec.F("val", "int64").Rep().TsF(spec.TsUnixSec))}, nil
			}},
			Misuse{Rule: "bytes_encoding_on_oneof_string_member", JSONRule: true, Offenders: []string{"Bad", "val"}, Build: func() ([]*spec.Message, []*spec.Enum) {
				return []*spec.Message{inOneof(spec.F("val", "string").BEnc(spec.BytesHex))}, nil
			}},
			Misuse{Rule: "bytes_encoding_on_repeated_string", JSONRule: true, Offenders: []string{"Bad", "val"}, Build: func() ([]*spec.Message, []*spec.Enum) {
				return []*spec.Message{spec.M("Bad", spec.F("val", "string").Rep().BEnc(spec.BytesB64URL))}, nil
			}},
			Misuse{Rule: "two_flattened_oneofs_colliding_children", JSONRule: true, Offenders: []string{"Bad"}, Build: func() ([]*spec.Message, []*spec.Enum) {
				return []*spec.Message{spec.M("Bad", spec.F("id", "string"), spec.Msg("a_text", "Child").In("first"), spec.Msg("a_img", "Child").In("first"), spec.Msg("b_text", "Child").In("second"), spec.Msg("b_img", "Child").In("second")).
					WithOneof(&spec.Oneof{Name: "first", Config: true, Disc: "a_type", Flatten: true}, &spec.Oneof{Name: "second", Config: true, Disc: "b_type", Flatten: true}),
					child()}, nil
			}},
		)
		// two-oneof family: every way the members two discriminated oneofs of one message put at the same level can meet - the
		// discriminators of both, the fields of a flattened one's variants, the variant members of a nested one - for each
		// flatten combination and both declaration orders
		two := func(rule string, offenders []string, first, second *spec.Oneof, swap bool) {
			out = append(out, Misuse{Rule: rule, JSONRule: true, Offenders: offenders, Build: func() ([]*spec.Message, []*spec.Enum) {
				a := []*spec.Field{spec.Msg("a_one", "Child").In("first"), spec.Msg("a_two", "Child").In("first")}
				b := []*spec.Field{spec.Msg("b_one", "Other").In("second"), spec.Msg("b_two", "Other").In("second")}
				o1, o2 := *first, *second // the derived families rewrite the specs they are given
				fs, os := append(append([]*spec.Field{spec.F("id", "string")}, a...), b...), []*spec.Oneof{&o1, &o2}
				if swap {
					fs, os = append(append([]*spec.Field{spec.F("id", "string")}, b...), a...), []*spec.Oneof{&o2, &o1}
				}
				return []*spec.Message{spec.M("Bad", fs...).WithOneof(os...), child(), spec.M("Other", spec.F("amount", "int32"), spec.F("unit", "string"))}, nil
			}})
		}
		for _, swap := range []bool{false, true} {
			sfx := map[bool]string{false: "", true: "_declared_second"}[swap]
			for _, fl := range []struct {
				n    string
				a, b bool
			}{{"flat_flat", true, true}, {"flat_nested", true, false}, {"nested_flat", false, true}, {"nested_nested", false, false}} {
				two("two_oneofs_same_discriminator_"+fl.n+sfx, []string{"Bad"},
					&spec.Oneof{Name: "first", Config: true, Disc: "type", Flatten: fl.a}, &spec.Oneof{Name: "second", Config: true, Disc: "type", Flatten: fl.b}, swap)
				if fl.a {
					// Child has the field city: the flattened first oneof puts it beside the second oneof's discriminator
					two("oneof_discriminator_collides_with_sibling_flattened_child_"+fl.n+sfx, []string{"Bad", "city"},
						&spec.Oneof{Name: "first", Config: true, Disc: "a_type", Flatten: true}, &spec.Oneof{Name: "second", Config: true, Disc: "city", Flatten: fl.b}, swap)
				} else {
					// the nested first oneof has the member a_one: the second oneof's discriminator is named like it
					two("oneof_discriminator_collides_with_sibling_variant_member_"+fl.n+sfx, []string{"Bad", "a_one"},
						&spec.Oneof{Name: "first", Config: true, Disc: "a_type", Flatten: false}, &spec.Oneof{Name: "second", Config: true, Disc: "aOne", Flatten: fl.b}, swap)
				}
			}
		}
		out = append(out,
			Misuse{Rule: "flatten_on_optional_scalar", JSONRule: true, Offenders: []string{"Bad", "val"}, Build: func() ([]*spec.Message, []*spec.Enum) {
				return []*spec.Message{spec.M("Bad", spec.F("val", "string").Opt().Flat())}, nil
			}},
		)
		return out
	}
}

// Placements of the offending construct.
// "types_elsewhere" / "types_imported": the offending message in the service file, every other declaration of the rule (the
// child messages, the enum with custom values) in another file of the package - generated too, or only imported. MisuseSpec
// returns nil for these placements when the rule declares nothing but the offending message.
var MisusePlacements = []string{"top", "nested", "sibling_file", "imported_file", "types_elsewhere", "types_imported"}

// MisuseSpec builds the spec for a rule, placement and surrounding (alone / among valid content).
func MisuseSpec(mu Misuse, placement string, among bool) *spec.Spec {
	name := fmt.Sprintf("mis_%s_%s", mu.Rule, placement)
	if among {
		name += "_among"
	}
	cell := fmt.Sprintf("misuse/rule=%s,place=%s,among=%v", mu.Rule, placement, among)
	valid := func() ([]*spec.Message, []*spec.Enum, *spec.Service) {
		if !among {
			return nil, nil, nil
		}
		ms := []*spec.Message{
			spec.M("GoodReq", spec.F("id", "string"), spec.F("n", "int64").I64(spec.EncNumber)),
			spec.M("GoodResp", spec.F("id", "string"), spec.Ts("at").TsF(spec.TsUnixSec)),
		}
		return ms, nil, spec.Svc("GoodService", "/good", spec.RPC("GetGood", "GoodReq", "GoodResp", "POST", "/get"))
	}
	vm, ve, vs := valid()
	if mu.Service != nil {
		msgs, svc := mu.Service()
		f := &spec.File{Messages: append(vm, msgs...), Enums: ve, Services: []*spec.Service{svc}}
		if vs != nil {
			f.Services = append([]*spec.Service{vs}, f.Services...)
		}
		s := spec.One(name, f)
		s.Cell = cell
		return s
	}
	msgs, enums := mu.Build()
	// a service that uses the offending message so that every generator has a reason to look at it
	useSvc := func(badType string) *spec.Service {
		return spec.Svc("UseService", "/use", spec.RPC("Use", badType, badType, "POST", "/use"))
	}
	var s *spec.Spec
	switch placement {
	case "top":
		f := &spec.File{Messages: append(vm, msgs...), Enums: append(ve, enums...), Services: []*spec.Service{useSvc("Bad")}}
		if vs != nil {
			f.Services = append(f.Services, vs)
		}
		s = spec.One(name, f)
	case "nested":
		outer := spec.M("Outer", spec.Msg("inner", "Outer.Bad"))
		// nested types: references inside must be qualified
		declared := map[string]bool{}
		for _, m := range msgs {
			declared[m.Name] = true
		}
		for _, m := range msgs {
			for _, fl := range m.Fields {
				if fl.Kind == "message" && declared[fl.Type] {
					fl.Type = "Outer." + fl.Type
				}
				if fl.Kind == "enum" && fl.Type == "Mood" {
					fl.Type = "Outer.Mood"
				}
			}
		}
		outer.Messages = msgs
		outer.Enums = enums
		f := &spec.File{Messages: append(vm, outer), Enums: ve, Services: []*spec.Service{useSvc("Outer")}}
		if vs != nil {
			f.Services = append(f.Services, vs)
		}
		s = spec.One(name, f)
	case "types_elsewhere", "types_imported":
		var bad, others []*spec.Message
		for _, m := range msgs {
			if m.Name == "Bad" {
				bad = append(bad, m)
			} else {
				others = append(others, m)
			}
		}
		if len(bad) == 0 || (len(others) == 0 && len(enums) == 0) {
			return nil
		}
		pkg := "v" + name
		lib := &spec.File{Path: name + "_types.proto", Package: pkg, Messages: others, Enums: enums}
		main := &spec.File{Path: name + ".proto", Package: pkg, Imports: []string{lib.Path},
			Messages: append(vm, bad...), Enums: ve, Services: []*spec.Service{useSvc("Bad")}}
		if vs != nil {
			main.Services = append(main.Services, vs)
		}
		s = &spec.Spec{Name: name, Files: []*spec.File{lib, main}}
		if placement == "types_imported" {
			s.Generate = []string{main.Path}
		}
	case "sibling_file", "imported_file":
		pkg := "v" + name
		lib := &spec.File{Path: name + "_lib.proto", Package: pkg, Messages: msgs, Enums: enums}
		main := &spec.File{Path: name + ".proto", Package: pkg, Imports: []string{lib.Path},
			Messages: append(vm, spec.M("Holder", spec.Msg("bad", "Bad"))), Enums: ve, Services: []*spec.Service{useSvc("Holder")}}
		if vs != nil {
			main.Services = append(main.Services, vs)
		}
		s = &spec.Spec{Name: name, Files: []*spec.File{lib, main}}
		if placement == "imported_file" {
			s.Generate = []string{main.Path}
		}
	}
	s.Cell = cell
	return s
}
