package univ

import (
	"fmt"
	"strings"

	"verif/mc/spec"
)

// MockSpecs is F-mock: one unit per response-field kind x cardinality, plus nested / enum / recursive /
// examples units. Each unit has one RPC returning message Resp.
func MockSpecs(thorough bool) []*spec.Spec {
	var out []*spec.Spec
	mk := func(name, cell string, resp *spec.Message, extraM []*spec.Message, extraE []*spec.Enum) {
		f := &spec.File{Enums: extraE, Messages: append([]*spec.Message{spec.M("Req", spec.F("id", "string").R(`string:{min_len:1}`)), resp}, extraM...),
			Services: []*spec.Service{spec.Svc("MockedService", "/m", spec.RPC("Fetch", "Req", "Resp", "POST", "/fetch"))}}
		out = append(out, withCell(spec.One("mock_"+name, f), "mock/"+cell, "extended", "valid", "mock"))
	}
	for _, k := range spec.Scalars {
		for _, card := range []string{"singular", "optional", "repeated", "map"} {
			if !thorough && card != "singular" && (k == "sfixed32" || k == "sfixed64" || k == "fixed32" || k == "sint32") {
				continue
			}
			f := spec.F("val", k)
			switch card {
			case "optional":
				f.Opt()
			case "repeated":
				f.Rep()
			case "map":
				f.Map()
			}
			mk(fmt.Sprintf("%s_%s", k, card), fmt.Sprintf("kind=%s,card=%s", k, card), spec.M("Resp", f, spec.F("label", "string")), nil, nil)
		}
	}
	// map fields by KEY kind (every kind protobuf allows as a map key), with a scalar and with a message value
	for _, k := range []string{"int32", "int64", "uint32", "uint64", "sint32", "sint64", "fixed32", "fixed64", "sfixed32", "sfixed64", "bool"} {
		mk("mapkey_"+k, "kind=string,card=map,key="+k, spec.M("Resp", spec.F("val", "string").MapK(k), spec.Msg("by", "Inner").MapK(k), spec.F("label", "string")),
			[]*spec.Message{spec.M("Inner", spec.F("name", "string"))}, nil)
	}
	{
		// examples on the fields of messages declared one, two and three levels below a top-level message, and the same nested
		// path below two different top-level messages
		deep := func(top string) *spec.Message {
			para := spec.M("Para", spec.F("text", "string").Ex("alpha", "beta"), spec.F("level", "int32").Ex("7"))
			para.Messages = []*spec.Message{spec.M("Span", spec.F("style", "string").Ex("bold", "plain"))}
			para.Fields = append(para.Fields, spec.Msg("span", top+".Section.Para.Span"))
			section := spec.M("Section", spec.F("title", "string").Ex("intro"), spec.Msg("para", top+".Section.Para"))
			section.Messages = []*spec.Message{para}
			m := spec.M(top, spec.F("label", "string").Ex("doc"), spec.Msg("section", top+".Section"))
			m.Messages = []*spec.Message{section}
			return m
		}
		resp := deep("Resp")
		resp.Fields = append(resp.Fields, spec.Msg("other", "Other"))
		mk("nested_deep", "kind=message,card=nested_declarations,examples=parsable", resp, []*spec.Message{deep("Other")}, nil)
	}
	color := spec.E("Color", "COLOR_UNSPECIFIED", "COLOR_RED")
	mk("enum_singular", "kind=enum,card=singular", spec.M("Resp", spec.En("val", "Color")), nil, []*spec.Enum{color})
	mk("message_singular", "kind=message,card=singular", spec.M("Resp", spec.Msg("val", "Inner"), spec.F("label", "string")), []*spec.Message{spec.M("Inner", spec.F("name", "string"), spec.F("n", "int64"))}, nil)
	mk("message_repeated", "kind=message,card=repeated", spec.M("Resp", spec.Msg("val", "Inner").Rep()), []*spec.Message{spec.M("Inner", spec.F("name", "string"))}, nil)
	mk("message_map", "kind=message,card=map", spec.M("Resp", spec.Msg("val", "Inner").Map()), []*spec.Message{spec.M("Inner", spec.F("name", "string"), spec.F("flag", "bool"))}, nil)
	mk("timestamp_singular", "kind=timestamp,card=singular", spec.M("Resp", spec.Ts("val")), nil, nil)
	mk("timestamp_map", "kind=timestamp,card=map", spec.M("Resp", spec.Ts("val").Map(), spec.F("label", "string")), nil, nil)
	mk("timestamp_repeated", "kind=timestamp,card=repeated", spec.M("Resp", spec.Ts("val").Rep(), spec.F("label", "string")), nil, nil)
	mk("message_nested_map", "kind=message,card=nested_map", spec.M("Resp", spec.Msg("val", "Inner").Map()), []*spec.Message{spec.M("Inner", spec.F("name", "string"), spec.Ts("stamps").Map())}, nil)
	mk("oneof", "kind=oneof,card=singular", spec.M("Resp", spec.F("a", "string").In("pick"), spec.F("b", "int64").In("pick")).WithOneof(&spec.Oneof{Name: "pick"}), nil, nil)
	mk("recursive", "kind=message,card=recursive", spec.M("Resp", spec.F("label", "string"), spec.Msg("next", "Resp"), spec.Msg("kids", "Resp").Map()), nil, nil)
	// examples
	mk("examples_string", "kind=string,card=singular,examples=parsable",
		spec.M("Resp", spec.F("val", "string").Ex("alpha", "beta", "gamma"), spec.F("user_id", "string").Ex("u-1", "u-2"), spec.F("other", "string")), nil, nil)
	mk("examples_int64", "kind=int64,card=singular,examples=parsable", spec.M("Resp", spec.F("val", "int64").Ex("7", "-3", "9007199254740993")), nil, nil)
	mk("examples_bool", "kind=bool,card=singular,examples=parsable", spec.M("Resp", spec.F("val", "bool").Ex("true", "false")), nil, nil)
	mk("examples_double", "kind=double,card=singular,examples=parsable", spec.M("Resp", spec.F("val", "double").Ex("0.5", "-2.25")), nil, nil)
	mk("examples_int64_unparsable", "kind=int64,card=singular,examples=unparsable", spec.M("Resp", spec.F("val", "int64").Ex("seven", "8")), nil, nil)
	// position family of the example that does not parse: first / last / middle / both ends, for each parsed kind
	for _, k := range []struct{ kind, good1, good2, bad string }{{"int64", "8", "-3", "n/a"}, {"int32", "9", "4", "n/a"}, {"double", "2.5", "-0.25", "tbd"}, {"bool", "false", "false", "unknown"}} {
		for _, pos := range []struct {
			key string
			exs []string
		}{{"last", []string{k.good1, k.bad}}, {"middle", []string{k.good1, k.bad, k.good2}}, {"ends", []string{k.bad, k.good1, k.bad}}, {"tail2", []string{k.good1, k.bad, k.bad}}} {
			mk("examples_"+k.kind+"_unparsable_"+pos.key, "kind="+k.kind+",card=singular,examples=unparsable_"+pos.key, spec.M("Resp", spec.F("val", k.kind).Ex(pos.exs...)), nil, nil)
		}
	}
	mk("examples_nested", "kind=message,card=singular,examples=parsable",
		spec.M("Resp", spec.Msg("inner", "Inner")), []*spec.Message{spec.M("Inner", spec.F("val", "string").Ex("x1", "x2"))}, nil)
	addr := func() *spec.Message {
		return spec.M("Address", spec.F("street", "string").Ex("1 Main St", "2 Side Rd"), spec.F("zip", "int64").Ex("10115", "75001"))
	}
	mk("examples_shared_type", "kind=message,card=twice,examples=parsable",
		spec.M("Resp", spec.F("order_ref", "string").Ex("A-1", "B-2"), spec.Msg("billing", "Address"), spec.Msg("shipping", "Address")), []*spec.Message{addr()}, nil)
	mk("examples_diamond", "kind=message,card=diamond,examples=parsable",
		spec.M("Resp", spec.Msg("left", "Left"), spec.Msg("right", "Right")),
		[]*spec.Message{spec.M("Left", spec.Msg("addr", "Address")), spec.M("Right", spec.Msg("addr", "Address"), spec.F("tag", "string").Ex("x", "y")), addr()}, nil)
	mk("examples_map_and_singular", "kind=message,card=map+singular,examples=parsable",
		spec.M("Resp", spec.Msg("by_key", "Address").Map(), spec.Msg("main", "Address")), []*spec.Message{addr()}, nil)
	mk("examples_optional", "kind=string,card=optional,examples=parsable", spec.M("Resp", spec.F("val", "string").Opt().Ex("o1", "o2"), spec.F("n", "int32").Opt().Ex("5", "6")), nil, nil)
	mk("examples_repeated", "kind=string,card=repeated,examples=parsable", spec.M("Resp", spec.F("val", "string").Rep().Ex("r1", "r2"), spec.F("n", "int64").Rep().Ex("7", "8")), nil, nil)
	mk("examples_oneof_member", "kind=oneof,card=singular,examples=parsable",
		spec.M("Resp", spec.F("a", "string").In("pick").Ex("a1", "a2"), spec.F("b", "int64").In("pick").Ex("1", "2")).WithOneof(&spec.Oneof{Name: "pick"}), nil, nil)
	mk("examples_int32_float", "kind=int32,card=singular,examples=parsable", spec.M("Resp", spec.F("val", "int32").Ex("3", "-4"), spec.F("f", "float").Ex("0.5", "2")), nil, nil)
	{
		// a nested message with the short name of the (different) message it wraps
		resp := spec.M("Resp", spec.Msg("first_item", "Resp.Item"), spec.F("label", "string")).WithNested(spec.M("Item", spec.Msg("item", "Item"), spec.F("quantity", "int32")))
		mk("examples_same_short_name", "kind=message,card=same_short_name,examples=parsable", resp,
			[]*spec.Message{spec.M("Item", spec.F("sku", "string").Ex("SKU-1", "SKU-2"), spec.F("weight", "int64").Ex("250", "300"))}, nil)
	}
	// enum responses on every cardinality
	for _, card := range []string{"optional", "repeated", "map"} {
		f := spec.En("val", "Color")
		switch card {
		case "optional":
			f.Opt()
		case "repeated":
			f.Rep()
		case "map":
			f.Map()
		}
		mk("enum_"+card, "kind=enum,card="+card, spec.M("Resp", f, spec.F("label", "string")), nil, []*spec.Enum{color})
	}
	{
		// examples on a field of a message declared inside the response message
		resp := spec.M("Resp", spec.Msg("detail", "Resp.Detail"), spec.F("label", "string").Ex("l1", "l2")).WithNested(spec.M("Detail", spec.F("code", "string").Ex("c1", "c2"), spec.F("qty", "int64").Ex("3", "4")))
		mk("examples_nested_declaration", "kind=message,card=nested_declaration,examples=parsable", resp, nil, nil)
	}
	{
		// the syntax dimension: the same response shapes in a proto2 file (every singular field has presence; optional is a label)
		mk2 := func(name, cell string, resp *spec.Message, extraM []*spec.Message) {
			f := &spec.File{Proto2: true, Messages: append([]*spec.Message{spec.M("Req", spec.F("id", "string")), resp}, extraM...),
				Services: []*spec.Service{spec.Svc("MockedService", "/m", spec.RPC("Fetch", "Req", "Resp", "POST", "/fetch"))}}
			out = append(out, withCell(spec.One("mock_"+name, f), "mock/"+cell, "extended", "valid", "mock"))
		}
		mk2("proto2_scalars", "kind=scalars,card=optional,syntax=proto2,examples=parsable",
			spec.M("Resp", spec.F("title", "string").Opt().Ex("t1", "t2"), spec.F("count", "int32").Opt().Ex("5", "6"), spec.F("done", "bool").Opt().Ex("true"), spec.F("total", "int64").Opt(),
				spec.F("ratio", "double").Opt(), spec.F("tags", "string").Rep().Ex("a", "b")), nil)
		mk2("proto2_nested", "kind=message,card=optional,syntax=proto2,examples=parsable",
			spec.M("Resp", spec.Msg("leaf", "Leaf").Opt(), spec.Msg("leaves", "Leaf").Rep(), spec.F("name", "string").Opt()), []*spec.Message{spec.M("Leaf", spec.F("label", "string").Opt().Ex("x", "y"), spec.F("n", "int32").Opt())})
	}
	{
		// the package dimension: a file without a package line and a file with a deeply dotted package (message names are unique
		// across the harness because a package-less file registers its messages in the global namespace)
		for _, pk := range [][2]string{{"none", ""}, {"dotted", "vmock.dotted.pkg.v1"}} {
			pre := "Np" + strings.ToUpper(pk[0][:1]) + pk[0][1:]
			resp := spec.M(pre+"Resp", spec.F("greeting", "string").Ex("hello", "salut"), spec.F("count", "int64").Ex("3", "4"), spec.Msg("detail", pre+"Resp.Detail")).
				WithNested(spec.M("Detail", spec.F("code", "string").Ex("c1", "c2")))
			f := &spec.File{Messages: []*spec.Message{spec.M(pre+"Req", spec.F("id", "string")), resp},
				Services: []*spec.Service{spec.Svc(pre+"MockedService", "/m"+pk[0], spec.RPC("Fetch", pre+"Req", pre+"Resp", "POST", "/fetch"))}}
			sp := spec.One("mock_package_"+pk[0], f)
			sp.Files[0].Package = pk[1]
			out = append(out, withCell(sp, "mock/kind=message,card=singular,package="+pk[0]+",examples=parsable", "extended", "valid", "mock"))
		}
	}
	{
		// several RPCs in one service, one of them with a response graph dense enough to hit the generator's per-response message
		// budget (8 mutually referencing types), before and after an RPC whose small response carries examples: what one mock method
		// gets must not depend on the RPCs generated before it
		var dense []*spec.Message
		for i := 0; i < 8; i++ {
			m := spec.M(fmt.Sprintf("N%d", i), spec.F("label", "string"))
			for j := 0; j < 8; j++ {
				if j != i {
					m.Fields = append(m.Fields, spec.Msg(fmt.Sprintf("to%d", j), fmt.Sprintf("N%d", j)))
				}
			}
			dense = append(dense, m)
		}
		summary := func() *spec.Message {
			return spec.M("Summary", spec.F("label", "string").Ex("alpha", "beta"), spec.F("count", "int64").Ex("7"), spec.Msg("detail", "Region"))
		}
		region := spec.M("Region", spec.F("region", "string").Ex("emea", "apac"))
		for _, order := range []string{"dense_first", "dense_last"} {
			rpcs := []*spec.Method{spec.RPC("GetGraph", "Req", "N0", "POST", "/graph"), spec.RPC("GetSummary", "Req", "Summary", "POST", "/summary"), spec.RPC("GetRegion", "Req", "Region", "POST", "/region")}
			if order == "dense_last" {
				rpcs = []*spec.Method{rpcs[1], rpcs[2], rpcs[0]}
			}
			f := &spec.File{Messages: append([]*spec.Message{spec.M("Req", spec.F("id", "string").R(`string:{min_len:1}`)), summary(), region}, dense...),
				Services: []*spec.Service{spec.Svc("CatalogService", "/c", rpcs...), spec.Svc("ReportService", "/r", spec.RPC("GetReport", "Req", "Summary", "POST", "/report"))}}
			out = append(out, withCell(spec.One("mock_budget_"+order, f), "mock/kind=message,card=dense_graph,order="+order+",examples=parsable", "extended", "valid", "mock"))
		}
	}
	mk("examples_quote", "kind=string,card=singular,examples=quote", spec.M("Resp", spec.F("val", "string").Ex(`say "hi"`, `back\slash`)), nil, nil)
	return out
}
