package univ

import (
	"fmt"

	"verif/mc/spec"
)

// pairAtom is one codec-generating annotation feature placed in a message under a field-name prefix.
type pairAtom struct {
	key  string
	make func(p string) ([]*spec.Field, []*spec.Oneof) // p: field-name prefix, unique per position
}

var pairAtoms = []pairAtom{
	{"int64num", func(p string) ([]*spec.Field, []*spec.Oneof) {
		return []*spec.Field{spec.F(p+"count", "int64").I64(spec.EncNumber)}, nil
	}},
	{"uint64num_rep", func(p string) ([]*spec.Field, []*spec.Oneof) {
		return []*spec.Field{spec.F(p+"sizes", "uint64").Rep().I64(spec.EncNumber)}, nil
	}},
	{"nullable", func(p string) ([]*spec.Field, []*spec.Oneof) {
		return []*spec.Field{spec.F(p+"nick", "string").Opt().Null()}, nil
	}},
	{"empty_null", func(p string) ([]*spec.Field, []*spec.Oneof) {
		return []*spec.Field{spec.Msg(p+"meta", "PMeta").Empty(spec.EmptyNull)}, nil
	}},
	{"empty_omit", func(p string) ([]*spec.Field, []*spec.Oneof) {
		return []*spec.Field{spec.Msg(p+"extra", "PMeta").Empty(spec.EmptyOmit)}, nil
	}},
	{"ts_unix", func(p string) ([]*spec.Field, []*spec.Oneof) {
		return []*spec.Field{spec.Ts(p + "at").TsF(spec.TsUnixSec)}, nil
	}},
	{"ts_date", func(p string) ([]*spec.Field, []*spec.Oneof) {
		return []*spec.Field{spec.Ts(p + "day").TsF(spec.TsDate)}, nil
	}},
	{"bytes_hex", func(p string) ([]*spec.Field, []*spec.Oneof) {
		return []*spec.Field{spec.F(p+"blob", "bytes").BEnc(spec.BytesHex)}, nil
	}},
	{"flatten", func(p string) ([]*spec.Field, []*spec.Oneof) {
		return []*spec.Field{spec.Msg(p+"addr", "PAddr").FlatP(p + "addr_")}, nil
	}},
	{"oneof_flat", func(p string) ([]*spec.Field, []*spec.Oneof) {
		on := p + "content"
		return []*spec.Field{spec.Msg(p+"text", "PText_"+p).In(on), spec.Msg(p+"image", "PImage_"+p).In(on)},
			[]*spec.Oneof{{Name: on, Config: true, Disc: p + "type", Flatten: true}}
	}},
	{"oneof_nested", func(p string) ([]*spec.Field, []*spec.Oneof) {
		on := p + "payload"
		return []*spec.Field{spec.Msg(p+"note", "PText").In(on), spec.Msg(p+"pic", "PImage").In(on)},
			[]*spec.Oneof{{Name: on, Config: true, Disc: p + "kind"}}
	}},
	{"unwrap_map", func(p string) ([]*spec.Field, []*spec.Oneof) {
		return []*spec.Field{spec.Msg(p+"bars", "PBarList").Map()}, nil
	}},
	{"enum_custom", func(p string) ([]*spec.Field, []*spec.Oneof) {
		return []*spec.Field{spec.En(p+"state", "PState")}, nil
	}},
	{"enum_number", func(p string) ([]*spec.Field, []*spec.Oneof) {
		return []*spec.Field{spec.En(p+"level", "PLevel").EEnc(spec.EncNumber)}, nil
	}},
}

// pairHelpers returns the helper messages and enums the fields refer to (only those: an unused unwrap wrapper
// or annotated enum would add codec files of its own to every unit).
func pairHelpers(fields []*spec.Field) ([]*spec.Message, []*spec.Enum) {
	all := map[string]*spec.Message{
		"PMeta": spec.M("PMeta", spec.F("k", "string")),
		"PAddr": spec.M("PAddr", spec.F("street", "string"), spec.F("zip", "int32")),
		"PText": spec.M("PText", spec.F("body", "string")), "PImage": spec.M("PImage", spec.F("url", "string")),
		"PBarList": spec.M("PBarList", spec.F("values", "int32").Rep().Unw()),
	}
	enums := map[string]*spec.Enum{
		"PState": {Name: "PState", Values: []*spec.EnumValue{{Name: "P_STATE_UNSPECIFIED", Num: 0, Custom: spec.Str("none")}, {Name: "P_STATE_ON", Num: 1, Custom: spec.Str("on")}}},
		"PLevel": spec.E("PLevel", "P_LEVEL_LOW", "P_LEVEL_HIGH"),
	}
	// variants of flattened oneofs get child names of their own (children of two flattened oneofs must not collide)
	for _, p := range []string{"a_", "b_"} {
		all["PText_"+p] = spec.M("PText_"+p, spec.F(p[:1]+"body", "string")) // single-word names: multi-word children are F-flatten's subject
		all["PImage_"+p] = spec.M("PImage_"+p, spec.F(p[:1]+"url", "string"))
	}
	var ms []*spec.Message
	var es []*spec.Enum
	seen := map[string]bool{}
	for _, f := range fields {
		if seen[f.Type] {
			continue
		}
		seen[f.Type] = true
		if m, ok := all[f.Type]; ok {
			ms = append(ms, m)
		}
		if e, ok := enums[f.Type]; ok {
			es = append(es, e)
		}
	}
	return ms, es
}

// PairSpecs is F-pair: every ordered pair (A, B), A != B in quick only for A < B plus the reversed order of the
// same pair in thorough, and every atom twice (A, A) — of codec-generating annotation features in one message,
// one unit per pair so that a unit that does not build leaves the others alone.
func PairSpecs(thorough bool) []*spec.Spec {
	var out []*spec.Spec
	for i, a := range pairAtoms {
		for j, b := range pairAtoms {
			if j < i && !thorough {
				continue
			}
			fa, oa := a.make("a_")
			fb, ob := b.make("b_")
			m := spec.M("Pair", append(append([]*spec.Field{spec.F("id", "string")}, fa...), fb...)...)
			m.Oneofs = append(append(m.Oneofs, oa...), ob...)
			msgs, enums := pairHelpers(m.Fields)
			f := &spec.File{Enums: enums, Messages: append(msgs, m), Services: []*spec.Service{EchoService("PairService", "Pair")}}
			name := fmt.Sprintf("pair_%s__%s", a.key, b.key)
			out = append(out, withCell(spec.One(name, f), fmt.Sprintf("pair/unit=pair,a=%s,b=%s,ab=%s+%s", a.key, b.key, a.key, b.key), "extended", "valid", "codec", "pair"))
		}
	}
	return out
}
