package univ

import (
	"verif/mc/spec"
)

// annotated constructs: one representative message per annotation value; Obj says the JSON form is an object
// (needed for flatten / flattened oneof contexts).
type annotated struct {
	Key   string
	Msgs  func() []*spec.Message // first message is the annotated one, named "A"
	Enums func() []*spec.Enum
	Obj   bool
	// Alone lists contexts that get a unit of their own (they are known not to build and would otherwise
	// block every other context of the construct).
	Alone []string
}

func annotatedConstructs() []annotated {
	return []annotated{
		{Key: "int64_number", Obj: true, Msgs: func() []*spec.Message {
			return []*spec.Message{spec.M("A", spec.F("units", "int64").I64(spec.EncNumber), spec.F("plain", "int64"), spec.F("cur", "string"))}
		}},
		{Key: "uint64_number_repeated", Obj: true, Msgs: func() []*spec.Message {
			return []*spec.Message{spec.M("A", spec.F("vals", "uint64").Rep().I64(spec.EncNumber), spec.F("cur", "string"))}
		}},
		{Key: "enum_custom", Obj: true, Msgs: func() []*spec.Message {
			return []*spec.Message{spec.M("A", spec.En("level", "Level"), spec.F("cur", "string"))}
		}, Enums: func() []*spec.Enum {
			return []*spec.Enum{{Name: "Level", Values: []*spec.EnumValue{{Name: "LEVEL_UNSPECIFIED", Num: 0, Custom: spec.Str("none")}, {Name: "LEVEL_HIGH", Num: 1, Custom: spec.Str("high")}, {Name: "LEVEL_LOW", Num: 2, Custom: spec.Str("low")}}}}
		}},
		{Key: "enum_number", Obj: true, Msgs: func() []*spec.Message {
			return []*spec.Message{spec.M("A", spec.En("prio", "Prio").EEnc(spec.EncNumber), spec.F("cur", "string"))}
		}, Enums: func() []*spec.Enum { return []*spec.Enum{spec.E("Prio", "PRIO_LOW", "PRIO_MID", "PRIO_HIGH")} }},
		{Key: "nullable", Obj: true, Msgs: func() []*spec.Message {
			return []*spec.Message{spec.M("A", spec.F("nick", "string").Opt().Null(), spec.F("age", "int32").Opt().Null(), spec.F("cur", "string"))}
		}},
		{Key: "empty_null", Obj: true, Msgs: func() []*spec.Message {
			return []*spec.Message{spec.M("A", spec.Msg("meta", "Meta").Empty(spec.EmptyNull), spec.F("cur", "string")), spec.M("Meta", spec.F("k", "string"))}
		}},
		{Key: "empty_omit", Obj: true, Msgs: func() []*spec.Message {
			return []*spec.Message{spec.M("A", spec.Msg("meta", "Meta").Empty(spec.EmptyOmit), spec.F("cur", "string")), spec.M("Meta", spec.F("k", "string"))}
		}},
		{Key: "ts_unix_seconds", Obj: true, Msgs: func() []*spec.Message {
			return []*spec.Message{spec.M("A", spec.Ts("at").TsF(spec.TsUnixSec), spec.F("cur", "string"))}
		}},
		{Key: "ts_date", Obj: true, Msgs: func() []*spec.Message {
			return []*spec.Message{spec.M("A", spec.Ts("day").TsF(spec.TsDate), spec.F("cur", "string"))}
		}},
		{Key: "bytes_hex", Obj: true, Msgs: func() []*spec.Message {
			return []*spec.Message{spec.M("A", spec.F("data", "bytes").BEnc(spec.BytesHex), spec.F("cur", "string"))}
		}},
		{Key: "flatten", Obj: true, Msgs: func() []*spec.Message {
			return []*spec.Message{spec.M("A", spec.F("name", "string"), spec.Msg("geo", "Geo").FlatP("geo_")), spec.M("Geo", spec.F("lat", "double"), spec.F("lng", "double"))}
		}},
		{Key: "oneof_disc_flat", Obj: true, Msgs: func() []*spec.Message {
			return []*spec.Message{
				spec.M("A", spec.F("name", "string"), spec.Msg("text", "Text").In("body"), spec.Msg("img", "Img").In("body").OV("image")).WithOneof(&spec.Oneof{Name: "body", Config: true, Disc: "type", Flatten: true}),
				spec.M("Text", spec.F("content", "string")), spec.M("Img", spec.F("url", "string"), spec.F("w", "int32"))}
		}},
		{Key: "oneof_disc_nested", Obj: true, Msgs: func() []*spec.Message {
			return []*spec.Message{
				spec.M("A", spec.F("name", "string"), spec.Msg("text", "Text").In("body"), spec.Msg("img", "Img").In("body").OV("image")).WithOneof(&spec.Oneof{Name: "body", Config: true, Disc: "kind"}),
				spec.M("Text", spec.F("content", "string")), spec.M("Img", spec.F("url", "string"), spec.F("w", "int32"))}
		}},
		{Key: "unwrap_root_list", Obj: false, Msgs: func() []*spec.Message {
			return []*spec.Message{spec.M("A", spec.Msg("items", "Item").Rep().Unw()), spec.M("Item", spec.F("sku", "string"), spec.F("qty", "int32"))}
		}},
		{Key: "unwrap_root_map", Obj: false, Alone: []string{"MapValue"}, Msgs: func() []*spec.Message {
			return []*spec.Message{spec.M("A", spec.Msg("by_id", "Item").Map().Unw()), spec.M("Item", spec.F("sku", "string"), spec.F("qty", "int32"))}
		}},
	}
}

// CtxSpecs: every annotated construct placed in every context (F-ctx). One unit per construct; each context
// is one message (named after the context) with an echo RPC.
func CtxSpecs() []*spec.Spec {
	var out []*spec.Spec
	for _, a := range annotatedConstructs() {
		msgs := a.Msgs()
		var enums []*spec.Enum
		if a.Enums != nil {
			enums = a.Enums()
		}
		holders := []*spec.Message{
			spec.M("Child", spec.Msg("a", "A"), spec.F("note", "string"), spec.F("count", "int64")),
			spec.M("ListElem", spec.Msg("list", "A").Rep(), spec.F("note", "string"), spec.F("count", "int64")),
			spec.M("MapValue", spec.Msg("by_key", "A").Map(), spec.F("note", "string"), spec.F("count", "int64")),
			spec.M("PlainOneof", spec.Msg("a", "A").In("pick"), spec.F("other", "string").In("pick"), spec.F("note", "string")).WithOneof(&spec.Oneof{Name: "pick"}),
			spec.M("UnwrapSibling", spec.Msg("groups", "StrList").Map(), spec.Msg("a", "A"), spec.F("count", "int64")),
			spec.M("StrList", spec.F("vals", "string").Rep().Unw()),
			spec.M("GrandChild", spec.Msg("child", "Child"), spec.F("note", "string")),
		}
		names := []string{"A", "Child", "ListElem", "MapValue", "PlainOneof", "UnwrapSibling", "GrandChild"}
		if a.Obj {
			holders = append(holders,
				spec.M("FlattenChild", spec.Msg("a", "A").FlatP("a_"), spec.F("note", "string"), spec.F("count", "int64")),
				spec.M("DiscFlatVariant", spec.F("id", "string"), spec.Msg("a", "A").In("v"), spec.Msg("o", "Other").In("v")).WithOneof(&spec.Oneof{Name: "v", Config: true, Disc: "vtype", Flatten: true}),
				spec.M("DiscNestedVariant", spec.F("id", "string"), spec.Msg("a", "A").In("v"), spec.Msg("o", "Other").In("v")).WithOneof(&spec.Oneof{Name: "v", Config: true, Disc: "vkind"}),
				spec.M("Other", spec.F("zzz", "string")),
			)
			names = append(names, "FlattenChild", "DiscFlatVariant", "DiscNestedVariant")
		}
		alone := map[string]bool{}
		for _, n := range a.Alone {
			alone[n] = true
		}
		var keepH []*spec.Message
		var keepN []string
		for _, h := range holders {
			if !alone[h.Name] {
				keepH = append(keepH, h)
			}
		}
		for _, n := range names {
			if !alone[n] {
				keepN = append(keepN, n)
			}
		}
		f := &spec.File{Enums: enums, Messages: append(msgs, keepH...), Services: []*spec.Service{EchoService("CtxService", keepN...)}}
		s := spec.One("ctx_"+a.Key, f)
		out = append(out, withCell(s, "ctx/ann="+a.Key, "extended", "valid", "codec", "ctx"))
		for _, n := range a.Alone {
			var h *spec.Message
			for _, x := range holders {
				if x.Name == n {
					h = x
				}
			}
			var e2 []*spec.Enum
			if a.Enums != nil {
				e2 = a.Enums()
			}
			f2 := &spec.File{Enums: e2, Messages: append(a.Msgs(), h), Services: []*spec.Service{EchoService("CtxService", n)}}
			s2 := spec.One("ctx_"+a.Key+"_"+n, f2)
			out = append(out, withCell(s2, "ctx/ann="+a.Key+",only="+n, "extended", "valid", "codec", "ctx"))
		}
	}
	return out
}

// CodecHostSpecs: every object-shaped annotated construct hosted by a parent that has a generated codec of its own
// and hands the child to the child's codec - as a flattened child (with prefix) and as a variant of a flattened and
// of a nested discriminated oneof. Unlike the protojson-coded contexts of F-ctx these are expected to work, so the
// family is open to every check (tags extended/valid/codec, not ctx): the child's annotation must show in the
// parent's wire form, in the OpenAPI schema of the parent and in its TypeScript declaration.
func CodecHostSpecs() []*spec.Spec {
	var out []*spec.Spec
	for _, a := range annotatedConstructs() {
		if !a.Obj {
			continue
		}
		var enums []*spec.Enum
		if a.Enums != nil {
			enums = a.Enums()
		}
		holders := []*spec.Message{
			spec.M("FlattenChild", spec.Msg("a", "A").FlatP("a_"), spec.F("note", "string"), spec.F("count", "int64")),
			spec.M("DiscFlatVariant", spec.F("id", "string"), spec.Msg("a", "A").In("v"), spec.Msg("o", "Other").In("v")).WithOneof(&spec.Oneof{Name: "v", Config: true, Disc: "vtype", Flatten: true}),
			spec.M("DiscNestedVariant", spec.F("id", "string"), spec.Msg("a", "A").In("v"), spec.Msg("o", "Other").In("v")).WithOneof(&spec.Oneof{Name: "v", Config: true, Disc: "vkind"}),
			// the nested form again with variant fields whose JSON name differs from the proto name (several words, json_name)
			spec.M("DiscNestedWords", spec.F("id", "string"), spec.Msg("a_payload", "A").In("v"), spec.Msg("att", "A").In("v").JN("file"), spec.Msg("other_one", "Other").In("v")).WithOneof(&spec.Oneof{Name: "v", Config: true, Disc: "vkind"}),
			spec.M("Other", spec.F("zzz", "string")),
		}
		f := &spec.File{Enums: enums, Messages: append(a.Msgs(), holders...), Services: []*spec.Service{EchoService("HostService", "A", "FlattenChild", "DiscFlatVariant", "DiscNestedVariant", "DiscNestedWords")}}
		out = append(out, withCell(spec.One("host_"+a.Key, f), "host/ann="+a.Key, "extended", "valid", "codec"))
	}
	return out
}
