package univ

import (
	"fmt"

	"verif/mc/spec"
)

// RouteSpecs is F-route: base_path x method-config, path shapes x verbs, method-name shapes, placement kinds.
func RouteSpecs(thorough bool) []*spec.Spec {
	var out []*spec.Spec
	out1 := func(msgs ...*spec.Message) []*spec.Message {
		return append(msgs, spec.M("Out", spec.F("ok", "bool")))
	}
	// A: base path x method config
	{
		var svcs []*spec.Service
		bases := []struct{ key, val string }{{"absent", "\x00"}, {"slash_api", "/api"}, {"api", "api"}, {"api_slash", "/api/"}, {"multi", "/api/v1"}, {"root", "/"}, {"empty", ""}}
		for i, b := range bases {
			s := spec.Svc(fmt.Sprintf("Base%dService", i), b.val,
				spec.RPCDefault(fmt.Sprintf("B%dDefault", i), "BodyReq", "Out"),
				&spec.Method{Name: fmt.Sprintf("B%dPathOnly", i), In: "BodyReq", Out: "Out", Config: true, Path: fmt.Sprintf("/p%d", i)},
				&spec.Method{Name: fmt.Sprintf("B%dVerbOnly", i), In: "BodyReq", Out: "Out", Config: true, Verb: "PUT"},
				spec.RPC(fmt.Sprintf("B%dBoth", i), "IdReq", "Out", "GET", fmt.Sprintf("/b%d/{id}", i)),
				spec.RPC(fmt.Sprintf("B%dNoLeadingSlash", i), "IdReq", "Out", "DELETE", fmt.Sprintf("n%d/{id}", i)),
			)
			svcs = append(svcs, s)
		}
		f := &spec.File{Messages: out1(spec.M("BodyReq", spec.F("name", "string"), spec.F("count", "int32")), spec.M("IdReq", spec.F("id", "string"))), Services: svcs}
		out = append(out, withCell(spec.One("route_base", f), "route/unit=base_x_config", "extended", "valid", "route"))
	}
	// B: path shapes x verbs
	{
		shapes := []string{"/x", "/{a}", "/x/{a}", "/{a}/x", "/{a}/{b}", "/x/{a}/y/{b}", "/x/{a}/{b}/{c}"}
		s := spec.Svc("ShapeService", "/s")
		for i, sh := range shapes {
			for _, verb := range []string{"GET", "PUT", "DELETE", "POST", "PATCH"} {
				in := "ShapeGet"
				if verb == "PUT" || verb == "POST" || verb == "PATCH" {
					in = "ShapePut"
				}
				s.Methods = append(s.Methods, spec.RPC(fmt.Sprintf("Shape%d%s", i, verb), in, "Out", verb, fmt.Sprintf("/v%d%s%s", i, map[bool]string{true: "", false: ""}[true], sh)))
			}
		}
		f := &spec.File{Messages: out1(
			spec.M("ShapeGet", spec.F("a", "string").Q("a_q"), spec.F("b", "string").Q("b_q"), spec.F("c", "string").Q("c_q"), spec.F("q", "string").Q("q")),
			spec.M("ShapePut", spec.F("a", "string"), spec.F("b", "string"), spec.F("c", "string"), spec.F("note", "string"), spec.F("q", "string").Q("q")),
		), Services: []*spec.Service{s}}
		_ = f
	}
	// B (valid form): GET/DELETE need every non-path field bound to query, so each shape gets its own request types
	{
		shapes := [][]string{{"/x"}, {"/{a}", "a"}, {"/x/{a}", "a"}, {"/{a}/x", "a"}, {"/{a}/{b}", "a", "b"}, {"/x/{a}/y/{b}", "a", "b"}, {"/x/{a}/{b}/{c}", "a", "b", "c"}}
		s := spec.Svc("ShapeService", "/s")
		var msgs []*spec.Message
		for i, sh := range shapes {
			get := spec.M(fmt.Sprintf("Get%d", i), spec.F("q", "string").Q("q"))
			put := spec.M(fmt.Sprintf("Put%d", i), spec.F("note", "string"), spec.F("q", "string").Q("q"))
			for _, v := range sh[1:] {
				get.Fields = append(get.Fields, spec.F(v, "string"))
				put.Fields = append(put.Fields, spec.F(v, "string"))
			}
			msgs = append(msgs, get, put)
			for _, verb := range []string{"GET", "DELETE", "PUT", "POST", "PATCH"} {
				in := get.Name
				if verb == "PUT" || verb == "POST" || verb == "PATCH" {
					in = put.Name
				}
				s.Methods = append(s.Methods, spec.RPC(fmt.Sprintf("Shape%d%s", i, verb[:1]+lower(verb[1:])), in, "Out", verb, fmt.Sprintf("/v%d%s", i, sh[0])))
			}
		}
		f := &spec.File{Messages: out1(msgs...), Services: []*spec.Service{s}}
		out = append(out, withCell(spec.One("route_shapes", f), "route/unit=path_shapes_x_verbs", "extended", "valid", "route"))
	}
	// C: method-name shapes on default routes, with and without base path
	{
		names := []string{"Get", "GetItem", "GetHTTPInfo", "Get2Items", "ListV2Users"}
		var a, b []*spec.Method
		for _, n := range names {
			a = append(a, spec.RPCDefault("A"+n, "NameReq", "Out"))
			b = append(b, spec.RPCDefault("B"+n, "NameReq", "Out"))
		}
		f := &spec.File{Messages: out1(spec.M("NameReq", spec.F("name", "string"))),
			Services: []*spec.Service{spec.SvcNoBase("NoBaseService", a...), spec.Svc("WithBaseService", "/base", b...)}}
		out = append(out, withCell(spec.One("route_names", f), "route/unit=method_name_shapes", "extended", "valid", "route"))
	}
	// D: query placement on body verbs, renamed and required parameters
	{
		f := &spec.File{Messages: out1(
			spec.M("MixReq", spec.F("id", "string"), spec.F("page", "int32").Q("p"), spec.F("must", "string").QReq("must"), spec.F("plain", "string").Q(""), spec.F("body_field", "string"),
				spec.F("tags", "string").Rep().Q("tag"), spec.F("nums", "int32").Rep().Q("n")),
			spec.M("MixTags", spec.F("id", "string"), spec.F("tags", "string").Rep().Q("tag"), spec.F("nums", "int32").Rep().Q("n"), spec.F("page", "int32").Q("p"), spec.F("note", "string")),
			spec.M("MixGet", spec.F("id", "string"), spec.F("page", "int32").Q("p"), spec.F("must", "string").QReq("must"), spec.F("plain", "string").Q("")),
		), Services: []*spec.Service{spec.Svc("MixService", "/mix",
			spec.RPC("MixPost", "MixReq", "Out", "POST", "/items/{id}"),
			spec.RPC("MixTagsPost", "MixTags", "Out", "POST", "/tags/{id}"),
			spec.RPC("MixTagsPut", "MixTags", "Out", "PUT", "/tags/{id}"),
			spec.RPC("MixPatch", "MixReq", "Out", "PATCH", "/items/{id}"),
			spec.RPC("MixGet", "MixGet", "Out", "GET", "/items/{id}"),
			spec.RPC("MixDelete", "MixGet", "Out", "DELETE", "/items/{id}"),
		)}}
		out = append(out, withCell(spec.One("route_mix", f), "route/unit=query_on_body_verbs", "extended", "valid", "route"))
	}
	// E: methods mounted at the service root ("/") with several verbs on the same path
	{
		f := &spec.File{Messages: out1(
			spec.M("RootList", spec.F("q", "string").Q("q")),
			spec.M("RootCreate", spec.F("name", "string"), spec.F("count", "int32")),
			spec.M("RootPurge", spec.F("force", "bool").Q("force")),
			spec.M("RootItem", spec.F("id", "string")),
		), Services: []*spec.Service{
			spec.Svc("RootService", "/api/v1/notes",
				spec.RPC("ListNotes", "RootList", "Out", "GET", "/"),
				spec.RPC("CreateNote", "RootCreate", "Out", "POST", "/"),
				spec.RPC("PurgeNotes", "RootPurge", "Out", "DELETE", "/"),
				spec.RPC("ReplaceNotes", "RootCreate", "Out", "PUT", "/"),
				spec.RPC("GetNote", "RootItem", "Out", "GET", "/{id}"),
			),
			spec.Svc("SlashRootService", "/api/v2/notes/",
				spec.RPC("ListNotes2", "RootList", "Out", "GET", "/"),
				spec.RPC("CreateNote2", "RootCreate", "Out", "POST", "/"),
			),
		}}
		out = append(out, withCell(spec.One("route_root", f), "route/unit=root_mounted_methods", "extended", "valid", "route"))
	}
	// F: method paths with a trailing slash under a base path; G: DELETE with query parameters only
	{
		f := &spec.File{Messages: out1(
			spec.M("TList", spec.F("q", "string").Q("q")),
			spec.M("TCreate", spec.F("name", "string")),
			spec.M("TChild", spec.F("parent_id", "string"), spec.F("q", "string").Q("q")),
		), Services: []*spec.Service{
			spec.Svc("TrailService", "/api/v1",
				spec.RPC("ListItems", "TList", "Out", "GET", "/items/"),
				spec.RPC("CreateItem", "TCreate", "Out", "POST", "/items/"),
				spec.RPC("ListChildren", "TChild", "Out", "GET", "/items/{parent_id}/children/"),
				spec.RPC("PlainItems", "TList", "Out", "GET", "/plain"),
			),
			spec.Svc("TrailTagService", "/api/v2/", spec.RPC("ListTags", "TList", "Out", "GET", "tags/")),
			spec.SvcNoBase("TrailNoBaseService", spec.RPC("ListBare", "TList", "Out", "GET", "/bare/")),
		}}
		out = append(out, withCell(spec.One("route_trailing", f), "route/unit=trailing_slash_paths", "extended", "valid", "route"))
	}
	{
		f := &spec.File{Messages: out1(
			spec.M("SessReq", spec.F("user", "string")),
			spec.M("SessDel", spec.F("all_devices", "bool").Q("all_devices"), spec.F("reason", "string").Q("reason")),
		), Services: []*spec.Service{spec.Svc("SessionService", "/api/v1",
			spec.RPC("CreateSession", "SessReq", "Out", "POST", "/sessions"),
			spec.RPC("DeleteSessions", "SessDel", "Out", "DELETE", "/sessions"),
		)}}
		out = append(out, withCell(spec.One("route_delete_query", f), "route/unit=delete_with_query_only", "extended", "valid", "route"))
	}
	// I: body verbs whose request fields are all bound to the URL (action-style RPCs), and body verbs with an empty request
	{
		f := &spec.File{Messages: out1(
			spec.M("JobRef", spec.F("job_id", "string")),
			spec.M("JobRetry", spec.F("job_id", "string"), spec.F("force", "bool").Q("force")),
			spec.M("JobNote", spec.F("job_id", "string"), spec.F("note", "string")),
			spec.M("Nothing"),
		), Services: []*spec.Service{spec.Svc("JobService", "/api/v1",
			spec.RPC("CancelJob", "JobRef", "Out", "POST", "/jobs/{job_id}/cancel"),
			spec.RPC("RetryJob", "JobRetry", "Out", "PUT", "/jobs/{job_id}/retry"),
			spec.RPC("TouchJob", "JobRef", "Out", "PATCH", "/jobs/{job_id}"),
			spec.RPC("AnnotateJob", "JobNote", "Out", "POST", "/jobs/{job_id}/note"),
			spec.RPC("PingJobs", "Nothing", "Out", "POST", "/jobs/ping"),
			spec.RPC("GetJob", "JobRef", "Out", "GET", "/jobs/{job_id}"),
			spec.RPC("DropJob", "JobRef", "Out", "DELETE", "/jobs/{job_id}"),
		)}}
		out = append(out, withCell(spec.One("route_url_bound_body_verbs", f), "route/unit=url_bound_body_verbs", "extended", "valid", "route"))
	}
	// J: the same RPC names in several services of one file, each with its own verb, path, variables and query fields
	// (anything a generator remembers per method must be keyed by the full name)
	{
		f := &spec.File{Messages: out1(
			spec.M("UserRef", spec.F("id", "string")), spec.M("UserList", spec.F("page", "int32").Q("page")), spec.M("UserNew", spec.F("name", "string")),
			spec.M("OrderRef", spec.F("order_id", "string")), spec.M("OrderSearch", spec.F("status", "string").Q("status"), spec.F("limit", "int32").Q("limit"), spec.F("note", "string")),
			spec.M("OrderPut", spec.F("order_id", "string"), spec.F("note", "string")),
			spec.M("AuditRef", spec.F("trail", "string"), spec.F("seq", "int64")), spec.M("AuditNew", spec.F("trail", "string"), spec.F("text", "string")),
		), Services: []*spec.Service{
			spec.Svc("UserService", "/api/v1",
				spec.RPC("Get", "UserRef", "Out", "GET", "/users/{id}"), spec.RPC("List", "UserList", "Out", "GET", "/users"), spec.RPC("Create", "UserNew", "Out", "POST", "/users")),
			spec.Svc("OrderService", "/api/v1",
				spec.RPC("Get", "OrderRef", "Out", "GET", "/orders/{order_id}"), spec.RPC("List", "OrderSearch", "Out", "POST", "/orders/search"), spec.RPC("Create", "OrderPut", "Out", "PUT", "/orders/{order_id}")),
			spec.Svc("AuditService", "/audit",
				spec.RPC("Get", "AuditRef", "Out", "DELETE", "/{trail}/{seq}"), spec.RPC("Create", "AuditNew", "Out", "PATCH", "/{trail}")),
		}}
		out = append(out, withCell(spec.One("route_same_rpc_names", f), "route/unit=same_rpc_names_across_services", "extended", "valid", "route"))
	}
	// H: files whose only URL-related feature is a query-annotated field on a body verb (one file per verb)
	for _, verb := range []string{"POST", "PATCH", "PUT"} {
		f := &spec.File{Messages: out1(spec.M("SearchReq", spec.F("q", "string").Q("q"), spec.F("limit", "int32").Q("limit"), spec.F("note", "string"))),
			Services: []*spec.Service{spec.Svc("SearchService", "/api/v1", spec.RPC("Search", "SearchReq", "Out", verb, "/search"))}}
		out = append(out, withCell(spec.One("route_bodyverb_query_"+lower(verb), f), "route/unit=body_verb_query_only,verb="+verb, "extended", "valid", "route"))
	}
	{
		// K: a file whose only URL-bound fields are query-annotated fields of RPCs WITHOUT an http option (default routes): the
		// annotation is honoured there by both servers and both clients
		f := &spec.File{Messages: out1(spec.M("SearchReq", spec.F("q", "string").QReq("q"), spec.F("limit", "int32").Q("limit"), spec.F("note", "string")),
			spec.M("CountReq", spec.F("since", "int64").Q("since"), spec.F("exact", "bool").Q(""), spec.F("note", "string"))),
			Services: []*spec.Service{spec.Svc("UnconfService", "/uq", spec.RPCDefault("UnconfSearch", "SearchReq", "Out"), spec.RPCDefault("UnconfCount", "CountReq", "Out"))}}
		out = append(out, withCell(spec.One("route_query_default", f), "route/unit=query_on_default_routes", "extended", "valid", "route"))
	}
	{
		// L: literal path segments spelled like a path variable of the same template, before and after the variable, in the base
		// path and in the method path - each variable is the segment that holds its placeholder
		f := &spec.File{Messages: out1(spec.M("OrgRepo", spec.F("org", "string"), spec.F("repo", "string"), spec.F("note", "string").Q("")),
			spec.M("ProjectRef", spec.F("project", "string"), spec.F("note", "string")),
			spec.M("IdRef", spec.F("id", "string"), spec.F("note", "string"))),
			Services: []*spec.Service{
				spec.Svc("OrgService", "/api/v1", spec.RPC("GetRepo", "OrgRepo", "Out", "GET", "/org/{org}/repo/{repo}"), spec.RPC("PutId", "IdRef", "Out", "PUT", "/{id}/id"),
					spec.RPC("PostIdTwice", "IdRef", "Out", "POST", "/id/{id}/id")),
				spec.Svc("ProjectService", "/project", spec.RPC("Build", "ProjectRef", "Out", "POST", "/{project}/builds"))}}
		out = append(out, withCell(spec.One("route_literal_like_variable", f), "route/unit=literal_named_like_variable", "extended", "valid", "route"))
	}
	{
		// M: one request message shared by several RPCs of a service whose templates use DIFFERENT sets of its fields as path
		// variables (and none): what is derived per operation from the template must not be remembered per message
		f := &spec.File{Messages: out1(spec.M("ItemRef", spec.F("id", "string"), spec.F("shop_id", "string"), spec.F("name", "string"))),
			Services: []*spec.Service{spec.Svc("CatalogService", "/api/v1",
				spec.RPC("RenameItem", "ItemRef", "Out", "PUT", "/items/{id}"),
				spec.RPC("RenameShopItem", "ItemRef", "Out", "PUT", "/shops/{shop_id}/items/{id}"),
				spec.RPC("TouchItem", "ItemRef", "Out", "POST", "/touch"),
				spec.RPC("PatchShop", "ItemRef", "Out", "PATCH", "/shops/{shop_id}"))}}
		out = append(out, withCell(spec.One("route_shared_request", f), "route/unit=shared_request_message", "extended", "valid", "route"))
	}
	{
		// N: templates of the same segment shape whose variables have different names, on different verbs of one service (each
		// request message names its own key field): every RPC keeps its own template
		f := &spec.File{Messages: out1(spec.M("ItemKey", spec.F("id", "string")), spec.M("ItemDel", spec.F("item_id", "string")),
			spec.M("ItemPut", spec.F("key", "string"), spec.F("name", "string")), spec.M("PairKey", spec.F("a", "string"), spec.F("b", "string")), spec.M("PairDel", spec.F("x", "string"), spec.F("y", "string"))),
			Services: []*spec.Service{spec.Svc("ShapeService", "/api/v1",
				spec.RPC("GetItem", "ItemKey", "Out", "GET", "/items/{id}"),
				spec.RPC("DeleteItem", "ItemDel", "Out", "DELETE", "/items/{item_id}"),
				spec.RPC("PutItem", "ItemPut", "Out", "PUT", "/items/{key}"),
				spec.RPC("GetPair", "PairKey", "Out", "GET", "/pairs/{a}/with/{b}"),
				spec.RPC("DeletePair", "PairDel", "Out", "DELETE", "/pairs/{x}/with/{y}"))}}
		out = append(out, withCell(spec.One("route_same_shape_names", f), "route/unit=same_shape_different_variable_names", "extended", "valid", "route"))
	}
	return out
}

func lower(s string) string {
	b := []byte(s)
	for i, c := range b {
		if c >= 'A' && c <= 'Z' {
			b[i] = c + 32
		}
	}
	return string(b)
}
