package univ

import (
	"strings"

	"verif/mc/spec"
)

// EchoService builds a service with one POST route per message: the RPC takes and returns the message.
func EchoService(name string, msgs ...string) *spec.Service {
	s := spec.Svc(name, "/echo")
	for _, m := range msgs {
		id := strings.ReplaceAll(m, ".", "_")
		s.Methods = append(s.Methods, spec.RPC("Echo"+id, m, m, "POST", "/"+strings.ToLower(id)))
	}
	return s
}

func withCell(s *spec.Spec, cell string, tags ...string) *spec.Spec {
	s.Cell = cell
	s.Tags = append(s.Tags, tags...)
	return s
}

var apiKey = &spec.Header{Name: "X-API-Key", Description: "API key for authentication", Type: "string", Required: true, Format: "uuid"}
var requestID = &spec.Header{Name: "X-Request-ID", Type: "string", Format: "uuid", Required: true}

// CoreRest mirrors testdata/proto/http_verbs_comprehensive.proto.
func CoreRest() *spec.Spec {
	status := spec.E("ResourceStatus", "RESOURCE_STATUS_UNSPECIFIED", "RESOURCE_STATUS_ACTIVE", "RESOURCE_STATUS_ARCHIVED")
	resource := spec.M("Resource", spec.F("id", "string"), spec.F("name", "string"), spec.F("description", "string"),
		spec.F("metadata", "string").Map(), spec.En("status", "ResourceStatus"), spec.F("created_at", "int64"), spec.F("updated_at", "int64"))
	f := &spec.File{
		Enums: []*spec.Enum{status},
		Messages: []*spec.Message{
			spec.M("ListResourcesRequest",
				spec.F("page", "int32").Q("page"), spec.F("page_size", "int32").Q("page_size"), spec.F("filter", "string").Q("filter"),
				spec.F("include_deleted", "bool").Q("include_deleted"), spec.F("since_timestamp", "int64").Q("since_timestamp"),
				spec.F("max_id", "uint64").Q("max_id"), spec.F("min_score", "float").Q("min_score"), spec.F("max_score", "double").Q("max_score")),
			spec.M("ListResourcesResponse", spec.Msg("resources", "Resource").Rep(), spec.F("total_count", "int32"), spec.F("page", "int32")),
			spec.M("GetResourceRequest", spec.F("resource_id", "string")),
			spec.M("GetNestedResourceRequest", spec.F("org_id", "string"), spec.F("team_id", "string"), spec.F("resource_id", "string")),
			spec.M("CreateResourceRequest", spec.F("name", "string"), spec.F("description", "string"), spec.F("metadata", "string").Map()),
			spec.M("UpdateResourceRequest", spec.F("resource_id", "string"), spec.F("name", "string"), spec.F("description", "string"), spec.F("metadata", "string").Map()),
			spec.M("PatchResourceRequest", spec.F("resource_id", "string"), spec.F("name", "string"), spec.F("description", "string")),
			spec.M("DeleteResourceRequest", spec.F("resource_id", "string")),
			spec.M("DeleteResourceResponse", spec.F("success", "bool")),
			spec.M("DefaultPostRequest", spec.F("action", "string")),
			spec.M("DefaultPostResponse", spec.F("result", "string")),
			spec.M("SearchResourcesRequest", spec.F("query", "string").Q("q"), spec.F("limit", "int32").Q("limit")),
			resource,
		},
		Services: []*spec.Service{
			spec.Svc("RESTfulAPIService", "/api/v1",
				spec.RPC("ListResources", "ListResourcesRequest", "ListResourcesResponse", "GET", "/resources"),
				spec.RPC("GetResource", "GetResourceRequest", "Resource", "GET", "/resources/{resource_id}"),
				spec.RPC("GetNestedResource", "GetNestedResourceRequest", "Resource", "GET", "/orgs/{org_id}/teams/{team_id}/resources/{resource_id}"),
				spec.RPC("CreateResource", "CreateResourceRequest", "Resource", "POST", "/resources").H(requestID),
				spec.RPC("UpdateResource", "UpdateResourceRequest", "Resource", "PUT", "/resources/{resource_id}"),
				spec.RPC("PatchResource", "PatchResourceRequest", "Resource", "PATCH", "/resources/{resource_id}"),
				spec.RPC("DeleteResource", "DeleteResourceRequest", "DeleteResourceResponse", "DELETE", "/resources/{resource_id}"),
				spec.RPC("DefaultPostMethod", "DefaultPostRequest", "DefaultPostResponse", "", "/legacy/action"),
				spec.RPC("SearchResources", "SearchResourcesRequest", "ListResourcesResponse", "GET", "/resources/search"),
			).H(apiKey),
		},
	}
	return withCell(spec.One("core_rest", f), "core/unit=rest", "core", "valid")
}

// CoreDefaultRoute: a service without any HTTP annotation (backward compatible default routes).
func CoreDefaultRoute() *spec.Spec {
	f := &spec.File{
		Messages: []*spec.Message{spec.M("LegacyRequest", spec.F("data", "string")), spec.M("LegacyResponse", spec.F("result", "string"))},
		Services: []*spec.Service{spec.SvcNoBase("BackwardCompatService", spec.RPCDefault("LegacyAction", "LegacyRequest", "LegacyResponse"))},
	}
	return withCell(spec.One("core_default", f), "core/unit=default_route", "core", "valid")
}

// CoreQuery mirrors testdata/proto/query_params.proto (path + query on GET, query on other verbs).
func CoreQuery() *spec.Spec {
	f := &spec.File{
		Messages: []*spec.Message{
			spec.M("SearchRequest", spec.F("q", "string").QReq("q"), spec.F("page", "int32").Q("page"), spec.F("limit", "int32").Q("limit"),
				spec.F("active", "bool").Q("active"), spec.F("sort_by", "string").Q("sort")),
			spec.M("SearchResponse", spec.F("results", "string").Rep(), spec.F("total", "int32")),
			spec.M("GetItemRequest", spec.F("item_id", "string"), spec.F("include_details", "bool").Q("details"), spec.F("version", "int64").Q("version")),
			spec.M("Item", spec.F("id", "string"), spec.F("name", "string"), spec.F("version", "int64")),
			spec.M("DeleteItemRequest", spec.F("item_id", "string"), spec.F("force", "bool").Q("force")),
			spec.M("DeleteItemResponse", spec.F("deleted", "bool")),
			spec.M("UpdateItemRequest", spec.F("item_id", "string"), spec.F("name", "string"), spec.F("notify", "bool").Q("notify")),
		},
		Services: []*spec.Service{spec.Svc("QueryService", "/api/v1",
			spec.RPC("Search", "SearchRequest", "SearchResponse", "GET", "/search"),
			spec.RPC("GetItem", "GetItemRequest", "Item", "GET", "/items/{item_id}"),
			spec.RPC("DeleteItem", "DeleteItemRequest", "DeleteItemResponse", "DELETE", "/items/{item_id}"),
			spec.RPC("UpdateItem", "UpdateItemRequest", "Item", "PUT", "/items/{item_id}"),
		)},
	}
	return withCell(spec.One("core_query", f), "core/unit=query", "core", "valid")
}

// CorePathKinds: path variables of the scalar kinds the documentation lists.
func CorePathKinds() *spec.Spec {
	f := &spec.File{
		Messages: []*spec.Message{
			spec.M("Out", spec.F("ok", "bool")),
			spec.M("ByInt32", spec.F("id", "int32")), spec.M("ByInt64", spec.F("id", "int64")),
			spec.M("ByUint32", spec.F("id", "uint32")), spec.M("ByUint64", spec.F("id", "uint64")),
			spec.M("ByBool", spec.F("flag", "bool")), spec.M("ByDouble", spec.F("x", "double")), spec.M("ByFloat", spec.F("x", "float")),
			spec.M("ByTwo", spec.F("org_id", "string"), spec.F("num", "int32"), spec.F("note", "string")),
		},
		Services: []*spec.Service{spec.Svc("PathKindService", "/pk",
			spec.RPC("GetInt32", "ByInt32", "Out", "GET", "/i32/{id}"),
			spec.RPC("GetInt64", "ByInt64", "Out", "GET", "/i64/{id}"),
			spec.RPC("GetUint32", "ByUint32", "Out", "GET", "/u32/{id}"),
			spec.RPC("GetUint64", "ByUint64", "Out", "GET", "/u64/{id}"),
			spec.RPC("GetBool", "ByBool", "Out", "GET", "/b/{flag}"),
			spec.RPC("GetDouble", "ByDouble", "Out", "GET", "/d/{x}"),
			spec.RPC("GetFloat", "ByFloat", "Out", "GET", "/f/{x}"),
			spec.RPC("PutTwo", "ByTwo", "Out", "PUT", "/two/{org_id}/n/{num}"),
			spec.RPC("PostTwo", "ByTwo", "Out", "POST", "/two/{org_id}/n/{num}"),
			spec.RPC("PatchTwo", "ByTwo", "Out", "PATCH", "/two/{org_id}/n/{num}"),
		)},
	}
	return withCell(spec.One("core_pathkinds", f), "core/unit=path_kinds", "core", "valid")
}

func CoreInt64() *spec.Spec {
	f := &spec.File{
		Messages: []*spec.Message{
			spec.M("Int64EncodingTest",
				spec.F("default_int64", "int64"), spec.F("string_int64", "int64").I64(spec.EncString), spec.F("number_int64", "int64").I64(spec.EncNumber),
				spec.F("number_uint64", "uint64").I64(spec.EncNumber), spec.F("number_sint64", "sint64").I64(spec.EncNumber),
				spec.F("number_fixed64", "fixed64").I64(spec.EncNumber), spec.F("number_sfixed64", "sfixed64").I64(spec.EncNumber),
				spec.F("repeated_number", "int64").Rep().I64(spec.EncNumber), spec.F("repeated_default", "int64").Rep(), spec.F("name", "string")),
		},
		Services: []*spec.Service{EchoService("Int64Service", "Int64EncodingTest")},
	}
	return withCell(spec.One("core_int64", f), "core/unit=int64_encoding", "core", "valid", "codec")
}

func CoreEnum() *spec.Spec {
	status := &spec.Enum{Name: "Status", Values: []*spec.EnumValue{
		{Name: "STATUS_UNSPECIFIED", Num: 0, Custom: spec.Str("unknown")}, {Name: "STATUS_ACTIVE", Num: 1, Custom: spec.Str("active")},
		{Name: "STATUS_INACTIVE", Num: 2, Custom: spec.Str("inactive")}}}
	prio := spec.E("Priority", "PRIORITY_LOW", "PRIORITY_MEDIUM", "PRIORITY_HIGH")
	partial := &spec.Enum{Name: "Partial", Values: []*spec.EnumValue{
		{Name: "PARTIAL_UNSPECIFIED", Num: 0}, {Name: "PARTIAL_A", Num: 1, Custom: spec.Str("a")}, {Name: "PARTIAL_B", Num: 2}}}
	f := &spec.File{
		Enums: []*spec.Enum{status, prio, partial},
		Messages: []*spec.Message{
			spec.M("EnumEncodingTest", spec.En("status", "Status"), spec.En("priority", "Priority"),
				spec.En("priority_number", "Priority").EEnc(spec.EncNumber), spec.En("priority_string", "Priority").EEnc(spec.EncString),
				spec.En("statuses", "Status").Rep(), spec.En("partial", "Partial"), spec.F("name", "string")),
		},
		Services: []*spec.Service{EchoService("EnumService", "EnumEncodingTest")},
	}
	return withCell(spec.One("core_enum", f), "core/unit=enum_encoding", "core", "valid", "codec")
}

func CoreNullable() *spec.Spec {
	f := &spec.File{
		Messages: []*spec.Message{
			spec.M("User", spec.F("id", "string"), spec.F("middle_name", "string").Opt().Null(), spec.F("nickname", "string").Opt(),
				spec.F("age", "int32").Opt().Null(), spec.F("is_verified", "bool").Opt().Null(), spec.F("score", "double").Opt().Null(),
				spec.F("big", "int64").Opt().Null()),
		},
		Services: []*spec.Service{EchoService("NullableService", "User")},
	}
	return withCell(spec.One("core_nullable", f), "core/unit=nullable", "core", "valid", "codec")
}

func CoreEmpty() *spec.Spec {
	f := &spec.File{
		Messages: []*spec.Message{
			spec.M("Metadata", spec.F("key", "string"), spec.F("value", "string")),
			spec.M("Settings", spec.F("enabled", "bool"), spec.F("timeout", "int32")),
			spec.M("Response", spec.F("id", "string"),
				spec.Msg("metadata_preserve", "Metadata").Empty(spec.EmptyPreserve), spec.Msg("metadata_null", "Metadata").Empty(spec.EmptyNull),
				spec.Msg("metadata_omit", "Metadata").Empty(spec.EmptyOmit), spec.Msg("metadata_default", "Metadata"),
				spec.Msg("settings", "Settings").Empty(spec.EmptyNull)),
		},
		Services: []*spec.Service{EchoService("EmptyBehaviorService", "Response")},
	}
	return withCell(spec.One("core_empty", f), "core/unit=empty_behavior", "core", "valid", "codec")
}

func CoreTimestamp() *spec.Spec {
	f := &spec.File{
		Messages: []*spec.Message{
			spec.M("TimestampFormatTest", spec.Ts("default_ts"), spec.Ts("rfc3339_ts").TsF(spec.TsRFC3339), spec.Ts("unix_seconds_ts").TsF(spec.TsUnixSec),
				spec.Ts("unix_millis_ts").TsF(spec.TsUnixMs), spec.Ts("date_ts").TsF(spec.TsDate), spec.F("name", "string")),
		},
		Services: []*spec.Service{EchoService("TimestampService", "TimestampFormatTest")},
	}
	return withCell(spec.One("core_ts", f), "core/unit=timestamp_format", "core", "valid", "codec")
}

func CoreBytes() *spec.Spec {
	f := &spec.File{
		Messages: []*spec.Message{
			spec.M("BytesEncodingTest", spec.F("default_data", "bytes"), spec.F("base64_data", "bytes").BEnc(spec.BytesB64),
				spec.F("base64_raw_data", "bytes").BEnc(spec.BytesB64Raw), spec.F("base64url_data", "bytes").BEnc(spec.BytesB64URL),
				spec.F("base64url_raw_data", "bytes").BEnc(spec.BytesB64URLRaw), spec.F("hex_data", "bytes").BEnc(spec.BytesHex), spec.F("name", "string")),
		},
		Services: []*spec.Service{EchoService("BytesService", "BytesEncodingTest")},
	}
	return withCell(spec.One("core_bytes", f), "core/unit=bytes_encoding", "core", "valid", "codec")
}

func CoreFlatten() *spec.Spec {
	f := &spec.File{
		Messages: []*spec.Message{
			spec.M("Address", spec.F("street", "string"), spec.F("city", "string"), spec.F("zip", "string")),
			spec.M("ContactInfo", spec.F("email", "string"), spec.F("phone", "string")),
			spec.M("SimpleFlatten", spec.F("id", "string"), spec.Msg("address", "Address").Flat()),
			spec.M("DualFlatten", spec.F("id", "string"), spec.Msg("billing", "Address").FlatP("billing_"), spec.Msg("shipping", "Address").FlatP("shipping_")),
			spec.M("MixedFlatten", spec.F("id", "string"), spec.Msg("address", "Address").Flat(), spec.Msg("contact", "ContactInfo"), spec.F("notes", "string")),
			spec.M("PlainNested", spec.F("id", "string"), spec.Msg("address", "Address")),
		},
		Services: []*spec.Service{EchoService("FlattenService", "SimpleFlatten", "DualFlatten", "MixedFlatten", "PlainNested")},
	}
	return withCell(spec.One("core_flatten", f), "core/unit=flatten", "core", "valid", "codec")
}

func CoreOneof() *spec.Spec {
	f := &spec.File{
		Messages: []*spec.Message{
			spec.M("TextContent", spec.F("body", "string")),
			spec.M("ImageContent", spec.F("url", "string"), spec.F("width", "int32"), spec.F("height", "int32")),
			spec.M("VideoContent", spec.F("url", "string"), spec.F("duration", "int32")),
			spec.M("FlattenedEvent", spec.F("id", "string"), spec.Msg("text", "TextContent").In("content"), spec.Msg("image", "ImageContent").In("content").OV("img")).
				WithOneof(&spec.Oneof{Name: "content", Config: true, Disc: "type", Flatten: true}),
			spec.M("NestedEvent", spec.F("id", "string"), spec.Msg("text", "TextContent").In("content"), spec.Msg("image", "ImageContent").In("content"),
				spec.Msg("video", "VideoContent").In("content").OV("vid")).
				WithOneof(&spec.Oneof{Name: "content", Config: true, Disc: "kind"}),
			spec.M("PlainEvent", spec.F("id", "string"), spec.Msg("text", "TextContent").In("content"), spec.Msg("image", "ImageContent").In("content")).
				WithOneof(&spec.Oneof{Name: "content"}),
		},
		Services: []*spec.Service{EchoService("OneofDiscriminatorService", "FlattenedEvent", "NestedEvent", "PlainEvent")},
	}
	return withCell(spec.One("core_oneof", f), "core/unit=oneof_discriminator", "core", "valid", "codec")
}

func CoreUnwrap() *spec.Spec {
	f := &spec.File{
		Messages: []*spec.Message{
			spec.M("OptionBar", spec.F("symbol", "string"), spec.F("price", "double"), spec.F("volume", "int64"), spec.F("timestamp", "string")),
			spec.M("OptionBarsList", spec.Msg("bars", "OptionBar").Rep().Unw()),
			spec.M("GetOptionBarsResponse", spec.Msg("bars", "OptionBarsList").Map(), spec.F("next_page_token", "string")),
			spec.M("GetOptionBarsRequest", spec.F("symbols", "string").Rep(), spec.F("start_date", "string"), spec.F("end_date", "string")),
			spec.M("IntList", spec.F("values", "int32").Rep().Unw()),
			spec.M("ScalarMapResponse", spec.Msg("data", "IntList").Map()),
			spec.M("RegularWrapper", spec.Msg("items", "OptionBar").Rep()),
			spec.M("MixedResponse", spec.Msg("unwrapped_bars", "OptionBarsList").Map(), spec.Msg("regular_bars", "RegularWrapper").Map(), spec.F("status", "string")),
			spec.M("RootMapResponse", spec.Msg("people", "OptionBar").Map().Unw()),
			spec.M("RootRepeatedResponse", spec.Msg("items", "OptionBar").Rep().Unw()),
			spec.M("RootMapWithValueUnwrapResponse", spec.Msg("data", "OptionBarsList").Map().Unw()),
			spec.M("ScalarRootMapResponse", spec.F("counts", "int32").Map().Unw()),
			spec.M("ScalarRootRepeatedResponse", spec.F("names", "string").Rep().Unw()),
			spec.M("RootMapScalarListResponse", spec.Msg("groups", "IntList").Map().Unw()),
		},
		Services: []*spec.Service{EchoService("UnwrapService", "GetOptionBarsResponse", "ScalarMapResponse", "MixedResponse", "RootMapResponse",
			"RootRepeatedResponse", "RootMapWithValueUnwrapResponse", "ScalarRootMapResponse", "ScalarRootRepeatedResponse", "RootMapScalarListResponse", "OptionBarsList", "IntList")},
	}
	return withCell(spec.One("core_unwrap", f), "core/unit=unwrap", "core", "valid", "codec")
}

// CoreRules: buf.validate rules as used in the documentation (string length / email / uuid, int ranges).
func CoreRules() *spec.Spec {
	f := &spec.File{
		Messages: []*spec.Message{
			spec.M("Address", spec.F("city", "string").R(`string:{min_len:1}`), spec.F("zip", "string").R(`string:{pattern:"^[0-9]{5}$"}`)),
			spec.M("CreateUserRequest",
				spec.F("name", "string").R(`string:{min_len:2 max_len:10}`),
				spec.F("email", "string").R(`string:{email:true}`),
				spec.F("age", "int32").R(`int32:{gte:18 lte:120}`),
				spec.F("id", "string").R(`string:{uuid:true}`),
				spec.Msg("address", "Address"),
				spec.Msg("previous", "Address").Rep(),
				spec.Msg("by_label", "Address").Map(),
				spec.F("tags", "string").Rep().R(`repeated:{min_items:0 max_items:3 items:{string:{min_len:1}}}`),
				spec.F("role", "string").R(`string:{in:["admin","user"]}`),
			),
			spec.M("User", spec.F("id", "string"), spec.F("name", "string")),
		},
		Services: []*spec.Service{spec.Svc("UserService", "/api/v1", spec.RPC("CreateUser", "CreateUserRequest", "User", "POST", "/users"))},
	}
	return withCell(spec.One("core_rules", f), "core/unit=rules", "core", "valid")
}

// CoreMulti: several services in one file, sharing messages, with different headers.
func CoreMulti() *spec.Spec {
	f := &spec.File{
		Messages: []*spec.Message{
			spec.M("PingRequest", spec.F("id", "string"), spec.F("n", "int32").Q("n")),
			spec.M("PingResponse", spec.F("id", "string"), spec.F("n", "int32")),
			spec.M("PutRequest", spec.F("id", "string"), spec.F("payload", "string").R(`string:{min_len:1}`)),
		},
		Services: []*spec.Service{
			spec.Svc("AlphaService", "/alpha",
				spec.RPC("Ping", "PingRequest", "PingResponse", "GET", "/ping/{id}"),
				spec.RPC("Put", "PutRequest", "PingResponse", "PUT", "/put/{id}").H(&spec.Header{Name: "X-Trace", Type: "integer", Required: true}),
			).H(&spec.Header{Name: "X-Tenant", Type: "string", Required: true}),
			spec.Svc("BetaService", "/beta",
				spec.RPC("BetaPing", "PingRequest", "PingResponse", "GET", "/ping/{id}").H(&spec.Header{Name: "X-Beta", Type: "integer", Required: true}),
				spec.RPC("BetaPut", "PutRequest", "PingResponse", "POST", "/put"),
			),
		},
	}
	return withCell(spec.One("core_multi", f), "core/unit=multi_service", "core", "valid")
}

// CoreErr: custom error messages (names ending in Error get an Error() method).
func CoreErr() *spec.Spec {
	f := &spec.File{
		Messages: []*spec.Message{
			spec.M("GetRequest", spec.F("id", "string")),
			spec.M("GetResponse", spec.F("id", "string")),
			spec.M("NotFoundError", spec.F("resource_type", "string"), spec.F("resource_id", "string"), spec.F("code", "int32"), spec.F("big", "int64"),
				spec.F("details", "string").Rep(), spec.Msg("cause", "Cause")),
			spec.M("Cause", spec.F("reason", "string")),
		},
		Services: []*spec.Service{spec.Svc("ErrService", "/err", spec.RPC("Get", "GetRequest", "GetResponse", "POST", "/get"))},
	}
	return withCell(spec.One("core_err", f), "core/unit=custom_error", "core", "valid")
}

// CoreHeaders: header types and formats on service and method level, with an override.
func CoreHeaders() *spec.Spec {
	f := &spec.File{
		Messages: []*spec.Message{spec.M("Req", spec.F("name", "string")), spec.M("Resp", spec.F("name", "string"))},
		Services: []*spec.Service{
			spec.Svc("HeaderService", "/h",
				spec.RPC("Plain", "Req", "Resp", "POST", "/plain"),
				spec.RPC("Typed", "Req", "Resp", "POST", "/typed").H(
					&spec.Header{Name: "X-Count", Type: "integer", Required: true},
					&spec.Header{Name: "X-Ratio", Type: "number", Required: true},
					&spec.Header{Name: "X-Flag", Type: "boolean", Required: true},
					&spec.Header{Name: "X-List", Type: "array", Required: true}),
				spec.RPC("Formats", "Req", "Resp", "POST", "/formats").H(
					&spec.Header{Name: "X-Mail", Type: "string", Format: "email", Required: true},
					&spec.Header{Name: "X-When", Type: "string", Format: "date-time", Required: true},
					&spec.Header{Name: "X-Day", Type: "string", Format: "date", Required: true},
					&spec.Header{Name: "X-Time", Type: "string", Format: "time", Required: true}),
				spec.RPC("Optional", "Req", "Resp", "POST", "/optional").H(&spec.Header{Name: "X-Opt", Type: "integer", Required: false}),
			).H(apiKey),
		},
	}
	return withCell(spec.One("core_headers", f), "core/unit=headers", "core", "valid")
}

// CoreHdrOverride: a method-level header replacing the service-level header of the same name.
func CoreHdrOverride() *spec.Spec {
	f := &spec.File{
		Messages: []*spec.Message{spec.M("Req", spec.F("name", "string")), spec.M("Resp", spec.F("name", "string"))},
		Services: []*spec.Service{
			spec.Svc("OverrideService", "/o",
				spec.RPC("Plain", "Req", "Resp", "POST", "/plain"),
				spec.RPC("Override", "Req", "Resp", "POST", "/override").H(&spec.Header{Name: "X-API-Key", Type: "integer", Required: true}),
			).H(apiKey),
		},
	}
	return withCell(spec.One("core_hdr_override", f), "core/unit=hdr_override", "core", "valid")
}

// CoreSpecs returns the specs mirroring the feature combinations used in sebuf's own documentation
// and testdata protos.
func CoreSpecs() []*spec.Spec {
	return []*spec.Spec{CoreRest(), CoreDefaultRoute(), CoreQuery(), CorePathKinds(), CoreInt64(), CoreEnum(), CoreNullable(), CoreEmpty(),
		CoreTimestamp(), CoreBytes(), CoreFlatten(), CoreOneof(), CoreUnwrap(), CoreRules(), CoreMulti(), CoreErr(), CoreHeaders(), CoreHdrOverride()}
}
