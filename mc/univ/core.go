package univ

import "verif/mc/spec"

// CoreSpecs returns the specs mirroring the feature combinations used in sebuf's own documentation
// and testdata protos.
func CoreSpecs() []*spec.Spec {
	return nil
}
