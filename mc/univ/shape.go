// Package univ builds the bounded schema universes (families of Specs) that the checks enumerate.
package univ

import (
	"fmt"
	"strings"

	"verif/mc/spec"
)

// EdgeKinds are the reference kinds between messages in F-shape.
var EdgeKinds = []string{"none", "singular", "repeated", "map", "oneof", "flatten", "pflatten"}

// ShapeGraphs enumerates every reference graph over n messages (self references included) with at most
// maxEdges edges (maxEdges<0: all), each edge being one of the 4 non-"none" kinds. Every spec has one
// service whose single RPC takes and returns message M0.
func ShapeGraphs(n, maxEdges int) []*spec.Spec { return ShapeGraphsK(n, maxEdges, 5) }

// ShapeGraphsK is ShapeGraphs over the first nKinds edge kinds (5: references only; 7: also flattened references
// without and with prefix).
func ShapeGraphsK(n, maxEdges, nKinds int) []*spec.Spec {
	pairs := n * n
	var out []*spec.Spec
	choice := make([]int, pairs)
	var rec func(i, used int)
	rec = func(i, used int) {
		if i == pairs {
			out = append(out, shapeSpec(n, choice))
			return
		}
		choice[i] = 0
		rec(i+1, used)
		if maxEdges < 0 || used < maxEdges {
			for k := 1; k < nKinds; k++ {
				choice[i] = k
				rec(i+1, used+1)
			}
			choice[i] = 0
		}
	}
	rec(0, 0)
	return out
}

func shapeSpec(n int, choice []int) *spec.Spec {
	var key []string
	msgs := make([]*spec.Message, n)
	for i := 0; i < n; i++ {
		msgs[i] = spec.M(fmt.Sprintf("M%d", i), spec.F(fmt.Sprintf("label%d", i), "string"))
	}
	for i := 0; i < n; i++ {
		for j := 0; j < n; j++ {
			k := choice[i*n+j]
			if k == 0 {
				continue
			}
			key = append(key, fmt.Sprintf("%d%s%d", i, EdgeKinds[k][:1], j))
			fname := fmt.Sprintf("to_m%d", j)
			tgt := fmt.Sprintf("M%d", j)
			switch EdgeKinds[k] {
			case "singular":
				msgs[i].Fields = append(msgs[i].Fields, spec.Msg(fname, tgt))
			case "repeated":
				msgs[i].Fields = append(msgs[i].Fields, spec.Msg(fname, tgt).Rep())
			case "map":
				msgs[i].Fields = append(msgs[i].Fields, spec.Msg(fname, tgt).Map())
			case "flatten":
				msgs[i].Fields = append(msgs[i].Fields, spec.Msg(fname, tgt).Flat())
			case "pflatten":
				msgs[i].Fields = append(msgs[i].Fields, spec.Msg(fname, tgt).FlatP(fname+"_"))
			case "oneof":
				on := fmt.Sprintf("choice%d", j)
				msgs[i].Oneofs = append(msgs[i].Oneofs, &spec.Oneof{Name: on})
				msgs[i].Fields = append(msgs[i].Fields, spec.Msg(fname, tgt).In(on), spec.F(fmt.Sprintf("alt%d", j), "string").In(on))
			}
		}
	}
	edges := strings.Join(key, "+")
	if edges == "" {
		edges = "none"
	}
	name := fmt.Sprintf("shape%d_%s", n, strings.NewReplacer("+", "_").Replace(edges))
	s := spec.One(name, &spec.File{
		Messages: msgs,
		Services: []*spec.Service{spec.SvcNoBase("ShapeService", spec.RPCDefault("Do", "M0", "M0"))},
	})
	s.Cell = fmt.Sprintf("shape/n=%d,edges=%s", n, edges)
	return s
}

// ShapeCliques: n messages each referring to every other one (the number of reference paths is factorial in n), for every kind
// of reference edge: singular, repeated, map value, member of a oneof, and the kinds mixed.
func ShapeCliques() []*spec.Spec {
	var out []*spec.Spec
	for _, edge := range []string{"singular", "repeated", "map", "oneof", "mixed"} {
		for _, n := range []int{2, 4, 6, 8, 10, 12} {
			var msgs []*spec.Message
			for i := 0; i < n; i++ {
				m := spec.M(fmt.Sprintf("M%d", i), spec.F("label", "string"))
				oneof := false
				for j := 0; j < n; j++ {
					if j == i {
						continue
					}
					f := spec.Msg(fmt.Sprintf("to_m%d", j), fmt.Sprintf("M%d", j))
					kind := edge
					if edge == "mixed" {
						kind = []string{"singular", "repeated", "map", "oneof"}[(i+j)%4]
					}
					switch kind {
					case "repeated":
						f.Rep()
					case "map":
						f.Map()
					case "oneof":
						f.In("pick")
						oneof = true
					}
					m.Fields = append(m.Fields, f)
				}
				if oneof {
					// the members of a oneof are declared consecutively
					var plain, members []*spec.Field
					for _, f := range m.Fields {
						if f.Oneof != "" {
							members = append(members, f)
						} else {
							plain = append(plain, f)
						}
					}
					m.Fields = append(plain, members...)
					m.WithOneof(&spec.Oneof{Name: "pick"})
				}
				msgs = append(msgs, m)
			}
			name, cell := fmt.Sprintf("clique%d", n), fmt.Sprintf("shape/clique=%d", n)
			if edge != "singular" {
				name, cell = fmt.Sprintf("clique%d_%s", n, edge), fmt.Sprintf("shape/clique=%d,edge=%s", n, edge)
			}
			s := spec.One(name, &spec.File{Messages: msgs, Services: []*spec.Service{spec.SvcNoBase("ShapeService", spec.RPCDefault("Do", "M0", "M0"))}})
			s.Cell = cell
			out = append(out, s)
		}
	}
	return out
}

// ShapeDegenerate lists degenerate / unusual but well-formed descriptor shapes.
func ShapeDegenerate(thorough bool) []*spec.Spec {
	var out []*spec.Spec
	add := func(cell string, s *spec.Spec) {
		s.Cell = "shape/" + cell
		out = append(out, s)
	}
	simple := func() []*spec.Message {
		return []*spec.Message{spec.M("Req", spec.F("id", "string")), spec.M("Resp", spec.F("name", "string"))}
	}
	svc := func() []*spec.Service {
		return []*spec.Service{spec.SvcNoBase("DegService", spec.RPCDefault("Do", "Req", "Resp"))}
	}
	add("deg=empty_file", spec.One("deg_empty", &spec.File{}))
	add("deg=messages_only", spec.One("deg_msgonly", &spec.File{Messages: simple()}))
	add("deg=service_no_methods", spec.One("deg_nomethods", &spec.File{Messages: simple(), Services: []*spec.Service{spec.SvcNoBase("EmptyService")}}))
	{
		s := spec.One("deg_nopkg", &spec.File{Messages: simple(), Services: svc()})
		s.Files[0].Package = ""
		add("deg=no_package", s)
	}
	{
		s := spec.One("deg_nogopkg", &spec.File{Messages: simple(), Services: svc(), NoGoPkg: true})
		add("deg=no_go_package", s)
	}
	add("deg=shared_request_type", spec.One("deg_shared", &spec.File{Messages: simple(), Services: []*spec.Service{
		spec.SvcNoBase("SharedService", spec.RPCDefault("A", "Req", "Resp"), spec.RPCDefault("B", "Req", "Resp"), spec.RPCDefault("C", "Resp", "Req")),
		spec.SvcNoBase("SecondService", spec.RPCDefault("A", "Req", "Req")),
	}}))
	add("deg=empty_messages", spec.One("deg_emptymsg", &spec.File{Messages: []*spec.Message{spec.M("Req"), spec.M("Resp")}, Services: svc()}))
	{
		long := strings.Repeat("VeryLongName", 20)
		add("deg=long_names", spec.One("deg_long", &spec.File{
			Messages: []*spec.Message{spec.M(long+"Req", spec.F(strings.ToLower(long)+"_field", "string")), spec.M("Resp", spec.F("name", "string"))},
			Services: []*spec.Service{spec.SvcNoBase(long+"Service", spec.RPCDefault(long+"Method", long+"Req", "Resp"))}}))
	}
	{
		all := spec.M("Resp")
		for _, k := range spec.Scalars {
			all.Fields = append(all.Fields, spec.F("f_"+k, k), spec.F("o_"+k, k).Opt(), spec.F("r_"+k, k).Rep(), spec.F("m_"+k, k).Map())
		}
		all.Fields = append(all.Fields, spec.Ts("ts"), spec.Ts("ts_list").Rep(), spec.Ts("ts_map").Map(),
			spec.En("color", "Color"), spec.En("colors", "Color").Rep(), spec.En("color_map", "Color").Map(), spec.En("opt_color", "Color").Opt(),
			spec.En("inner", "Resp.Inner"))
		all.Enums = []*spec.Enum{spec.E("Inner", "INNER_UNSPECIFIED", "INNER_A")}
		add("deg=all_kinds", spec.One("deg_allkinds", &spec.File{
			Enums:    []*spec.Enum{spec.E("Color", "COLOR_UNSPECIFIED", "COLOR_RED", "COLOR_BLUE")},
			Messages: []*spec.Message{spec.M("Req", spec.F("id", "string")), all},
			Services: svc()}))
	}
	depths := []int{1, 2, 8, 32}
	if thorough {
		depths = nil
		for d := 1; d <= 32; d++ {
			depths = append(depths, d)
		}
	}
	for _, d := range depths {
		// nested declarations: Resp.N1.N2...Nd, each referencing the next
		var build func(level int) *spec.Message
		build = func(level int) *spec.Message {
			m := spec.M(fmt.Sprintf("N%d", level), spec.F("v", "int32"))
			if level < d {
				child := build(level + 1)
				m.Messages = []*spec.Message{child}
				m.Fields = append(m.Fields, spec.Msg("child", typePath(level+1)))
			}
			return m
		}
		resp := spec.M("Resp", spec.F("name", "string"), spec.Msg("child", "Resp.N1"))
		resp.Messages = []*spec.Message{build(1)}
		add(fmt.Sprintf("deg=nested_decl,depth=%d", d), spec.One(fmt.Sprintf("deg_nest%d", d), &spec.File{
			Messages: []*spec.Message{spec.M("Req", spec.F("id", "string")), resp}, Services: svc()}))
		// reference chain of top-level messages
		var ms []*spec.Message
		ms = append(ms, spec.M("Req", spec.F("id", "string")))
		for i := 0; i <= d; i++ {
			m := spec.M(fmt.Sprintf("C%d", i), spec.F("v", "int32"))
			if i < d {
				m.Fields = append(m.Fields, spec.Msg("next", fmt.Sprintf("C%d", i+1)))
			}
			ms = append(ms, m)
		}
		add(fmt.Sprintf("deg=ref_chain,depth=%d", d), spec.One(fmt.Sprintf("deg_chain%d", d), &spec.File{
			Messages: ms, Services: []*spec.Service{spec.SvcNoBase("DegService", spec.RPCDefault("Do", "Req", "C0"))}}))
	}
	return out
}

func typePath(level int) string {
	p := "Resp"
	for i := 1; i <= level; i++ {
		p += fmt.Sprintf(".N%d", i)
	}
	return p
}
