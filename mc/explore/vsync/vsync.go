// Package vsync replaces package sync inside instrumented copies of generated code: same API, but every
// operation is a scheduling point of vsched and blocking is modelled (a waiting thread is disabled).
package vsync

import (
	"fmt"
	gosync "sync"

	"verif/mc/explore/vsched"
)

var (
	regMu gosync.Mutex
	onces []*Once
)

// ResetOnces makes every Once created so far fresh again (harness-only: package-level Onces of generated
// code must be cold at the start of each explored execution).
func ResetOnces() {
	regMu.Lock()
	defer regMu.Unlock()
	for _, o := range onces {
		o.done, o.running, o.real = false, false, gosync.Once{}
	}
	for _, p := range pools {
		p.items = nil
	}
}

type Once struct {
	registered bool
	done       bool
	running    bool
	real       gosync.Once
}

func (o *Once) Do(f func()) {
	if !o.registered {
		regMu.Lock()
		o.registered = true
		onces = append(onces, o)
		regMu.Unlock()
	}
	if !vsched.Active() {
		o.real.Do(func() { f(); o.done = true })
		return
	}
	id := fmt.Sprintf("once:%p", o)
	vsched.SyncPoint(id)
	for o.running {
		vsched.Block(id+":wait", func() bool { return !o.running })
	}
	if o.done {
		return
	}
	o.running = true
	defer func() { o.running = false; o.done = true }()
	f()
}

type Mutex struct {
	held bool
	real gosync.Mutex
}

func (m *Mutex) Lock() {
	if !vsched.Active() {
		m.real.Lock()
		return
	}
	id := fmt.Sprintf("mutex:%p", m)
	vsched.SyncPoint(id)
	for m.held {
		vsched.Block(id+":wait", func() bool { return !m.held })
	}
	m.held = true
}

func (m *Mutex) Unlock() {
	if !vsched.Active() {
		m.real.Unlock()
		return
	}
	m.held = false
	vsched.SyncPoint(fmt.Sprintf("mutex:%p:unlock", m))
}

func (m *Mutex) TryLock() bool {
	if !vsched.Active() {
		return m.real.TryLock()
	}
	if m.held {
		return false
	}
	m.held = true
	return true
}

type RWMutex struct {
	writer  bool
	readers int
	real    gosync.RWMutex
}

func (m *RWMutex) Lock() {
	if !vsched.Active() {
		m.real.Lock()
		return
	}
	id := fmt.Sprintf("rwmutex:%p", m)
	vsched.SyncPoint(id)
	for m.writer || m.readers > 0 {
		vsched.Block(id+":wait", func() bool { return !m.writer && m.readers == 0 })
	}
	m.writer = true
}

func (m *RWMutex) Unlock() {
	if !vsched.Active() {
		m.real.Unlock()
		return
	}
	m.writer = false
	vsched.SyncPoint(fmt.Sprintf("rwmutex:%p:unlock", m))
}

func (m *RWMutex) RLock() {
	if !vsched.Active() {
		m.real.RLock()
		return
	}
	id := fmt.Sprintf("rwmutex:%p:r", m)
	vsched.SyncPoint(id)
	for m.writer {
		vsched.Block(id+":wait", func() bool { return !m.writer })
	}
	m.readers++
}

func (m *RWMutex) RUnlock() {
	if !vsched.Active() {
		m.real.RUnlock()
		return
	}
	m.readers--
	vsched.SyncPoint(fmt.Sprintf("rwmutex:%p:runlock", m))
}

// WaitGroup and Map are passed through to the real implementation (no generated code uses them today; a
// generator that starts using them gets real semantics without scheduling points, reported by the instrumenter).
type WaitGroup = gosync.WaitGroup
type Map = gosync.Map
type Locker = gosync.Locker

func OnceFunc(f func()) func() { return gosync.OnceFunc(f) }

// Pool is a deterministic stand-in for sync.Pool: a LIFO free list shared by all threads (the real pool may hand any
// thread any item or none; handing the most recently returned item to whoever asks next is one of its behaviours and the
// one that makes reuse visible). Get and Put are scheduling points. Pools are emptied by ResetOnces, so that every explored
// execution and every history starts with cold pools.
type Pool struct {
	New        func() any
	registered bool
	items      []any
	real       gosync.Mutex
}

var pools []*Pool

func (p *Pool) register() {
	if !p.registered {
		regMu.Lock()
		p.registered = true
		pools = append(pools, p)
		regMu.Unlock()
	}
}

func (p *Pool) Get() any {
	p.register()
	if vsched.Active() {
		vsched.SyncPoint(fmt.Sprintf("pool:%p", p))
	}
	p.real.Lock()
	var x any
	if n := len(p.items); n > 0 {
		x, p.items = p.items[n-1], p.items[:n-1]
	}
	p.real.Unlock()
	if x == nil && p.New != nil {
		x = p.New()
	}
	return x
}

func (p *Pool) Put(x any) {
	if x == nil {
		return
	}
	p.register()
	if vsched.Active() {
		vsched.SyncPoint(fmt.Sprintf("pool:%p", p))
	}
	p.real.Lock()
	p.items = append(p.items, x)
	p.real.Unlock()
	// ... and a scheduling point right AFTER the item is back in the pool: the returning thread may still hold
	// references into it (a slice of a pooled buffer); whoever runs now can Get the same item and overwrite it
	if vsched.Active() {
		vsched.SyncPoint(fmt.Sprintf("pool-released:%p", p))
	}
}

// ResetPools empties every pool created so far.
func ResetPools() {
	regMu.Lock()
	defer regMu.Unlock()
	for _, p := range pools {
		p.items = nil
	}
}
