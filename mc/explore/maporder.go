// Package explore holds the explorers that need to instrument code: the map-order controller (C15) and
// the controlled scheduler (C17).
package explore

import (
	"bytes"
	"encoding/json"
	"fmt"
	"go/ast"
	"go/format"
	"go/importer"
	"go/parser"
	"go/token"
	"go/types"
	"os"
	"path/filepath"
	"sort"
	"strings"
)

// MapSite is one `for ... range <map>` statement in the generators.
type MapSite struct {
	ID           string `json:"id"` // pkgdir/file.go:line
	KeyType      string `json:"key_type"`
	Controllable bool   `json:"controllable"`
}

type MapOrderOverlay struct {
	OverlayJSON string    // path of the -overlay file
	Sites       []MapSite // every range-over-map site found
	GoStmts     int       // number of `go` statements in generator packages
}

var generatorDirs = []string{"internal/annotations", "internal/tscommon", "internal/httpgen", "internal/clientgen", "internal/openapiv3",
	"internal/tsclientgen", "internal/tsservergen", "cmd/protoc-gen-openapiv3", "cmd/protoc-gen-go-http", "cmd/protoc-gen-go-client",
	"cmd/protoc-gen-ts-client", "cmd/protoc-gen-ts-server"}

const helperSrc = `package %s

import (
	"fmt"
	"os"
	"sort"
	"strconv"
	"strings"
)

// vhookKeys returns the keys of m in canonical (sorted) order permuted as VERIF_MAPORDER says
// ("site=i,j,k;site2=..."), and logs the site and its size to VERIF_MAPLOG.
func vhookKeys[K ~string | ~int | ~int32 | ~int64 | ~uint32 | ~uint64, V any](m map[K]V, site string) []K {
	keys := make([]K, 0, len(m))
	for k := range m {
		keys = append(keys, k)
	}
	sort.Slice(keys, func(i, j int) bool { return keys[i] < keys[j] })
	if p := os.Getenv("VERIF_MAPLOG"); p != "" {
		if f, err := os.OpenFile(p, os.O_APPEND|os.O_CREATE|os.O_WRONLY, 0o644); err == nil {
			fmt.Fprintf(f, "%%s %%d\n", site, len(keys))
			f.Close()
		}
	}
	for _, ent := range strings.Split(os.Getenv("VERIF_MAPORDER"), ";") {
		kv := strings.SplitN(ent, "=", 2)
		if len(kv) != 2 || kv[0] != site {
			continue
		}
		idx := strings.Split(kv[1], ",")
		if len(idx) != len(keys) {
			continue // permutation for another size of this site
		}
		out := make([]K, 0, len(keys))
		for _, s := range idx {
			i, err := strconv.Atoi(s)
			if err != nil || i < 0 || i >= len(keys) {
				return keys
			}
			out = append(out, keys[i])
		}
		return out
	}
	return keys
}
`

// BuildMapOrderOverlay type-checks the generator packages of repo, rewrites every range-over-map statement
// into iteration over vhookKeys(...) in copies under outDir and writes the overlay JSON.
func BuildMapOrderOverlay(repo, outDir string) (*MapOrderOverlay, error) {
	if err := os.MkdirAll(outDir, 0o755); err != nil {
		return nil, err
	}
	cwd, _ := os.Getwd()
	os.Chdir(repo)
	defer os.Chdir(cwd)
	fset := token.NewFileSet()
	imp := importer.ForCompiler(fset, "source", nil)
	res := &MapOrderOverlay{}
	replace := map[string]string{}
	for _, dir := range generatorDirs {
		abs := filepath.Join(repo, dir)
		pkgs, err := parser.ParseDir(fset, abs, func(fi os.FileInfo) bool { return !strings.HasSuffix(fi.Name(), "_test.go") }, parser.ParseComments)
		if err != nil {
			return nil, err
		}
		for _, p := range pkgs {
			var files []*ast.File
			var names []string
			for n := range p.Files {
				names = append(names, n)
			}
			sort.Strings(names)
			for _, n := range names {
				files = append(files, p.Files[n])
			}
			info := &types.Info{Types: map[ast.Expr]types.TypeAndValue{}}
			var terr error
			conf := types.Config{Importer: imp, Error: func(err error) {
				if terr == nil {
					terr = err
				}
			}}
			conf.Check("github.com/SebastienMelki/sebuf/"+dir, fset, files, info)
			if terr != nil {
				return nil, fmt.Errorf("type-checking %s: %w", dir, terr)
			}
			pkgTouched := false
			for fi, f := range files {
				touched := false
				ast.Inspect(f, func(n ast.Node) bool {
					switch x := n.(type) {
					case *ast.GoStmt:
						res.GoStmts++
					case *ast.RangeStmt:
						tv, ok := info.Types[x.X]
						if !ok {
							return true
						}
						mt, isMap := tv.Type.Underlying().(*types.Map)
						if !isMap {
							return true
						}
						pos := fset.Position(x.Pos())
						rel, _ := filepath.Rel(repo, pos.Filename)
						site := MapSite{ID: fmt.Sprintf("%s:%d", rel, pos.Line), KeyType: mt.Key().String()}
						if b, ok := mt.Key().Underlying().(*types.Basic); ok && b.Info()&(types.IsString|types.IsInteger) != 0 {
							site.Controllable = true
							rewriteRange(x, site.ID)
							touched = true
						}
						res.Sites = append(res.Sites, site)
					}
					return true
				})
				if touched {
					pkgTouched = true
					var buf bytes.Buffer
					if err := format.Node(&buf, fset, f); err != nil {
						return nil, err
					}
					out := filepath.Join(outDir, strings.ReplaceAll(dir, "/", "_")+"_"+filepath.Base(names[fi]))
					if err := os.WriteFile(out, buf.Bytes(), 0o644); err != nil {
						return nil, err
					}
					replace[names[fi]] = out
				}
			}
			if pkgTouched {
				out := filepath.Join(outDir, strings.ReplaceAll(dir, "/", "_")+"_zz_vhook.go")
				if err := os.WriteFile(out, []byte(fmt.Sprintf(helperSrc, p.Name)), 0o644); err != nil {
					return nil, err
				}
				replace[filepath.Join(abs, "zz_vhook.go")] = out
			}
		}
	}
	ob, _ := json.MarshalIndent(map[string]any{"Replace": replace}, "", " ")
	res.OverlayJSON = filepath.Join(outDir, "overlay.json")
	if err := os.WriteFile(res.OverlayJSON, ob, 0o644); err != nil {
		return nil, err
	}
	sb, _ := json.MarshalIndent(res, "", " ")
	os.WriteFile(filepath.Join(outDir, "sites.json"), sb, 0o644)
	return res, nil
}

// rewriteRange turns `for k, v := range m { body }` into
// `for _, vhK := range vhookKeys(m, site) { k, v := vhK, m[vhK]; body }` (in place).
func rewriteRange(rs *ast.RangeStmt, site string) {
	m := rs.X
	keyVar := ast.NewIdent("vhK")
	var pre []ast.Stmt
	tok := rs.Tok
	if tok == token.ILLEGAL {
		tok = token.DEFINE
	}
	isBlank := func(e ast.Expr) bool {
		if e == nil {
			return true
		}
		id, ok := e.(*ast.Ident)
		return ok && id.Name == "_"
	}
	if !isBlank(rs.Key) {
		pre = append(pre, &ast.AssignStmt{Lhs: []ast.Expr{rs.Key}, Tok: tok, Rhs: []ast.Expr{keyVar}})
	}
	if !isBlank(rs.Value) {
		pre = append(pre, &ast.AssignStmt{Lhs: []ast.Expr{rs.Value}, Tok: tok, Rhs: []ast.Expr{&ast.IndexExpr{X: m, Index: keyVar}}})
	}
	rs.Key = ast.NewIdent("_")
	rs.Value = keyVar
	rs.Tok = token.DEFINE
	rs.X = &ast.CallExpr{Fun: ast.NewIdent("vhookKeys"), Args: []ast.Expr{m, &ast.BasicLit{Kind: token.STRING, Value: fmt.Sprintf("%q", site)}}}
	rs.Body.List = append(pre, rs.Body.List...)
}
