// Package vsched is a controlled cooperative scheduler for exhaustive, preemption-bounded exploration of
// thread interleavings at instrumented shared accesses and synchronisation operations.
package vsched

import (
	"fmt"
	"reflect"
	"runtime/debug"
	"sort"
	"strings"
)

// Op is the operation a parked thread will perform when resumed.
type Op struct {
	ID    string
	Write bool
	Sync  bool // synchronisation operation (never a data race by itself)
}

type thread struct {
	id      int
	body    func()
	resume  chan struct{}
	pending Op
	parked  bool
	done    bool
	blocked func() bool // non-nil: disabled until it returns true
	panic   string
}

// ChoicePoint records one scheduling decision.
type ChoicePoint struct {
	Enabled            []int
	Chosen             int // index into Enabled
	RunningStillEnable bool
	Pending            map[int]Op
}

type Race struct {
	ID     string
	A, B   int
	AWrite bool
	BWrite bool
}

// Execution is the result of one run.
type Execution struct {
	Points   []ChoicePoint
	Choices  []int
	Races    []Race
	Deadlock bool
	Horizon  bool
	Panics   map[int]string
}

type sched struct {
	threads []*thread
	yield   chan int // thread id that yielded / finished
	running int
}

var active *sched

// Current returns the id of the running thread (-1 outside a controlled execution).
func Current() int {
	if active == nil {
		return -1
	}
	return active.running
}

// Active reports whether a controlled execution is in progress.
func Active() bool { return active != nil }

// Access is called by instrumented code before a statement that touches a shared location.
func Access(id string, write bool) {
	if active == nil {
		return
	}
	active.park(Op{ID: id, Write: write})
}

// AccessAt is Access for a field reached through a method receiver: the location is the field of that object, so two threads
// conflict only when they hold the same object (pointer receivers; a value receiver is a private copy and never conflicts).
func AccessAt(id string, obj any, write bool) {
	if active == nil {
		return
	}
	rv := reflect.ValueOf(obj)
	if rv.Kind() != reflect.Pointer {
		return
	}
	active.park(Op{ID: fmt.Sprintf("%s@%x", id, rv.Pointer()), Write: write})
}

// SyncPoint is called by the vsync shim before a synchronisation operation.
func SyncPoint(id string) {
	if active == nil {
		return
	}
	active.park(Op{ID: id, Sync: true})
}

// Block parks the running thread until cond() holds (re-evaluated by the controller).
func Block(id string, cond func() bool) {
	if active == nil {
		if !cond() {
			panic("vsched: would block outside a controlled execution: " + id)
		}
		return
	}
	s := active
	t := s.threads[s.running]
	t.blocked = cond
	s.park(Op{ID: id, Sync: true})
	t.blocked = nil
}

func (s *sched) park(op Op) {
	t := s.threads[s.running]
	t.pending = op
	t.parked = true
	s.yield <- t.id
	<-t.resume
	t.parked = false
}

const horizon = 10000

// Run executes the thread bodies under the controller. Choices beyond the prefix default to: keep the
// running thread if it is still enabled, else the lowest enabled id (index 0 of the canonical Enabled order).
func Run(bodies []func(), prefix []int) *Execution {
	s := &sched{yield: make(chan int)}
	ex := &Execution{Panics: map[int]string{}}
	for i, b := range bodies {
		s.threads = append(s.threads, &thread{id: i, body: b, resume: make(chan struct{})})
	}
	active = s
	defer func() { active = nil }()
	for _, t := range s.threads {
		t := t
		go func() {
			<-t.resume
			func() {
				defer func() {
					if p := recover(); p != nil {
						t.panic = fmt.Sprint(p) + "\n" + string(debug.Stack())
					}
				}()
				t.body()
			}()
			t.done = true
			s.yield <- t.id
		}()
		// every thread starts parked at a virtual "start" point
		t.parked = true
		t.pending = Op{ID: "start", Sync: true}
	}
	running := -1
	for step := 0; ; step++ {
		var enabled []int
		allDone := true
		for _, t := range s.threads {
			if t.done {
				continue
			}
			allDone = false
			if t.blocked != nil && !t.blocked() {
				continue
			}
			enabled = append(enabled, t.id)
		}
		if allDone {
			break
		}
		if len(enabled) == 0 {
			ex.Deadlock = true
			break
		}
		if step > horizon {
			ex.Horizon = true
			break
		}
		// canonical order: the running thread first if still enabled, then ascending ids
		still := false
		sort.Ints(enabled)
		for i, id := range enabled {
			if id == running {
				still = true
				enabled = append([]int{id}, append(append([]int(nil), enabled[:i]...), enabled[i+1:]...)...)
				break
			}
		}
		// data races: conflicting pending accesses of two enabled threads
		pend := map[int]Op{}
		for _, id := range enabled {
			pend[id] = s.threads[id].pending
		}
		for i := 0; i < len(enabled); i++ {
			for j := i + 1; j < len(enabled); j++ {
				a, b := s.threads[enabled[i]], s.threads[enabled[j]]
				if a.pending.Sync || b.pending.Sync || a.pending.ID != b.pending.ID {
					continue
				}
				if a.pending.Write || b.pending.Write {
					ex.Races = append(ex.Races, Race{ID: a.pending.ID, A: a.id, B: b.id, AWrite: a.pending.Write, BWrite: b.pending.Write})
				}
			}
		}
		choice := 0
		if len(ex.Points) < len(prefix) {
			choice = prefix[len(ex.Points)]
			if choice < 0 || choice >= len(enabled) {
				panic(fmt.Sprintf("vsched: replay divergence: choice %d of %d enabled at point %d", choice, len(enabled), len(ex.Points)))
			}
		}
		ex.Points = append(ex.Points, ChoicePoint{Enabled: enabled, Chosen: choice, RunningStillEnable: still, Pending: pend})
		ex.Choices = append(ex.Choices, choice)
		running = enabled[choice]
		s.running = running
		s.threads[running].resume <- struct{}{}
		<-s.yield
	}
	for _, t := range s.threads {
		if t.panic != "" {
			ex.Panics[t.id] = t.panic
		}
	}
	// release parked goroutines of an aborted execution (deadlock / horizon): they stay blocked forever on
	// their resume channel and are garbage as soon as the scheduler is dropped.
	return ex
}

// Explore enumerates every execution with at most bound preemptions (the guidance's idiom) and calls
// visit for each; visit returning false stops the exploration. It returns the number of executions.
func Explore(mk func() []func(), bound int, limit int, visit func(*Execution) bool) (n int, capped bool) {
	var rec func(prefix []int) bool
	rec = func(prefix []int) bool {
		x := Run(mk(), prefix)
		n++
		if !visit(x) {
			return false
		}
		if limit > 0 && n >= limit {
			capped = true
			return false
		}
		for i := len(prefix); i < len(x.Points); i++ {
			p := x.Points[i]
			cost := preemptionsBefore(x, i)
			for alt := 1; alt < len(p.Enabled); alt++ {
				c := cost
				if p.RunningStillEnable {
					c++ // switching away from a runnable thread is a preemption
				}
				if c > bound {
					continue
				}
				np := append(append([]int(nil), x.Choices[:i]...), alt)
				if !rec(np) {
					return false
				}
			}
		}
		return true
	}
	rec(nil)
	return n, capped
}

func preemptionsBefore(x *Execution, i int) int {
	n := 0
	for k := 0; k < i; k++ {
		if x.Points[k].RunningStillEnable && x.Points[k].Chosen != 0 {
			n++
		}
	}
	return n
}

// ScheduleString renders a schedule compactly.
func ScheduleString(x *Execution) string {
	var b strings.Builder
	for i, p := range x.Points {
		if i > 0 {
			b.WriteByte(' ')
		}
		fmt.Fprintf(&b, "%d", p.Enabled[p.Chosen])
	}
	return b.String()
}

// --- cold start of package-level state -------------------------------------------------------------------
// The instrumenter emits, per instrumented package-level variable, a snapshot of its initial value and a reset
// function that restores it; ResetState runs them before every explored execution so that lazily built
// process-wide state (a validator built on first use, a cache filled by the first call) is cold each time, whatever
// mechanism guards it (sync.Once, a mutex and a nil check, an atomic flag).

var resetFns []func()

// OnReset registers a restore function (called from generated init functions).
func OnReset(f func()) { resetFns = append(resetFns, f) }

// ResetState restores every registered package-level variable to its initial value.
func ResetState() {
	for _, f := range resetFns {
		f()
	}
}

// Snapshot returns a copy of v that does not share a map or slice with it (one level deep); used both to remember the
// initial value and to hand out a fresh copy on every reset.
func Snapshot[T any](v T) T {
	rv := reflect.ValueOf(&v).Elem()
	switch rv.Kind() {
	case reflect.Map:
		if !rv.IsNil() {
			c := reflect.MakeMapWithSize(rv.Type(), rv.Len())
			for it := rv.MapRange(); it.Next(); {
				c.SetMapIndex(it.Key(), it.Value())
			}
			rv.Set(c)
		}
	case reflect.Slice:
		if !rv.IsNil() {
			c := reflect.MakeSlice(rv.Type(), rv.Len(), rv.Len())
			reflect.Copy(c, rv)
			rv.Set(c)
		}
	}
	return v
}
