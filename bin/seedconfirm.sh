#!/bin/bash
# usage: bin/seedconfirm.sh <sNN> '<demo command run inside /tmp/seed/<sNN>_demo>'
# Confirms a sub-agent's seeded change myself: worktree /tmp/seed/<sNN> carries the change (uncommitted);
# (1) builds, (2) pinned suite 373/373, (3) demo fails with the change, (4) demo passes without it. Leaves the change applied
# and writes /tmp/seed/<sNN>.patch and /tmp/seed/<sNN>.confirm (what was run, with results).
s="$1"; cmd="$2"; wt=/tmp/seed/$s; demo=/tmp/seed/${s}_demo
. /tmp/seed/tools/env.sh
log=/tmp/seed/$s.confirm; : > $log
git -C $wt diff > /tmp/seed/$s.patch
[ -s /tmp/seed/$s.patch ] || { echo "$s: empty patch"; exit 2; }
git -C $wt status --porcelain | grep -v '^ M' | head -3
(cd $wt && go build ./... ) >>$log 2>&1 && echo "build: ok" | tee -a $log || { echo "$s build FAILED"; exit 1; }
/tmp/seed/tools/baseline.sh $wt 2>&1 | tee -a $log | head -3
(cd $demo && timeout 600 bash -c "$cmd") > /tmp/seed/$s.with.out 2>&1; rcw=$?
git -C $wt apply -R /tmp/seed/$s.patch || { echo "cannot revert"; exit 2; }
(cd $demo && timeout 600 bash -c "$cmd") > /tmp/seed/$s.without.out 2>&1; rco=$?
git -C $wt apply /tmp/seed/$s.patch
echo "demo with change: exit=$rcw ; without: exit=$rco" | tee -a $log
if [ $rcw -ne 0 ] && [ $rco -eq 0 ]; then echo "$s CONFIRMED" | tee -a $log; else echo "$s NOT CONFIRMED" | tee -a $log; tail -5 /tmp/seed/$s.with.out /tmp/seed/$s.without.out; exit 1; fi
