#!/usr/bin/env python3
"""usage: addfinding.py <json-entry>   — appends/replaces (by id) an entry of known_findings.json"""
import json,sys
p='/verif/known_findings.json'
d=json.load(open(p))
e=json.loads(sys.argv[1])
d['findings']=[x for x in d['findings'] if x['id']!=e['id']]+[e]
json.dump(d,open(p,'w'),indent=1)
print("findings:",len(d['findings']))
