# sourced by every script: offline Go toolchain matching /repo/go.mod
export GOFLAGS=-mod=mod GOPROXY=off GOSUMDB=off GOTOOLCHAIN=local GONOSUMDB='*' GONOSUMCHECK=1 GOFLAGS=-mod=mod
export TZ=UTC LANG=C LC_ALL=C
_gm="${GOMODCACHE:-$HOME/go/pkg/mod}"
[ -d "$_gm" ] || _gm="/root/go/pkg/mod"
if [ -x "$_gm/golang.org/toolchain@v0.0.1-go1.24.7.linux-amd64/bin/go" ]; then
  export PATH="$_gm/golang.org/toolchain@v0.0.1-go1.24.7.linux-amd64/bin:$PATH"
elif [ -x /opt/veriftools/go1.26.8/bin/go ]; then
  export PATH="/opt/veriftools/go1.26.8/bin:$PATH"
fi
export VERIF_HOME="${VERIF_HOME:-$HOME/.cache/verif}"
export VERIF_REPO="${VERIF_REPO:-/repo}"
export NODE22="${NODE22:-/root/.nvm/versions/node/v22.22.2/bin/node}"
mkdir -p "$VERIF_HOME"
