#!/bin/bash
# usage: bin/sweep.sh quick|thorough [IDs...]  - runs the checks of one tier one after the other, prints one line per check
here="$(cd "$(dirname "$0")/.." && pwd)"
tier="${1:-quick}"; shift
ids="$*"; [ -n "$ids" ] || ids="C01 C02 C03 C04 C05 C06 C07 C08 C09 C10 C11 C12 C13 C14 C15 C16 C17 C18 C19 C20"
mkdir -p "$HOME/.cache/verif/logs"
rc_all=0
for id in $ids; do
  log="$HOME/.cache/verif/logs/sweep.$tier.$id.out"
  "$here/bin/check" "$id" "$tier" > "$log" 2>&1; rc=$?
  [ $rc -eq 0 ] || rc_all=1
  echo "$id rc=$rc $(grep -a '^SUMMARY' "$log" | cut -c1-220)"
done
exit $rc_all
