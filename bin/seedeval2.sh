#!/bin/bash
# usage: bin/seedeval2.sh <seeded/dir | patch-file> <ID> [<ID>...]
# Like seedeval.sh but leaves /repo alone: the patch is applied to a scratch worktree of /repo's HEAD under /tmp/ev and the
# quick checks run against it (VERIF_REPO). Several of these can run side by side. The worktree is removed afterwards.
here="$(cd "$(dirname "$0")/.." && pwd)"
src="$1"; shift
if [ -d "$src" ]; then patch="$(cd "$src" && pwd)/patch.diff"; name="$(basename "$src")"; else patch="$(readlink -f "$src")"; name="$(basename "$src" .patch)"; fi
[ -f "$patch" ] || { echo "no patch $patch"; exit 2; }
wt="/tmp/ev/$name.$$"
mkdir -p /tmp/ev
git -C /repo worktree add -q --detach "$wt" HEAD || exit 2
trap 'git -C /repo worktree remove --force "$wt" 2>/dev/null; rm -rf "$wt"' EXIT
git -C "$wt" apply "$patch" || { echo "$name STALE (patch does not apply to HEAD)"; exit 2; }
for id in "$@"; do
  out=$(VERIF_REPO="$wt" VERIF_OUT="$wt.out" "$here/bin/check" "$id" quick 2>&1); rc=$?
  n=$(echo "$out" | grep -ac '^VIOLATION')
  echo "$name $id exit=$rc violations=$n $(echo "$out" | grep -a '^  violation' | head -2 | cut -c1-330)"
done
rm -rf "$wt.out"
