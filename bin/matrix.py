#!/usr/bin/env python3
"""usage: bin/matrix.py <ID> [rowkey] [colkey]  — ann x msg matrix of unknown violations"""
import json,sys,collections,os
pid=sys.argv[1]; rk=sys.argv[2] if len(sys.argv)>2 else 'ann'; ck=sys.argv[3] if len(sys.argv)>3 else 'msg'
fn=f'/verif/replays/{pid}/_all.json'
vs=json.load(open(fn)) if os.path.exists(fn) else []
m=collections.defaultdict(set)
def feats(cell):
    c=cell.split('#')[0]; fam,rest=c.split('/',1)
    d={'family':fam}
    for kv in rest.split(','):
        if '=' in kv:
            k,v=kv.split('=',1); d[k]=v
    return d
ab={'canonical':'C','explicit':'E','_rejected':'rej','_differs':'dif','roundtrip':'RT','decode_of_own_output_fails':'OWN','encode_fails':'ENC','response_json_differs':'RESP','documented_form_rejected':'REQrej','request_decoded_differs':'REQdif','response_not_200':'R!200','default_request_not_dispatched':'DEFrej'}
for v in vs:
    f=feats(v['cell']); s=v['symptom']
    for a,b in ab.items(): s=s.replace(a,b)
    extra=','.join(f"{k}={f[k]}" for k in ('build','dir') if k in f)
    m[(f.get(rk,f.get('unit','?')),f.get(ck,'?'))].add(s+('['+extra+']' if extra else ''))
rows=sorted({k[0] for k in m})
for r in rows:
    print(r)
    for (a,b),s in sorted(m.items()):
        if a==r: print('    ',b,':',' '.join(sorted(s)))
