#!/usr/bin/env python3
"""compact triage: bin/tri.py <ID> [maxgroups] [keys...]  groups unknown violations by (selected cell features, symptom)"""
import json,sys,collections,os,re
pid=sys.argv[1]; mx=int(sys.argv[2]) if len(sys.argv)>2 else 14
keys=sys.argv[3:] or ['unit','ann','loc','card','kind','rule','src','pair','build']
fn=f'/verif/replays/{pid}/_all.json'
vs=json.load(open(fn)) if os.path.exists(fn) else []
def feats(cell):
    c=cell.split('#')[0]; fam,rest=(c.split('/',1)+[''])[:2]; d={'family':fam}
    for kv in rest.split(','):
        if '=' in kv: k,v=kv.split('=',1); d[k]=v
    return d
g=collections.OrderedDict()
for v in vs:
    f=feats(v['cell'])
    k=(f['family'],)+tuple(f"{x}={f[x]}" for x in keys if x in f)+(v['symptom'],)
    g.setdefault(k,[]).append((f,v))
print(f"{len(vs)} violations, {len(g)} groups")
for k,l in list(g.items())[:mx]:
    rp=sorted({(x[0].get('rpc') or x[0].get('msg') or '').split('.')[-1] for x in l})
    print(f"{len(l):4d} {' '.join(k)} :: {','.join(rp)[:90]}")
    print("       "+l[0][1].get('detail','')[:210].replace('\n',' '))
