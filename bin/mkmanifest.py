#!/usr/bin/env python3
"""Regenerates /verif/MANIFEST.json from the table below (claimed checks) + properties.jsonl."""
import json, os
here = os.path.dirname(os.path.dirname(os.path.abspath(__file__)))
ids = [json.loads(l)['id'] for l in open(os.path.join(here, 'properties.jsonl'))]
TB = "Go 1.24.7 toolchain, google.golang.org/protobuf (protogen, protodesc), hand-built descriptors validated by protodesc stand in for protoc"
claimed = {
 "C16": dict(
   text="Bounded-exhaustive exploration of the descriptor-shape space: every reference graph over <=2 messages (and over 3 messages up to an edge bound) with singular/repeated/map/oneof/flatten/flatten-with-prefix edges incl. self and mutual recursion, nesting ladders to depth 32 and degenerate files, times 7 plugin/parameter configurations, each executed on the real plugin binaries built from the working tree under a timeout and an address-space limit. Right level because termination/crash freedom is a per-input safety property and the defects live in recursion over the message graph, which small graphs exhaust.",
   note="Assumes: " + TB + "; termination judged by a 20 s/60 s guard against ~30 ms typical runs; exit status 1 with protogen's '<plugin>: message' on stderr counts as an error answer.",
   tech="bounded-exhaustive enumeration of descriptor graphs executed on the real plugin binaries", ref="DESIGN.md section 8 C16"),
 "C13": dict(
   text="Bounded-exhaustive exploration of the accepted-schema universe (core = every feature combination of sebuf's own docs/testdata; extended = deviation-bounded families) times the four plugin subsets/orders {go-http, go-client, go-http+go-client, go-client+go-http}: the real plugins generate, the real Go compiler (go build -gcflags=-e) and the go-test vet subset judge each package, and node 22 imports each emitted TypeScript module. The oracle is the compiler/loader itself, so the level is exhaustive-over-programs rather than sampled goldens.",
   note="Assumes: " + TB + "; protovalidate runtime replaced by an API-compatible stand-in; TypeScript judged by node 22 type stripping (syntax + module load), not by a type checker (none available).",
   tech="bounded-exhaustive enumeration of schemas x plugin subsets, compiled/vetted/loaded by the real toolchains", ref="DESIGN.md section 8 C13"),
 "C04": dict(
   text="Bounded-exhaustive exploration of message value spaces on the real generated codecs: for every message of every codec unit the product of per-field boundary domains is enumerated completely when small, else every point with at most d non-default fields (d reported), and each value is driven through own-output, canonical-contract and explicit-contract decoding via the entry points the server and client really use, on the go-http and the go-client-only build. Oracle: equality up to the documented losses (model.Normalise) and M-json, an independent executable model of the documented mapping.",
   note="Trusted: protojson as reference for unannotated proto3 JSON, M-json model (DESIGN appendix F), value domains of DESIGN 4.3. Values outside the boundary domains and messages with more than d simultaneous non-default fields are not covered.",
   tech="exhaustive enumeration of bounded value spaces against a reference model (M-json), executed on generated code", ref="DESIGN.md section 8 C04"),
 "C05": dict(
   text="Every enumerated value of every echo RPC's message type is sent through the real generated server (in-process wire transport: bytes serialised and re-parsed) in both directions and the JSON on the wire is compared as a value with M-json, the executable model of the documented mapping applied at every depth. Exhaustive over the bounded value space and over the context family (top-level, child, list element, map value, oneof variant).",
   note="Every value is sent under six Content-Type spellings (application/json, with charset, absent, text/plain, Application/JSON, vendor +json); the alternates are judged whenever the server gives a JSON answer / dispatches. Trusted: M-json model written from the annotation documentation; JSON compared as values (numbers by exact digits, sign of zero ignored). Only body-carrying routes without URL-bound fields are used to carry the messages.",
   tech="exhaustive enumeration of bounded value spaces through the generated server, compared with a reference model", ref="DESIGN.md section 8 C05"),
 "C01": dict(
   text="For every RPC of every service unit and both transports (JSON, binary protobuf) every enumerated request value (URL-bound fields over their boundary domains incl. reserved URL characters and integer extremes) and every enumerated response value is sent generated Go client -> byte-level in-process wire -> generated Go server -> recording handler; oracle = the handler of the same RPC saw an equal request and the caller got an equal response. Exhaustive over the bounded schema x value x content-type space.",
   note="Every case runs with the content type as client default and as per-call option over a client whose default is the other one. Trusted: wire transport built from net/http's own Request.Write/ReadRequest/Response.Write/ReadResponse; equality up to documented JSON-annotation losses; -0 and +0 are identified; required query parameters and path variables only take non-empty values; application/octet-stream is not offered by the client API and is not exercised.",
   tech="exhaustive enumeration of schemas x values x transports, executed client->wire->server, compared with identity", ref="DESIGN.md section 8 C01"),
 "C12": dict(
   text="Exhaustive enumeration of the documented rule set (one offending construct per rule, per annotation value and per field position - plain, repeated, map, oneof member -, about 90 constructs) x 4 placements x 2 surroundings through go-http and go-client, checking refusal, offender naming and absence of files on the real plugin binaries; and the converse over the whole valid universe x 5 plugins. The rule list is finite and closed, so enumeration of rule x placement decides the property within the stated placements.",
   note="Assumes " + TB + ". The valid universe includes F-rules and F-pair (two codec features in one message); the Go plugins' refusal of such pairs is the open finding C12-one-codec-feature-per-message. An error message 'names the offender' if it contains the message, field, oneof or enum name. Rules that only TS/OpenAPI plugins could check are outside the statement.",
   tech="exhaustive enumeration of rule x placement x surrounding, executed on the real plugins", ref="DESIGN.md section 8 C12"),
 "C14": dict(
   text="For every spec of the universe and every generate-subset both Go plugins are run on the same request and every same-named file is compared byte for byte (modulo the generator name in the header); codec files emitted by only one plugin are reported. The behavioural half (client-only package codes like the server package) is the build=C vs build=H enumeration of C04. Exhaustive over the bounded schema universe x plugin pairs.",
   note="Assumes " + TB + ".",
   tech="exhaustive enumeration of schemas x generate-subsets, differential comparison of both plugins' outputs", ref="DESIGN.md section 8 C14"),
 "C15": dict(
   text="Explicit-state exploration of request shapes: for every target file of every spec, all generate-subsets containing it x all permutations of file_to_generate x all topological orders of proto_file x unrelated extra files present/absent x parameter spellings, on all five plugins (7 configurations); every variant must reproduce the singleton run's bytes. Hash-seed nondeterminism is owned instead of sampled: every range-over-map site executed in the generators is driven through all permutations of its keys by a build overlay (map-order controller).",
   note="Assumes " + TB + ". Nondeterminism inside third-party libraries (yaml/json encoders) is observed only through repeated identical runs.",
   tech="explicit enumeration of request shapes and of map-iteration orders (owned via build overlay), byte comparison", ref="DESIGN.md section 8 C15"),
 "C09": dict(
   text="Model-based exhaustive exploration of the header gate of the generated Go server and, through the node bridge, of the generated TypeScript server: for every RPC with header declarations, every must-accept exemplar of the header model M-hdr, and every non-empty subset of the required headers made bad in every way (absent, empty, each must-reject exemplar) x body valid/malformed, sent as raw requests through the byte-level wire; the model transition (400 + exact violation set + handler not run + no body read before the verdict / not rejected) is compared on every trace.",
   note="Trusted: M-hdr exemplar sets (values valid per the published OpenAPI type/format vs. not well-formed; values in neither set are not judged). Subsets are enumerated over at most 4 headers. TS server: same cases as fetch Request objects; values the Fetch API cannot carry unchanged go to the Go server only; an empty value of a plain string header is not judged on the TS server; body-read counting is Go only.",
   tech="explicit enumeration of header-state subsets against a reference model, replayed on the generated server", ref="DESIGN.md section 8 C09"),
 "C02": dict(
   text="Explicit enumeration of the URL-binding branches of the request-pipeline model (M-pipe Path/Query/Body stages): every RPC with URL-bound fields x every URL-bound slot x every boundary value / malformed spelling / missing / repeated occurrence x every body shape, as raw requests against the generated Go server; each trace is compared with the model (dispatch with the URL's value, or 400 naming the field without dispatch).",
   note="Trusted: net/http path and query parsing; M-pipe as in DESIGN appendix A. Dot segments and empty path segments are not sent; a repeated occurrence of a singular parameter is only checked for crash freedom. Go server only (TS server: C08).",
   tech="explicit enumeration of M-pipe URL-binding paths, every path replayed on the generated server", ref="DESIGN.md section 8 C02"),
 "C10": dict(
   text="Explicit-state exploration of the error half of the request-pipeline model: error source (10 kinds incl. every single-deviation rule violation) x request content type (3) x error-hook behaviour (none + all 16 subsets of {header, status, message, body}); every model path is replayed on the generated Go server and the produced response is fed to the generated Go client; status, encoding, decoded body, violation field set, hook effects and the client's error value are compared with the model M-err.",
   note="Trusted: M-pipe/M-err (DESIGN appendix A), protovalidate stand-in for rule semantics. Every Go client case runs twice (content type as client default, and as per-call option over a client with the other default). TS side through the node bridge: every un-hooked JSON error response is handed to the generated TS client (ValidationError with the same violations / ApiError with the same status and body) and the generated TS server is given failing handlers (Error -> 500 with message, ValidationError -> 400 with violations, onError hook -> its status, headers and body).",
   tech="explicit-state enumeration of all error paths of the pipeline model, each replayed on generated server and client", ref="DESIGN.md section 8 C10"),
 "C11": dict(
   text="Bounded-exhaustive input exploration: every string up to length L over a 17-symbol JSON token alphabet, every byte string up to length 2/3 as protobuf, and every single mutation of valid bodies, against every generated decoder family of the Go server (millions of requests per run through the byte-level wire), with a reference decoder (protojson / proto.Unmarshal / JSON well-formedness + member accounting) as oracle; plus the full product status x content-type x body class against the generated Go client.",
   note="Small strings and every mutation are also sent with chunked framing (unknown Content-Length) under JSON, x-protobuf and octet-stream. Bodies beyond length L or two mutations away are not covered; an empty body may be dispatched as the default message; duplicate keys are not judged; hangs are excluded by construction (no blocking calls; every execution is bounded by input length).",
   tech="bounded-exhaustive enumeration of input strings and mutations against reference decoders", ref="DESIGN.md section 8 C11"),
 "C18": dict(
   text="Every service spec of the universe (incl. same-named nested types, recursion, multi-file, YAML look-alike strings) x 4 format spellings is generated by the real plugin; each document is decoded and checked exhaustively against the structural rules of OAS 3.1 (refs, path variables vs parameters, uniqueness, reachability closure computed independently from the descriptors, one document per service), every component and parameter schema against the 2020-12 metaschema, and YAML vs JSON renderings as JSON values. Exhaustive over the bounded schema x format space.",
   note="Trusted: go.yaml.in/yaml/v4 decoder + YAML 1.2 core schema interpretation, python jsonschema 4.26 metaschema check, own reachability traversal.",
   tech="exhaustive enumeration of schemas x formats with structural and metaschema oracles", ref="DESIGN.md section 8 C18"),
 "C19": dict(
   text="Exhaustive boundary exploration of rule semantics vs published constraints: every supported rule kind x every field kind x a set of bound values, probed at and around every bound (integers +-1/+-2, floats +-1 ulp, rune-width variants for lengths, set members/non-members, item counts); for each probe the reference rule semantics (protovalidate stand-in on dynamic messages) must agree with python jsonschema on the M-json form against the emitted property schema. The space of (rule, kind, bound, probe) is finite and fully enumerated.",
   note="Trusted: M-rules (stand-in, standard rules only, no CEL), python jsonschema 4.26 without format assertion. NaN/Infinity probes and rules outside the statement's list (prefix, bytes length) are excluded.",
   tech="exhaustive boundary-value enumeration, equivalence of two executable semantics", ref="DESIGN.md section 8 C19"),
 "C06": dict(
   text="Every enumerated request and response value of every RPC (core REST/query/header units and every codec unit) is sent through generated Go client and server over the byte-level wire; every captured request body, 200/400/default response body and every path/query/header value is validated by python jsonschema (Draft 2020-12) against the schema the emitted OpenAPI document gives for that operation, plainly and under a strict transform that forbids undescribed properties at every depth; every reachable component must accept the documented form of its type's default and fully populated value. Exhaustive over the bounded value spaces of C01/C05.",
   note="Trusted: python jsonschema 4.26 (no format assertion), strict transform of mc/py/validate.py, M-json for component satisfiability. Undeclared enum numbers are excluded from the domain; non-finite floats are kept as a separate class. TS client bodies are covered by C08.",
   tech="exhaustive enumeration of wire instances validated against emitted schemas by a JSON Schema validator", ref="DESIGN.md section 8 C06"),
 "C20": dict(
   text="F-mock (response field kind x cardinality x example shape) and the core services are generated with generate_mock=true; the unmodified output is compiled and vetted; in an executed copy the mock's randomness is owned by the explorer (math/rand and crypto/rand redirected), every sequence of random choices is enumerated, and each answer is checked: no error on a valid request, serialisable by the generated server, valid against the published response schema, declared examples used.",
   note="Trusted: the two-line import redirection of the executed copy; C06's schema oracle. Unparsable examples are judged only when at least one example parses.",
   tech="exhaustive enumeration of schemas and of the mock's random choice sequences (RNG owned, not sampled)", ref="DESIGN.md section 8 C20"),
 "C17": dict(
   text="Stateless model checking of the real generated code under a controlled scheduler: the emitted server and client files are instrumented at source level (sync -> scheduler-aware shim, a scheduling point before every statement touching a written shared location), and every interleaving of 2 and 3 concurrent calls with at most 2 (quick) / 3 (thorough) preemptions is executed (DFS over choice prefixes, replay-deterministic), for every unordered pair of a per-unit call alphabet and for triples; each execution is checked for co-enabled conflicting accesses (data race), deadlock, panic and for per-call observations equal to the isolated execution; plus all call sequences up to depth 2/3 versus isolated execution. A free-running -race build of the same bodies is run as a supplementary (sampled) pass.",
   note="Granularity: statements of the emitted files; third-party libraries and sub-statement memory-model effects are not modelled (the -race pass samples those). Locations with no write site anywhere in the emitted code get no scheduling points (they cannot race); the instrumenter lists what it instrumented in the evidence.",
   tech="stateless model checking: controlled scheduler with preemption-bounded DFS over real generated code", ref="DESIGN.md section 8 C17 and appendix C"),
 "C08": dict(
   text="Every enumerated, TypeScript-expressible request/response value of every RPC of the REST, query, path-kind, header, multi-service and codec units is exchanged in all three pairings - emitted TS client -> generated Go server, generated Go client -> emitted TS server (routed by the emitted RouteDescriptors), TS client -> TS server - with the TS artefacts executed under node 22 and the Go artefacts in the harness; the oracle is that the handler of the same RPC receives the caller's request and the caller receives the handler's response; every typed header option of both clients is driven with a marker and must set a declared header.",
   note="Calls are staged (record / serve / finish), equivalent to live calls because the generated clients are stateless between request and response. Values outside JS number precision and non-finite floats are excluded. Module loading itself is C13.",
   tech="exhaustive enumeration of values x pairings executed on the real TS (node) and Go artefacts", ref="DESIGN.md section 8 C08"),
 "C03": dict(
   text="F-route (base path x method configuration, path shapes x verbs, method-name shapes on default routes, query parameters on body verbs) plus the core units: for each RPC five observations are taken from the real artefacts (both clients via two probe requests with distinctive values, TS RouteDescriptors, OpenAPI operation, Go server dispatch of every artefact's concrete request) and compared pairwise for verb, path template and field placement; each RPC must be exactly one OpenAPI operation. Exhaustive over the bounded route-configuration space.",
   note="Templates are compared modulo variable names; a 400 from the Go server counts as routed (refusals are C01/C02's subject).",
   tech="exhaustive enumeration of route configurations, differential comparison of five generators' observable routes", ref="DESIGN.md section 8 C03"),
 "C07": dict(
   text="Every Go-server 200 body for the enumerated response values, every enumerated request value in contract form and every object the emitted TS server handed to a handler (both client pairings) is checked for membership in the TypeScript type that the emitted modules declare for that message, with excess-property rejection; ts-client and ts-server declarations are compared message by message. The TS side is read from the emitted declarations by M-ts (parser + membership relation over the emitted subset). Exhaustive over the bounded value spaces of C06/C08.",
   note="No TypeScript type checker exists in the sandbox; typing is decided by M-ts for the emitted subset (interfaces, aliases, literal unions, object literals, intersections via disjunctive normal form, arrays, Record, optional members, null unions). Omitted members, wrong types and undeclared members are reported as three separate symptoms.",
   tech="exhaustive enumeration of wire values checked against a model of the emitted TypeScript type grammar", ref="DESIGN.md section 8 C07"),
}
NA_REASON = "check not built yet (build in progress; see DESIGN.md section 14)"
checks = []
for i in ids:
    if i in claimed:
        c = claimed[i]
        checks.append({
            "property_id": i,
            "quick_cmd": f"bin/check {i} quick",
            "thorough_cmd": f"bin/check {i} thorough",
            "evidence_file": f"/verif/evidence/{i}.json",
            "replay_cmd_template": "bin/check --replay {path}",
            "engine": "vcheck",
            "level_claimed": {"category": c.get("cat", "model_checking"), "text": c["text"], "design_ref": c["ref"]},
            "level_note": c["note"],
            "technique": c["tech"],
        })
m = {
 "version": 1,
 "setup_cmd": "bin/setup.sh",
 "hooks": {"guard": "verif", "enable": "no source hooks in /repo: checks rebuild the plugins from /repo's working tree; instrumentation is applied with go build -overlay and by rewriting generated code inside scratch workspaces under $VERIF_HOME",
           "baseline_off_cmd": "bin/baseline.sh", "source_commits": [], "add_only": True},
 "engines": [{"name": "vcheck", "path": "/verif/mc", "serves_properties": sorted(claimed), "kind_free_text": "Go: Spec DSL -> descriptors -> real plugins -> compile/load/execute emitted code; bounded-exhaustive enumerators (BEE), explicit-state BFS over request pipeline model with trace replay, controlled scheduler"}],
 "checks": checks,
 "notes": "All checks: cwd=/verif, bin/check <ID> <quick|thorough>. Known findings in known_findings.json. See DESIGN.md.",
 "not_applicable": [{"property_id": i, "reason": NA_REASON} for i in ids if i not in claimed],
}
json.dump(m, open(os.path.join(here, 'MANIFEST.json'), 'w'), indent=1)
print("claimed", sorted(claimed))
