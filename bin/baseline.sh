#!/bin/bash
# Runs the repository's pinned suite (hooks off: there are none) and verifies that every test in
# BASELINE.json's stable_pass list passes. usage: bin/baseline.sh [repo]
here="$(cd "$(dirname "$0")/.." && pwd)"
. "$here/bin/env.sh"
repo="${1:-$VERIF_REPO}"
out="$(mktemp)"
trap 'rm -f "$out"' EXIT
(cd "$repo" && go test -json -vet=off -count=1 -timeout 25m ./... ) > "$out" 2>/dev/null
python3 - "$out" <<'PY'
import json,sys
res={}
for l in open(sys.argv[1]):
    try: e=json.loads(l)
    except Exception: continue
    if e.get('Test') and e.get('Action') in('pass','fail','skip'):
        res[e['Package']+'::'+e['Test']]=e['Action']
want=json.load(open('/root/.vp/BASELINE.json'))['stable_pass']
bad=[t for t in want if res.get(t)!='pass']
print(f"baseline: {len(want)-len(bad)}/{len(want)} stable tests pass")
for t in bad[:20]: print("  NOT PASSING:",t,res.get(t))
sys.exit(1 if bad else 0)
PY
