#!/usr/bin/env python3
"""usage: seedsave.py <sNN> <Cxx> <wave> <json>   json = {summary, needs, demo_cmd, detected_by:{ID:what}, before:bool, strengthening}
Copies /tmp/seed/<sNN>.patch, /tmp/seed/<sNN>_demo and the confirmation log into /verif/seeded/<sNN>-<Cxx>/ and writes meta.json."""
import json, os, shutil, subprocess, sys
s, pid, wave, j = sys.argv[1], sys.argv[2], sys.argv[3], json.loads(sys.argv[4])
d = '/verif/seeded/%s-%s' % (s, pid)
os.makedirs(d, exist_ok=True)
shutil.copy('/tmp/seed/%s.patch' % s, d + '/patch.diff')
if os.path.isdir('/tmp/seed/%s_demo' % s):
    shutil.rmtree(d + '/demo', ignore_errors=True)
    shutil.copytree('/tmp/seed/%s_demo' % s, d + '/demo', ignore=shutil.ignore_patterns('bin', 'node_modules', '*.exe', 'work', 'tmp*', '.cache'))
head = subprocess.run(['git', '-C', '/tmp/seed/' + s, 'rev-parse', '--short', 'HEAD'], capture_output=True, text=True).stdout.strip()
confirm = open('/tmp/seed/%s.confirm' % s).read().strip().splitlines() if os.path.exists('/tmp/seed/%s.confirm' % s) else []
meta = {
 'property': pid, 'also': j.get('also', []), 'summary': j['summary'], 'needs': j['needs'],
 'demo_cmd': j['demo_cmd'] + ' (in demo/; SEBUF_DIR / SEBUF_REPO / SEBUF_WORKTREE or the first argument = tree with the patch applied)',
 'detected_by': j['detected_by'], 'detected_before_strengthening': j['before'], 'strengthening': j['strengthening'],
 'what_i_ran': ['git -C <worktree> diff > patch.diff (worktree of /repo at HEAD %s)' % head,
                'bin/seedconfirm.sh %s: ' % s + ' | '.join(confirm[-4:]),
                j.get('ran', 'bin/seedeval2.sh (patch applied to a scratch worktree of /repo HEAD, quick checks with VERIF_REPO=<worktree>, worktree removed)')],
 'source': 'independent sub-agent given only the property text, the list of slips already tried and a scratch worktree (wave %s)' % wave,
 'applies_to_repo_commit': head}
json.dump(meta, open(d + '/meta.json', 'w'), indent=1)
print('saved', d, os.popen('du -sh %s' % d).read().split()[0])
