#!/usr/bin/env python3
"""Dev-time helper: turns the unknown ctx-family violations of the last run of <ID> into known-finding entries,
one per (annotation[, build]) listing exactly the failing contexts and symptoms. Never used at run time."""
import json,sys,collections,re
pid=sys.argv[1]
vs=json.load(open(f'/verif/replays/{pid}/_all.json'))
def feats(cell):
    c=cell.split('#')[0]; fam,rest=c.split('/',1); d={'family':fam}
    for kv in rest.split(','):
        if '=' in kv: k,v=kv.split('=',1); d[k]=v
    return d
CAUSE={
 'default':"the annotation is implemented by a MarshalJSON/UnmarshalJSON pair on the annotated message only; wherever that message is nested in a message coded by protojson (child, list element, map value, plain oneof variant) or in another generated codec (flatten child, discriminated oneof variant, sibling of an unwrap map: children go through encoding/json), its documented JSON form is not produced / not accepted",
}
g=collections.defaultdict(lambda: {'ctx':set(),'sym':set(),'case':set()})
for v in vs:
    f=feats(v['cell'])
    if f['family']!='ctx': continue
    key=(f['ann'],f.get('build',''),f.get('only',''))
    ctxkey='msg' if 'msg' in f else 'rpc'
    g[key]['ctx'].add(f[ctxkey]); g[key]['sym'].add(v['symptom']); g[key]['k']=ctxkey; g[key]['case'].add(v['cell'].split('#')[1] if '#' in v['cell'] else '')
p='/verif/known_findings.json'
d=json.load(open(p))
old={x['id']:x for x in d['findings'] if x['id'].startswith(pid+'-ctx-')}
d['findings']=[x for x in d['findings'] if not x['id'].startswith(pid+'-ctx-')]
# merge with what earlier runs (other tier) recorded
for fid,x in old.items():
    w=x['where']; k=(w['ann'][0], (w.get('build') or [''])[0], (w.get('only') or [''])[0])
    ck='msg' if 'msg' in w else 'rpc'
    e=g[k]; e['k']=e.get('k',ck)
    e['ctx'].update(w.get(ck,[])); e['case'].update(w.get('case',[]))
    m=re.match(r'^re:\^\((.*)\)\$$',x['symptom'])
    if m:
        for sym in m.group(1).split('|'): e['sym'].add(re.sub(r'\\(.)',r'\1',sym))
for (ann,build,only),e in sorted(g.items()):
    where={'family':['ctx'],'ann':[ann],e['k']:sorted(e['ctx'])}
    if build: where['build']=[build]
    where['case']=sorted(e['case'])
    fid=f"{pid}-ctx-{ann}"+(f"-{build}" if build else '')+(f"-{only}" if only else '')
    d['findings'].append({"id":fid,"property":pid,"status":"open","symptom":"re:^("+"|".join(sorted(re.escape(s) for s in e['sym']))+")$","where":where,
      "call_site":"internal/httpgen/*.go per-annotation codecs + generator.go marshalResponse/bindDataFromJSONRequest (protojson for every message without its own MarshalJSON)",
      "explanation":f"annotation {ann} does not survive nesting: "+CAUSE['default']})
json.dump(d,open(p,'w'),indent=1)
print(len(d['findings']),'findings')
