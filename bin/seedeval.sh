#!/bin/bash
# usage: bin/seedeval.sh <seeded/dir> <ID> [<ID>...]  — applies the seeded change to /repo, runs the quick checks, reverts.
here="$(cd "$(dirname "$0")/.." && pwd)"
d="$1"; shift
[ -f "$d/patch.diff" ] || { echo "no patch in $d"; exit 2; }
[ -z "$(git -C /repo status --porcelain)" ] || { echo "/repo is dirty"; exit 2; }
git -C /repo apply "$(cd "$d" && pwd)/patch.diff" || exit 2
trap 'git -C /repo checkout -- . ; git -C /repo status --porcelain | head -3' EXIT
for id in "$@"; do
  out=$("$here/bin/check" "$id" quick 2>&1); rc=$?
  n=$(echo "$out" | grep -ac '^VIOLATION')
  echo "$(basename $d) $id exit=$rc violations=$n $(echo "$out" | grep -a '^  violation' | head -2 | cut -c1-330)"
done
