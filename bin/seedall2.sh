#!/bin/bash
# usage: bin/seedall2.sh [-j N] [seed-dir ...] — like seedall.sh but through seedeval2.sh (scratch worktrees, /repo untouched), N seeds at a time.
here="$(cd "$(dirname "$0")/.." && pwd)"; cd "$here"
j=3; if [ "${1:-}" = "-j" ]; then j="$2"; shift 2; fi
dirs=("$@"); [ ${#dirs[@]} -eq 0 ] && dirs=(seeded/s*)
one() {
  d="$1"
  ids=$(python3 -c "import json; print(' '.join(json.load(open('$d/meta.json'))['detected_by'].keys()))")
  neut=$(python3 -c "import json; print(json.load(open('$d/meta.json')).get('neutralised_since','')[:60])")
  if ! git -C /repo apply --check "$PWD/$d/patch.diff" 2>/dev/null; then echo "$(basename $d) STALE (patch does not apply to HEAD)"; return; fi
  out=$(bin/seedeval2.sh "$d" $ids 2>&1); caught=""
  for id in $ids; do if echo "$out" | grep -q " $id exit=1 violations=[1-9]"; then caught="$caught $id"; fi; done
  if [ -n "$caught" ]; then echo "$(basename $d) caught by:$caught";
  elif [ -n "$neut" ]; then echo "$(basename $d) NEUTRALISED ($neut...)";
  else echo "$(basename $d) MISSED ($ids) $(echo "$out" | grep -a 'exit=2\|check error' | head -2 | cut -c1-200)"; fi
}
export -f one
printf '%s\n' "${dirs[@]}" | xargs -P "$j" -I{} bash -c 'one {}'
