#!/usr/bin/env python3
"""usage: bin/seedsetup.py sNN:Cxx [sNN:Cxx ...]
Prepares a seeded-change batch: /tmp/seed/tools (offline env + baseline runner), one detached git worktree of
/repo per seed under /tmp/seed/<sNN> and a prompt file /tmp/seed/<sNN>.prompt holding ONLY the property text and
sandbox facts (nothing from /verif). Sub-agents are started with:
  "Read the file /tmp/seed/<sNN>.prompt and carry out the task described there exactly. ..."
Remove afterwards with: git -C /repo worktree remove --force /tmp/seed/<sNN>; rm -rf /tmp/seed"""
import glob, json, os, subprocess, sys
os.makedirs('/tmp/seed/tools', exist_ok=True)
open('/tmp/seed/tools/env.sh', 'w').write('''# source this: offline Go 1.24.7 toolchain for the sebuf repository
export GOFLAGS=-mod=mod GOPROXY=off GOSUMDB=off GOTOOLCHAIN=local GONOSUMDB='*'
export PATH=/root/go/pkg/mod/golang.org/toolchain@v0.0.1-go1.24.7.linux-amd64/bin:$PATH
export TZ=UTC
''')
open('/tmp/seed/tools/baseline.sh', 'w').write('''#!/bin/bash
# usage: baseline.sh <repo-dir>  — runs the repository's pinned test suite and checks that every test of the
# stable baseline (373 tests; tests that need protoc fail in this sandbox and are not part of it) passes.
. /tmp/seed/tools/env.sh
repo="${1:-.}"
out="$(mktemp)"; trap 'rm -f "$out"' EXIT
(cd "$repo" && go test -json -vet=off -count=1 -timeout 25m ./... ) > "$out" 2>/dev/null
python3 - "$out" <<'PY'
import json,sys
res={}
for l in open(sys.argv[1]):
    try: e=json.loads(l)
    except Exception: continue
    if e.get('Test') and e.get('Action') in('pass','fail','skip'):
        res[e['Package']+'::'+e['Test']]=e['Action']
want=json.load(open('/root/.vp/BASELINE.json'))['stable_pass']
bad=[t for t in want if res.get(t)!='pass']
print(f"baseline: {len(want)-len(bad)}/{len(want)} stable tests pass")
for t in bad[:20]: print("  NOT PASSING:",t,res.get(t))
sys.exit(1 if bad else 0)
PY
''')
os.chmod('/tmp/seed/tools/baseline.sh', 0o755)
props = {json.loads(l)['id']: json.loads(l) for l in open('/verif/properties.jsonl')}
base = '''You are helping to evaluate a verification effort for the open-source project SebastienMelki/sebuf (protoc plugins that generate Go/TypeScript HTTP servers, clients, JSON codecs and OpenAPI specs from annotated protobuf services). Your job: introduce ONE realistic defect into the code base that breaks the semantic property quoted below, while the code still compiles and the repository's existing test suite still passes.

Work ONLY inside your own git worktree of the repository: {wt}  (do not touch /repo, do not look at or use anything under /verif — it is off limits; do not commit).

PROPERTY {pid} — {title}
{statement}
(Scope of the quantifier: {qtext})
Code the property is anchored in: {files}

What I need from you:
1. A small, plausible source change (the kind of slip a maintainer could make in a refactor or feature patch — a few lines, not sabotage-looking) in the generator sources (internal/..., cmd/..., http/...) that makes the property FALSE for some inputs. Prefer a defect that needs something specific to manifest: an unusual but legitimate input, a particular combination of annotations/options, a multi-step sequence, a particular interleaving, or two cooperating sites that each look fine alone. Do NOT pick something that every ordinary use would expose at once, and do not simply delete a feature.{extra}
2. The change must compile (`go build ./...`) and the pinned test suite must still pass: run `/tmp/seed/tools/baseline.sh {wt}` (it must print 373/373). Tests that need `protoc` fail in this sandbox before and after; they are not part of the baseline. Do not edit existing tests or testdata.
3. A demonstration that FAILS with your change and PASSES without it: a Go test file or small Go program placed under {demo} (create that directory; it is outside the worktree). It must be runnable offline. State the exact command. Verify both directions yourself (save your change with `git diff > /tmp/seed/<your-id>.patch`, undo it with `git apply -R`, check the unchanged behaviour, re-apply with `git apply`; do NOT use `git stash`: the stash is shared between worktrees and other people work in sibling worktrees).
4. Leave the change as uncommitted modifications in the worktree. Finish with a short report: files/lines changed, why it breaks the property, what exactly is needed for it to manifest, and the commands you ran with their results.

Sandbox facts you need:
- No network. Source the Go toolchain first in every shell: `. /tmp/seed/tools/env.sh` (Go 1.24.7; GOFLAGS=-mod=mod GOPROXY=off).
- There is NO `protoc` and no .proto parser. To drive a plugin or the generator packages, build `descriptorpb.FileDescriptorProto` values by hand in Go, set sebuf options with `proto.SetExtension(opts, sebufhttp.E_Config, ...)` (package github.com/SebastienMelki/sebuf/http), assemble a `pluginpb.CodeGeneratorRequest` (include descriptor.proto and `sebufhttp.File_proto_sebuf_http_annotations_proto` / `File_proto_sebuf_http_headers_proto` as dependency files via protodesc.ToFileDescriptorProto) and either call `protogen.Options{{}}.New(req)` + the generator package in-process (a test placed inside the module can import internal packages; a demo outside the worktree can `go build` the plugin binary from the worktree and pipe the request into it) or run the built plugin binary with the request on stdin.
- The standard protoc-gen-go output can be produced in-process with `google.golang.org/protobuf/cmd/protoc-gen-go/internal_gengo`.
- The runtime module `buf.build/go/protovalidate` is NOT available offline, so generated `*_http_binding.pb.go` files cannot be compiled as they are; demonstrate on the generated TEXT, on plugin responses, on generator-package functions, or on pieces of generated code that do not need that import (you may write a tiny stub module and a `replace` directive in your demo if you want to execute generated server code).
- node 22 (runs .ts files directly) is at /root/.nvm/versions/node/v22.22.2/bin/node; python3 is available.
- Keep the demo self-contained and fast (< 1 minute).
'''
extra0 = os.environ.get('SEED_EXTRA', '')
FOCUS = json.load(open('/verif/bin/seed_focus.json')) if os.path.exists('/verif/bin/seed_focus.json') else {}
taken = {}
for d in sorted(glob.glob('/verif/seeded/s*/meta.json')):
    m = json.load(open(d))
    taken.setdefault(m['property'], []).append(m['summary'].split(' (found independently')[0][:240])
for a in sys.argv[1:]:
    wt, pid = a.split(':')
    p = props[pid]
    extra = extra0
    if taken.get(pid):
        extra += ' Other people have already tried the following slips for this property; choose a DIFFERENT mechanism at a different code site: ' + ' // '.join('(%d) %s' % (i + 1, t) for i, t in enumerate(taken[pid])) + '.'
    if FOCUS.get(pid):
        extra += ' Areas of the property nobody has looked at yet (pick one, or find your own): ' + FOCUS[pid]
    subprocess.run(['git', '-C', '/repo', 'worktree', 'add', '-q', '--detach', '/tmp/seed/' + wt, 'HEAD'], check=True)
    txt = base.format(wt='/tmp/seed/' + wt, pid=pid, title=p['title'], statement=p['statement'], qtext=p['quantifier']['text'],
                      files=', '.join(p['anchors']['files']), demo='/tmp/seed/' + wt + '_demo', extra=(' ' + extra if extra else ''))
    open('/tmp/seed/%s.prompt' % wt, 'w').write(txt)
    print('prepared', wt, pid)
