#!/usr/bin/env python3
"""usage: bin/triage.py <ID> [filter]  — groups the unknown violations of the last run"""
import json,sys,re,collections
pid=sys.argv[1]; flt=sys.argv[2] if len(sys.argv)>2 else ''
import os
fn=f"/verif/replays/{pid}/_all.json"
vs=json.load(open(fn)) if os.path.exists(fn) else []
g=collections.OrderedDict()
for v in vs:
    cell=v['cell'].split('#')[0]
    k=(cell,v['symptom'])
    if flt and flt not in cell+v['symptom']: continue
    g.setdefault(k,[]).append(v)
import os
LIM=int(os.environ.get('LIM','25'))
print(f"{len(vs)} violations in {len(g)} groups (showing {LIM})")
for (cell,sym),l in list(g.items())[:LIM]:
    cases=sorted({v['cell'].split('#')[1] if '#' in v['cell'] else '' for v in l})
    print(f"{cell} :: {sym}  x{len(l)}  cases={cases[:8]}")
    print("     ",l[0].get('detail','')[:260].replace('\n',' '))
