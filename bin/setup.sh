#!/bin/bash
# Offline setup after a fresh restore: build the framework and warm the build caches.
here="$(cd "$(dirname "$0")/.." && pwd)"
. "$here/bin/env.sh"
export VERIF_DIR="$here"
set -e
mkdir -p "$VERIF_HOME/tools"
cd "$here/mc"
go build -o "$VERIF_HOME/tools/vcheck" ./cmd/vcheck
"$VERIF_HOME/tools/vcheck" setup
echo "setup ok"
