#!/bin/bash
# usage: bin/seedall.sh [seed-dir ...]  — re-evaluates seeded changes against /repo's current HEAD: for each seed the checks named
# in meta.json "detected_by" are run with the patch applied (then reverted). Prints one line per seed; exit 1 if a seed is missed.
here="$(cd "$(dirname "$0")/.." && pwd)"
cd "$here"
dirs=("$@"); [ ${#dirs[@]} -eq 0 ] && dirs=(seeded/s*)
missed=0
for d in "${dirs[@]}"; do
  ids=$(python3 -c "import json,sys; print(' '.join(json.load(open('$d/meta.json'))['detected_by'].keys()))")
  neut=$(python3 -c "import json; print(json.load(open('$d/meta.json')).get('neutralised_since','')[:60])")
  if ! git -C /repo apply --check "$here/$d/patch.diff" 2>/dev/null; then echo "$(basename $d) STALE (patch does not apply to HEAD)"; missed=1; continue; fi
  caught=""
  out=$(bin/seedeval.sh "$d" $ids 2>&1)
  for id in $ids; do
    if echo "$out" | grep -q " $id exit=1 violations=[1-9]"; then caught="$caught $id"; fi
  done
  if [ -n "$caught" ]; then echo "$(basename $d) caught by:$caught";
  elif [ -n "$neut" ]; then echo "$(basename $d) NEUTRALISED (no longer breaks the property: $neut...)";
  else echo "$(basename $d) MISSED ($ids)"; missed=1; fi
done
exit $missed
